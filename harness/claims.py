"""claims.py — what MANIFEST.json claims per property (edited as the development grows)."""
NOTE_COMMON = ("Trusted: Coq 8.16.1 kernel; extraction (ExtrOcamlBasic only) and the OCaml driver; the hand-written "
               "model's fidelity to /repo is established by differential correspondence on every run, not proved; "
               "Python/fixedint semantics as modelled in Model/Base.v. ")
TECH = "Coq proof about the executable model + differential correspondence model vs implementation + direct property search"
CLAIMED = {
    "C01": {
        "text": "Theorems (Props/C01.v) prove for every instruction, operand, register file and memory that the modelled single-cycle "
                "step equals a hand-written RV32IM reference (Spec/RV32IM.v) and lift it to runs of any length by induction "
                "(plus bit-level readings of the shifts, sign extension of immediates, x0/32-bit invariants, justification of the "
                "C-string fuel); the model is tied to /repo by per-mnemonic grids and random programs compared step by step.",
        "note": NOTE_COMMON + "Float text of ecall 2 is a harness oracle; CSR/FENCE/EBREAK excluded by the property. "
                "Props/C01FloatDiv.v additionally proves (Flocq) that Python's int(left / right) of DIV/REM - IEEE binary64 division, "
                "round to nearest even, truncation - equals the model's Z.quot / Z.rem for all |operands| <= 2^31 (real-number statement "
                "and the computable IEEE form b64_div); these eight theorems rest on the standard library's axioms "
                "ClassicalDedekindReals.sig_forall_dec, ClassicalDedekindReals.sig_not_dec, FunctionalExtensionality."
                "functional_extensionality_dep and Classical_Prop.classic (Flocq's `round` itself depends on them); every other "
                "theorem is closed under the global context.",
        "technique": "Coq proof of model = ISA reference + differential correspondence model vs implementation",
    },
    "C10": {
        "text": "Props/C10.v proves, for every associativity and every finite in-range access history, that the modelled LRU order is a "
                "permutation whose head is the least recently used block (never-accessed first, in index order), that the reported ages "
                "are the inverse permutation consistent with recency, that the heap-array PLRU refines an inductive binary-tree PLRU "
                "for every depth (victim walk and away-pointing update), and that access is idempotent. The model is tied to "
                "replacement_strategies.py by exhaustive exploration of all reachable states for small associativities and random "
                "histories up to 64 ways; the same histories are checked directly against reference definitions.",
        "note": NOTE_COMMON + "Out-of-range block indices (which the cache never issues) are outside the theorems.",
        "technique": TECH,
    },
    "C17": {
        "text": "Props/C17.v proves for every width n>=1 and every integer v (negative and over-wide included) that the four strings the "
                "modelled formatter produces read back (by small reading functions in Spec/Numerals.v) to v mod 2^n resp. its two's-"
                "complement value, with exact digit counts and grouping 8/2 from the right, and that the memory table lists exactly "
                "the aligned units containing a written cell, strictly ascending, with the current values. Tied to the code by "
                "comparison of formatter and tables (exhaustive for widths 12 and 16 in the thorough tier) and a direct read-back "
                "of the implementation's strings.",
        "note": NOTE_COMMON + "Python's math.ceil(n/4) and math.ceil(len/group) (float division, then ceiling) are modelled as exact integer "
                "ceiling; Props/C17FloatCeil.v proves the two equal for every 0 <= n < 2^53 and 0 < g <= 2^53 from IEEE binary64 semantics "
                "(Flocq); these two theorems rest on the standard library's axioms ClassicalDedekindReals.sig_forall_dec, sig_not_dec, "
                "FunctionalExtensionality.functional_extensionality_dep and Classical_Prop.classic; every other theorem is closed.",
        "technique": TECH,
    },
    "C18": {
        "text": "Props/C18.v proves for a generic memory configuration (instantiated for the RISC-V byte memory and the TOY 16-bit memory) "
                "that reads are the little-endian composition of the most recently written cells (zero where never written) after any "
                "write history, that addresses wrap modulo 2^32 only when overflow is on, that an access errs iff a touched cell is out "
                "of range (naming the first such cell; earlier cells of a failing write are written exactly as the Python loop does) and "
                "that an access whose first cell is outside the range changes nothing. Tied to memory.py by random histories compared "
                "op by op, also against a reference byte store.",
        "note": NOTE_COMMON,
        "technique": TECH,
    },
}
CLAIMED.update({
    "C06": {
        "text": "Props/C06.v proves that the modelled TOY machine (pre-incremented pc, instruction register fetched one half-cycle early) "
                "refines the documented reference accumulator machine Spec/ToyRef.v (fetch at pc, execute, advance) step by step and for "
                "runs of every length, for every memory image incl. self-modifying stores, every accumulator, pc wrap at 4095, opcodes "
                "13-15 as NOP, halting exactly when the pc passes the last instruction, two cycles and one count per instruction. Tied to "
                "toy_simulation.py/toy_instructions.py by one-step comparison over instruction words (all 2^16 in the thorough tier) and "
                "random self-modifying programs compared after every instruction.",
        "note": NOTE_COMMON + "Theorems assume the default 4096-word memory; smaller memories are modelled (memory errors) but only compared.",
        "technique": "Coq refinement proof model = reference machine + differential correspondence model vs implementation",
    },
    "C20": {
        "text": "Props/C20.v proves for ALL model states and ALL call sequences without error outcome that any interleaving of step / "
                "first half / second half / single-cycle calls ends in exactly the state that the same number of whole steps produces "
                "(full state record: visualisation values, current/next instruction addresses, counters, started flag, hence memory-table "
                "markers), that out-of-order calls return a sequencing error with the state unchanged, and that all calls are no-ops once "
                "done. Tied to toy_simulation.py by random legal/illegal interleavings compared call by call; the implementation is also "
                "compared against its own whole-step run incl. get_toy_svg_update_values().",
        "note": NOTE_COMMON + "The SVG directive payload is not modelled; it is compared implementation-vs-implementation.",
        "technique": TECH,
    },
})
CLAIMED.update({
    "C19": {
        "text": "Props/C19.v proves decode(encode i) = i for every well-formed TOY instruction, the total decode table over all 65536 words "
                "(opcodes 12-15 give NOP), literal conversion (decimal/hex), and for the assembler after tokenisation: instruction i at "
                "address i, variables downward from the top of memory in declaration order with elements ascending, every label/variable "
                "resolved (forward references, labels counted over the whole source), independence of the segment order, the exact "
                "accepted/rejected directive shapes, typed error outcomes, and the help page's example programs by evaluation. Tied to "
                "the code by comparing from_integer on all 2^16 words and generated sources pushed through the real tokenizer.",
        "note": NOTE_COMMON + "The assembler theorems of Props/C19.v are stated after tokenisation (the harness feeds the model the real tokenizer's output "
                "through a fail-closed converter); the pyparsing grammar itself is modelled by Model/ToyLex.v (below). Python's 4300-digit int() limit is part of the model (toy_value).",
        "technique": TECH,
    },
})
CLAIMED.update({
    "C02": {
        "text": "Props/C02.v + Props/C02Refine.v prove the property for the model in full, for flat data memory without instruction cache: "
                "pipe_refines_single — for EVERY program of supported instructions, every well-formed initial state and every n, if the "
                "single-cycle run finishes within n steps the five-stage pipeline with hazard detection finishes within 8n+8 cycles with "
                "equal registers, memory, output, exit code, retired/branch/call counts and the SAME retire order; if the single-cycle run "
                "faults, the pipeline raises the identical fault record with equal registers, memory and output (so no wrong-path "
                "instruction has any effect, and termination transfers). The proof is a stuttering simulation by the invariant Inv "
                "(Proofs/PipeInv*.v) over all five stall modes, flushes and ecall drains, built on the data-path theorem split_agrees "
                "(an instruction flowing through ID/EX/MEM/WB = behavior(), incl. the 32-bit JALR wrap — defect D1, fixed) and the "
                "pipeline laws/Shape invariant. The model is tied to pipeline.py/stages.py cycle by cycle (registers, memory, output, "
                "latch W, counters, faults; also with caches in C07/C11), and the property is evaluated on the implementation directly: "
                "five-stage vs single-cycle exhaustively over all sequences up to length 3 (quick) / 4 (thorough) of an 18-instruction "
                "hazard-complete alphabet x 2 presets, and on random programs incl. wrapping jalr targets, faults, ecall drains, caches.",
        "note": NOTE_COMMON + "Props/C02Caches.v (pipe_refines_single_caches) lifts the theorem to every data-cache and instruction-cache "
                "configuration (agreement of registers, output, exit code, counters, logical memory, retire order; a cache rejection "
                "of a word-crossing access is raised identically by both machines). CSR/FENCE/EBREAK excluded as the property says.",
        "technique": "Coq refinement proof (stuttering simulation five-stage -> single-cycle) + model correspondence + exhaustive small-scope mode comparison",
    },
    "C03": {
        "text": "Props/C03.v proves for every admissible geometry (index/block bits, associativity; PLRU with power-of-two ways), both write "
                "policies, both replacement policies and every penalty: a cache invariant preserved by every operation; every accepted "
                "read returns what an uncached memory holding the logical contents returns and leaves the logical contents unchanged; "
                "every accepted write updates the logical contents exactly like the uncached write; rejected accesses (word crossing or "
                "out of range) leave every stored value unchanged; an access crosses a word iff it is rejected with the offset error "
                "(both policies, hit or miss — defect D5, fixed); range errors agree with flat memory; and by induction transparency of "
                "every access history from any preloaded memory. Tied to the implementation by comparing results, error fields, the full "
                "block directory, replacement state, counters and lower memory after every operation of random histories (explicit-state "
                "enumeration on tiny geometries in the thorough tier); the implementation is also compared directly with a flat "
                "reference store, and whole programs are run with the cache on and off in both modes.",
        "note": NOTE_COMMON + "Program level: Props/C03Programs.v proves that single-cycle and five-stage runs with any data cache and any "
                "instruction cache agree with the run on flat memory (registers, pc, output, exit code, counters, logical memory, latches, "
                "retire trace) up to the first access the cache rejects (single_run_lifts, pipe_run_lifts, program_cache_on_off_*). All theorems assume block_bits <= 12; beyond that the property is FALSE of the code (known finding D9, recorded: the first block overlaps the unmapped region below 0x4000 and every access into it fails).",
        "technique": TECH,
    },
    "C12": {
        "text": "Props/C12.v proves as state invariants over every access history: for write-through caches backing memory equals the logical "
                "contents and every resident block equals its backing block; for write-back caches backing memory can differ from the "
                "logical contents only inside resident blocks; displacing a block writes it back so that no logical byte changes "
                "(every valid block is dirty in the model as in the code); every reachable state satisfies the invariants. The same "
                "invariants are evaluated on the IMPLEMENTATION's state (backing store vs flat reference vs resident blocks) after "
                "every operation of the C03 histories.",
        "note": NOTE_COMMON,
        "technique": TECH,
    },
})
CLAIMED.update({
    "C09": {
        "text": "Props/C09.v proves for every geometry, write policy, replacement policy, penalty and every history of accepted operations "
                "that the modelled data cache's tag directory, hit decisions, (hits, accesses, last_hit) after every operation and the "
                "per-operation cycle penalty equal those of the tag-only reference cache Spec/RefCache.v (write-back: write-allocate; "
                "write-through: no-write-allocate); uncounted reads and direct (parser) writes leave the counters untouched; rejected "
                "operations are characterised exactly; an uncounted re-read of the address just read leaves the whole cache state "
                "unchanged (the single-cycle display re-read). Tied to the code by comparing directory, counters and penalties after "
                "every operation; the implementation is also compared with an independent reference cache in the harness, and the "
                "data-cache counters of single-cycle and five-stage runs of the same program are compared. Program level "
                "(Props/C09Programs.v): pipe_single_same_dcache — for every supported program and every cache configuration the "
                "five-stage run ends with EXACTLY the data memory system of the single-cycle run (directory, dirty bits, replacement "
                "state, lower memory, access and hit counters); dcache_counts_loads_stores / counters_both_modes — the access counter "
                "grows by the number of executed loads and stores, in both modes.",
        "note": NOTE_COMMON + "Replacement-policy correctness is property C10; rejected accesses are outside the accounting claim.",
        "technique": TECH,
    },
    "C11": {
        "text": "Props/C11.v proves for every geometry and policy: an instruction-cache invariant (every valid block holds exactly the "
                "instructions of its block, empty slots past the program end) preserved by every fetch; every aligned fetch returns the "
                "instruction of the uncached memory, over any fetch history; each fetch counts one access, hits as the reference cache "
                "decides, penalty exactly on a miss; a reset gives the state of a fresh cache whatever was fetched before. Tied to the "
                "code inside whole-program runs of both modes (registers, memory, output, pc, instruction-cache counters and cycles after "
                "every step); directly: results with and without the cache, counters against a reference cache fed the fetch addresses, "
                "one fetch per executed instruction in single-cycle mode, and no stale block or counter after load_program.",
        "note": NOTE_COMMON + "Program level: Props/C11Programs.v proves that with any instruction cache both modes produce the identical "
                "outcome (run end incl. fault record, architectural state, latches and retire trace) as without (icache_program_single/pipe); "
                "Props/C11Accounting.v: the access counter grows by exactly one per executed instruction (single-cycle) / per fetch (pipeline), "
                "counters equal the reference cache's along the run's fetch addresses, cycles = steps + penalties x misses (both modes, faults included).",
        "technique": TECH,
    },
})
CLAIMED.update({
    "C07": {
        "text": "Props/C07Sched.v proves the schedule clause in full for the modelled pipeline (flat memory, no instruction cache): pipe_schedule "
                "— for EVERY program of supported instructions, every well-formed initial state and every n, if the single-cycle run "
                "finishes, the pipeline run ends after exactly total_cycles(schedule(events)) steps and the list of (retired pc, cycle "
                "index) equals the documented recurrence evaluated on the single-cycle dynamic instruction stream (the recurrence is the "
                "literal transcription of harness/sched.py: fetch each cycle, decode interlock +2 on a source written by one of the two "
                "preceding instructions, redirect after MEM, ecall held in EX while an older instruction is in MEM/WB); closed forms "
                "(schedule_gap, schedule_total, pipe_cycle_count: n + 4 + 3 per control transfer followed by an instruction + 2 per "
                "interlock/drain stall), straightline_cycles and straightline_n_plus_4 (all straight-line instruction kinds, dependencies "
                "at distance >= 3 allowed). Props/C07.v proves for every state and every memory system the cycle law (each step advances "
                "the cycle counter by exactly 1 + data-cache penalty x counted data misses + instruction-cache penalty x fetch misses, "
                "faulting steps included) and the local flush / interlock / drain laws and the Shape invariant. Tied to the code by "
                "cycle-by-cycle correspondence of cycles/stalls/flushes/latches with the model (with caches), and decided on the "
                "implementation directly: retire cycles vs the recurrence on the implementation's own single-cycle trace (exhaustive "
                "hazard alphabet up to length 3/4 + random programs), the cycle law with caches, n+4.",
        "note": NOTE_COMMON + "Props/C07SchedCaches.v (pipe_schedule_caches) extends it to every cache configuration: same retire steps, and "
                "cycles = cycles0 + steps + ipen x instruction-cache misses + dpen x data-cache misses. The Coq recurrence is compared with "
                "the Python recurrence on every case (op 80).",
        "technique": "Coq proof of the retire schedule (timing invariant on top of the refinement invariant) and of the cycle law + implementation vs schedule recurrence, exhaustive small scope + random",
    },
    "C08": {
        "text": "Props/C08DelayedWB.v proves for the modelled pipeline with hazard detection OFF (flat memory, no instruction cache): "
                "flagoff_refines_single — every supported program whose register dependencies are at least three instructions apart "
                "(dep_free, a decidable static predicate; dep_free_weak without the a7/a0 clause suffices) gives exactly the single-cycle "
                "result (same statement as pipe_refines_single: final state, retire order, faults, bound); flagoff_lockstep — on such "
                "programs the flag-off pipeline runs cycle by cycle like the hazard-detecting one (whole state incl. counters); "
                "dep_free_pad2 — two nops behind every instruction make ANY program dependency-free; and the general characterisation "
                "flagoff_is_dwb_noecall_partial — for every supported program WITHOUT ecall and no dependency hypothesis the flag-off "
                "pipeline equals the delayed-write-back reference machine dwb_run (operands from the register file two slots ago, three "
                "bubbles after a redirect), incl. stale reads, faults, wrong-path slots; Props/C08DelayedWBFull.v closes it for ALL supported "
                "programs incl. ecall (flagoff_is_dwb: an ecall drains and then sees every older write). Props/C08Sched.v: retire cycles "
                "with the flag off follow the hazard-free recurrence (dependency-free programs incl. ecall; all ecall-free programs). "
                "Props/C08.v: no decode stall is ever raised with the flag off, reads happen after the same cycle's write-back, the flag "
                "never changes. Tied to the code by cycle-by-cycle correspondence (flag off); the Coq reference dwb_run itself is compared "
                "with the Python reference interpreter on every case (op 81); decided on the implementation against that interpreter "
                "(retire order and cycles, registers, memory, output), nop-padded programs vs single-cycle mode, no ID stall.",
        "note": NOTE_COMMON + "Timing with the flag off for programs that contain ecall AND stale dependencies is proved only up to flagoff_schedule_noecall_partial / flagoff_schedule_depfree.",
        "technique": "Coq refinement proofs (lock step with the interlocked pipeline on dependency-free programs; delayed-write-back reference machine for all supported programs) + implementation vs delayed-write-back reference interpreter",
    },
    "C13": {
        "text": "Props/C13.v proves for the single-cycle, five-stage and TOY models, for ALL states: done is stable (step and run return the "
                "identical state record), step's result is the negation of done afterwards, run equals iterating step (independent of "
                "the fuel once finished), an empty program is done at once, and loading after any list of earlier successful or failed "
                "loads equals loading directly (with the exact frame: what a load does not reset, hence why 'not started' is needed for "
                "equality with a fresh simulation). Tied to the code by random interleavings of load/step/run compared call by call "
                "incl. caches and latches; directly: extra calls after done, run vs step-until-done, reload vs fresh on the implementation.",
        "note": NOTE_COMMON + "A failing load's partial effects on data memory are not modelled (the next load resets them); compared by outcome only.",
        "technique": TECH,
    },
    "C16": {
        "text": "Proof about the model only in the sense that matters: Props/C16.v proves the erasure theorem (removing inspection calls "
                "changes no state and no step result; every inspection result is the getter applied to the state reached by the steps "
                "before it), that each modelled view depends only on its named components, and that the one stateful display path (the "
                "single-cycle uncounted re-read of a loaded address) is neutral. Purity of the PYTHON getters cannot be proved in Coq; "
                "it is decided by running the implementation with random multisets of ALL zero-argument inspection functions between "
                "steps against a run without them (state, cache directories, replacement state, counters, latches after every step; all "
                "inspection results at the end) and against the model's run of the erased sequence, for RISC-V in both modes with "
                "random cache configurations and for TOY.",
        "note": NOTE_COMMON + "SVG payloads and the metrics text are compared implementation-vs-implementation; wall-clock lines dropped.",
        "technique": "Coq erasure theorem on the model + differential execution with/without inspection calls on the implementation",
    },
})
CLAIMED.update({
    "C04": {
        "text": "Props/C04.v proves for the assembler model after tokenisation: pseudo-instruction expansion is local (depends only on the "
                "line's tokens and the variable table), idempotent, of length 1-3; every label (stand-alone, in-line incl. on lines that "
                "expand to several instructions — defect D2, fixed — and at the end of the program) denotes 4 x (instructions emitted "
                "before it); instruction k is instantiated at address 4k; branch/jal operands as label, label+offset or number give the "
                "stated immediates (branch numbers relative, jal numbers absolute, odd numbers and unknown labels rejected with the "
                "line); the operand-to-field mapping of every class; ABI and xN names denote the same registers; nop/mv expansions. "
                "The model's assembler is fed the REAL tokenizer's output; the pyparsing grammar itself is modelled by Model/Lex.v (see the note). The implementation is compared "
                "with the model (every field and printed form of every instruction, lower memory, error class and line), with an "
                "independent reference assembler written from the documented syntax, and across three random spellings of each program.",
        "note": NOTE_COMMON + "Spelling independence (case, blanks, comments, number bases, register names) is proved for the MODELLED tokenizer + assembler (below) and checked on the implementation by the metamorphic correspondence.",
        "technique": TECH,
    },
    "C05": {
        "text": "Props/C05.v proves: the value of every literal shape (decimal/hex/binary, sign; exactly which literals int() rejects); the "
                "lui/addi split is correct for EVERY integer (carry at 0x800, wrap of the upper part); executing the expansion of "
                "'li rd, c' leaves c mod 2^32 in rd and changes nothing else, for every c; la / load / store by name[i] address element i "
                "(base + i x element size, .zero indexed by word — defect D4, fixed); the data layout (declaration order from 2^14, "
                "4-byte alignment, strides, little-endian values mod 2^width, strings + NUL, .zero n = n words, later declarations never "
                "overwrite earlier ones — which exposed defect D7, fixed); independence of the segment order; and the help page's program "
                "by evaluation. Tied to the code by comparing assembled instructions and every byte of lower memory with the model and "
                "with an independent layout; by executing li for every low-12-bit pattern x boundary upper parts (thorough) and "
                "la/load/store by name for every element on the implementation; and by running the help page's example as it stands in /repo.",
        "note": NOTE_COMMON + "The help-page example is read from /repo/webgui at run time (its comment was off by one: D6, fixed).",
        "technique": TECH,
    },
    "C14": {
        "text": "Props/C14.v proves for every encodable instruction of every class except FENCE, every register and immediate and every "
                "address: the model's printed form is the rendering of a token record that instantiates, at the same address, to the very "
                "same instruction (branch offsets relative, jal printed as absolute target, signed U-type, hexadecimal CSR numbers), and "
                "that a listing re-assembles to itself. The printer is tied to __repr__ by string equality on operand grids; the round trip "
                "is checked on the implementation through the real tokenizer and assembler (print, load at the same address, compare class, "
                "fields and printed form), and listings of random programs are re-assembled.",
        "note": NOTE_COMMON + "In the harness the printed text is tokenised by the real tokenizer; inside the model the loop is closed through the modelled grammar (below).",
        "technique": TECH,
    },
    "C15": {
        "text": "Proof about the models (both tokenizers are modelled, see the note; that the REAL pyparsing code raises nothing else is carried by correspondence on arbitrary text). Props/C15.v proves for the RISC-V assembler model, and Props/C19.v for the TOY "
                "one, that for EVERY token list the outcome is success, a parser error whose line number is one of the input's lines, or "
                "the memory-size/address error, and that no uncaught exception is possible for token shapes the grammar produces; that "
                "every literal int() rejects is reported as a syntax error of its line (defect D3, fixed); and that every run-time fault "
                "of the single-cycle and five-stage models carries the address and instruction of the faulting slot, stalled or not. The "
                "claim about arbitrary TEXT (tokenizer raising only ParseException, termination) is carried by generated malformed "
                "inputs: grammar-derived programs with injected faults, token soups, byte soups with Unicode line separators, for both "
                "assemblers: exception class in the allowed set, line number within the text, no hang; plus faulting programs in both "
                "modes compared with the model.",
        "note": NOTE_COMMON + "'No other exception for any text' is proved of the modelled lexers + assemblers; about the real pyparsing code + glue it is a universal negative that is sampled (differentially against the model on arbitrary text), not proved.",
        "technique": "Coq proof of typed outcomes of the assembler models + generated malformed inputs on the implementation",
    },
})
_PENDING = "check not built yet (model/theorems under construction); see DESIGN.md section 9"
NOT_APPLICABLE = {f"C{i:02d}": _PENDING for i in range(1, 21) if f"C{i:02d}" not in CLAIMED}


# Statement files added after the first full pass (each integrated in _CoqProject; all theorems closed under the global context)
EXTRA_NOTES = {
    "C02": " Props/C02CachesFaults.v (pipe_refines_single_caches_strong): with caches, at EVERY fault (cache rejection included) registers, output and the whole "
           "memory system (directory, counters) agree. Props/C02FaultTrace.v and Props/C02FaultTraceCaches.v (every cache configuration): at a fault the pipeline has retired every executed instruction (icount + 1 = single-cycle icount) and its retire "
           "trace is the single-cycle trace, minus its last element exactly when the faulting load/store is back-to-back behind its predecessor.",
    "C04": " Props/C04Spelling.v: at LOAD level — rv_load_text gives the same state, error (incl. line) and image for texts that differ only in register spelling (ABI/xN, s0/fp), "
           "number base/sign spelling, mnemonic case, layout and comments (rv_load_text_spelling_independent and four readable corollaries; the one place where spelling matters is "
           "proved to be the grammar's name positions: a word in a label/variable position is a name). Props/C04Lex.v + Model/Lex.v: the RISC-V tokenizer is inside the model (domain: every element of str.splitlines()); proved: layout (blanks/tabs next to "
           "separators, indentation, trailing blanks and comments), mnemonic case, ABI/xN register spellings, number bases, comment and blank lines do not change "
           "the result, with the exact limits of the grammar (lex_layout_limits, lex_label_case_matters); load_program(text) is compared with the model's lexer+assembler "
           "on the same text on every run (requests 92/93).",
    "C03": " Props/C03LargeBlocks.v states exactly what holds without the bound: for ANY block size an in-word access to an address >= 2^14 is answered as by "
           "flat memory iff its block base is >= 2^14 (large_block_read_iff / _write_iff); below it reads and write-back writes fail with the block base "
           "and leave the cache unchanged, no such block ever becomes resident, and a write-through store is accepted but can never be read back "
           "(wt_store_below_base_refuted) — the Coq form of finding D9.",
    "C08": " Props/C08Padding.v: for padable programs (no jalr, no auipc, jal with rd = x0) pad2 P computes what P computes (pad2_simulates, pad2_terminates_iff), hence "
           "the flag-off pipeline on pad2 P yields the single-cycle results of P (pad2_flagoff_equals_original; flat memory, no instruction cache); witnesses show why jalr / auipc / link-as-data are excluded. "
           "Props/C08Caches.v (lifts flagoff_lockstep / flagoff_refines_single / flagoff_is_dwb — not the padding theorems): the same with any data / instruction cache (flagoff_lockstep_caches, flagoff_refines_single_caches, flagoff_is_dwb_caches). "
           "Props/C08SchedFull.v: flagoff_schedule — retire cycles with the flag off follow the hazard-free recurrence for ALL supported programs incl. ecall.",
    "C07": " Props/C07RetireCyclesCaches.v: with caches, the cycle counter at each retirement = start + W_k + penalties x misses so far. Props/C07SchedPrefix.v and Props/C07SchedPrefixCaches.v (every cache configuration, cache rejections included): the schedule holds as a PREFIX law for every number of cycles, also for non-terminating and faulting programs, "
           "and the cycle in which a fault is raised is the faulting instruction's EX (ecall) / MEM (load, store) cycle of the recurrence. "
           "Props/C07Events.v: the events of the recurrence (sources, destination) equal those of an independent ISA register table (Spec/IsaRegs.v) "
           "for every non-CSR instruction; for CSR instructions (outside the property: unsupported) the model's decode names no register (events_from_isa_csr_refuted).",
    "C09": " Props/C09RefPolicy.v: hit counter, access counter, last-hit flag and penalties also equal those of a tags-only reference built over the "
           "SPECIFICATION policies only (history LRU, tree PLRU; own address split), for both write policies, and for the instruction cache.",
    "C12": " Props/C12Tables.v: under write-through every row of the displayed memory table is the logical word and every non-zero logical word has a row; "
           "under write-back a row is the backing word and is the logical word wherever the block is not resident.",
    "C17": " Props/C17Tables.v: every register row denotes the current register value, the memory table has exactly the written words, ascending, each row "
           "denoting the current backing word (RISC-V and TOY; the TOY pc row shows the address of the NEXT fetch).",
    "C19": " Props/C19Spelling.v: at LOAD level — toy_load_text gives the same result (error incl. line, or memory image and state) for texts that differ only in number spelling "
           "(decimal/hex, leading zeros, hex-digit case; the one textual limit, int()'s 4300 characters on decimals, is part of the relation), mnemonic case, layout and comments. "
           "Props/C19Lex.v + Model/ToyLex.v: the TOY tokenizer is inside the model (domain: every Python string) — layout, comments, mnemonic case and number "
           "bases do not change the token lines (proved), and load_program(text) is compared with the model's lexer+assembler on the same text (requests 90/91).",
    "C05": " Props/C05Text.v — FROM SOURCE TEXT (lexer + assembler + single-cycle execution): li_text_correct (every register spelling, every literal spelling py_int0 accepts, any layout and "
           "case: the register holds c mod 2^32 afterwards, nothing else changes), la_text_correct / elem_text_correct for arbitrary data segments, help_example_from_text (the help page's "
           "program copied as text gives the documented registers).",
    "C14": " Props/C14Lex.v closes the loop through the modelled grammar: lex_of_printed (the lexer reads every printed instruction back as its own tokens, any immediate), "
           "print_lex_assemble (rv_load_text of a printed listing, after any comment/blank lines, yields exactly that listing at the same addresses).",
    "C15": " Props/C15RvWholeText.v + Model/LexText.v: the same for WHOLE texts (str.splitlines inside the model; every boundary character). Props/C15RvText.v: for EVERY list of source lines the model's RISC-V lexer + assembler yields no error, one of the line-carrying parser errors with 1 <= line <= "
           "number of lines naming the offending line (three-way split of syntax errors: lexical, rejected literal, misplaced declaration/directive), MemorySize or MemoryAddress; "
           "'uncaught' is never produced; a failed load leaves the reset state. Props/C15ToyText.v: for EVERY text the model's TOY lexer + assembler either succeeds or yields one of five line-carrying parser errors or the size error "
           "(the 'uncaught' constructor is proved impossible), the reported line number lies in 1..number of lines and names the offending line, and a failed load "
           "leaves the fresh state. For TOY the typed outcome is compared on ARBITRARY text with the model's own lexer + assembler (Model/ToyLex.v), not only on texts the real tokenizer accepts.",
}
for _k, _v in EXTRA_NOTES.items():
    CLAIMED[_k]["note"] = CLAIMED[_k]["note"] + _v
