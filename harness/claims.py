"""claims.py — what MANIFEST.json claims per property (edited as the development grows)."""
NOTE_COMMON = ("Trusted: Coq 8.16.1 kernel; extraction (ExtrOcamlBasic only) and the OCaml driver; the hand-written "
               "model's fidelity to /repo is established by sampled differential correspondence on every run, not proved; "
               "Python/fixedint semantics as modelled in Model/Base.v. ")
CLAIMED = {
    "C01": {
        "text": "Theorems (Props/C01.v) prove for every instruction, operand, register file and memory that the modelled single-cycle "
                "step equals a hand-written RV32IM reference (Spec/RV32IM.v) and lift it to runs of any length by induction; "
                "the model is tied to /repo by per-mnemonic grids and random programs compared step by step.",
        "note": NOTE_COMMON + "Float text of ecall 2 is a harness oracle; CSR/FENCE/EBREAK excluded by the property.",
        "technique": "Coq proof of model = ISA reference + differential correspondence model vs implementation",
    },
}
_PENDING = "check not built yet in this round (model/theorems under construction); see DESIGN.md section 9"
NOT_APPLICABLE = {f"C{i:02d}": _PENDING for i in range(1, 21) if f"C{i:02d}" not in CLAIMED}
