"""rv_exec.py — runs RISC-V cases on the implementation and on the model and compares the
observables a property names."""
from __future__ import annotations
from common import (make_sim, obs_state, norm_model_state, map_exc, make_instr, first_diff, MNEMONICS)

FIELDS = ["pc", "regs", "mem", "out", "exit", "counters", "dstats", "istats"]
COUNTERS = ["icount", "bcount", "pcount", "cycles", "stalls", "flushes"]
M32 = (1 << 32) - 1


def view(o, names):
    """select the observables in [names] from a state observation"""
    v = []
    for nme in names:
        if nme == "pc":
            v.append(o[0] & M32)          # pc is compared modulo 2^32 (DESIGN section 6)
        elif nme == "mem":
            v.append([c for c in o[FIELDS.index(nme)] if c[1] != 0])      # explicit zero cells are a representation detail
        elif nme in FIELDS:
            v.append(o[FIELDS.index(nme)])
        elif nme in COUNTERS:
            v.append(o[5][COUNTERS.index(nme)])
        else:
            raise KeyError(nme)
    return v


def _interferer(other):
    """a second, unrelated live simulation stepped between the steps of the observed one: simulations
    are independent objects, so it must never influence the trace (other = [spec, mode] or None)"""
    if not other:
        return lambda: None
    sim2 = make_sim(other[0], other[1], True)

    def poke():
        try:
            if not sim2.is_done():
                sim2.step()
            sim2.get_register_entries()
            sim2.get_instruction_memory_entries()
        except Exception:
            pass
    return poke


def impl_trace(spec, nsteps, mode="single_stage_pipeline", hazards=True, extra=None, other=None):
    """observations after every step, then a terminal record:
       [0] done, [1, [addr, repr, err], state] fault, [2] step bound, [9, text] foreign exception"""
    from architecture_simulator.simulation.runtime_errors import InstructionExecutionException
    sim = make_sim(spec, mode, hazards)
    poke = _interferer(other)
    obs = [obs_state(sim) + (extra(sim) if extra else [])]
    for _ in range(nsteps):
        poke()
        if sim.is_done():
            obs.append([0])
            return obs
        try:
            sim.step()
        except InstructionExecutionException as e:
            obs.append([1, [e.address, e.instruction_repr, map_exc(e.__context__)],
                        obs_state(sim) + (extra(sim) if extra else [])])
            return obs
        except Exception as e:   # anything else escaping step() is itself a finding (C15)
            obs.append([9, type(e).__name__ + ": " + str(e)[:200]])
            return obs
        obs.append(obs_state(sim) + (extra(sim) if extra else []))
    obs.append([0 if sim.is_done() else 2])
    return obs


def model_trace(model, op, spec, nsteps, *more):
    r = model.call([op, spec, nsteps] + list(more))
    out = []
    for o in r[:-1]:
        out.append(norm_model_state(o[:8]) + o[8:])
    t = r[-1]
    if t[0] == 1:
        addr, ins, err = t[1]
        try:
            rep = repr(make_instr(ins))      # implementation's printer on the model's instruction
        except Exception:
            rep = str(ins)
        t = [1, [addr, rep, err], norm_model_state(t[2][:8]) + t[2][8:]]
    out.append(t)
    return out


def compare_traces(it, mt, names, fault_names=None, upto=None):
    """first difference between implementation and model traces on the named observables"""
    fault_names = fault_names or names
    n = min(len(it), len(mt))
    for k in range(n):
        a, b = it[k], mt[k]
        a_term, b_term = len(a) < 8, len(b) < 8      # state observations have >= 8 fields
        if a_term or b_term:
            if a_term != b_term:
                return f"step {k}: implementation {'ended ' + str(a[:1]) if a_term else 'continues'}, model {'ended ' + str(b[:1]) if b_term else 'continues'}"
            if a[0] != b[0]:
                return f"step {k}: terminal kind {a[0]} (impl) != {b[0]} (model); impl={str(a)[:200]}"
            if a[0] == 1:
                fa, fb = a[1], b[1]
                if fa[0] != fb[0]:
                    return f"fault address {fa[0]} != {fb[0]}"
                if fa[1] != fb[1]:
                    return f"fault instruction {fa[1]!r} != {fb[1]!r}"
                if fa[2][:len(fb[2])] != fb[2]:
                    return f"fault error {fa[2]} != {fb[2]}"
                d = first_diff(view(a[2], fault_names), view(b[2], fault_names), "fault-state")
                if d:
                    return "at fault: " + d + f" (observables {fault_names})"
            if a[0] == 9:
                return "foreign exception escaped step(): " + str(a[1])
            return None
        d = first_diff(view(a, names), view(b, names), f"step{k}")
        if d:
            return d + f" (observables {names})"
    if len(it) != len(mt):
        return f"trace lengths differ: impl {len(it)} model {len(mt)}"
    return None


def trace_classes(prog, trace):
    """coverage classes of a case: instruction kinds executed, how the run ended"""
    cl = set()
    for t in prog:
        cl.add("op:" + MNEMONICS[t[0]])
    t = trace[-1]
    cl.add({0: "end:done", 1: "end:fault", 2: "end:bound", 9: "end:foreign"}[t[0]])
    if t[0] == 1:
        cl.add("fault:" + str(t[1][2][0]))
    if len(trace) > 3:
        cl.add("steps>2")
    last = trace[-2] if len(trace) >= 2 and len(trace[-2]) >= 8 else None
    if last is not None:
        if last[3]:
            cl.add("prints")
        if last[4]:
            cl.add("exit-ecall")
        if last[5][1]:
            cl.add("taken-branch")
        if last[5][2]:
            cl.add("jal")
    return cl


# ----------------------------------------------------------------------------- five-stage helpers

def pipe_extra(sim):
    """[latch addresses (IF..WB), stalled] — the model's sx_pstate tail"""
    p = sim.state.pipeline
    lat = [[] if r.address_of_instruction is None else [r.address_of_instruction] for r in p.pipeline_registers]
    return [lat, list(p.stalled) if p.stalled is not None else []]


def retired(trace):
    """addresses in latch W after each step (retirement order) with the step index"""
    out = []
    for k, o in enumerate(trace[1:], 1):
        if len(o) >= 10 and o[8][4]:
            out.append((o[8][4][0], k))
    return out


def final_state(trace):
    """last state observation of a trace and its terminal record"""
    t = trace[-1]
    if t[0] == 1:
        return t[2], t
    return trace[-2], t
