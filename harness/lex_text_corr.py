"""lex_text_corr.py — correspondence of Model/LexText.v (rv_load_program_text: str.splitlines() inside the model, then
Lex.rv_load_text) with the real RiscvSimulation.load_program on WHOLE TEXTS whose line boundaries are drawn from every
separator of str.splitlines(): \\n, \\r\\n, \\r, \\x0b, \\x0c, \\x1c, \\x1d, \\x1e, \\x85, U+2028, U+2029 (also inside lines, doubled,
at the end of the text).  Compared: error class and line number, instruction listing (fields and repr), data bytes; and
the list of lines itself (ToyLex.splitlines against str.splitlines).

Run:  cd /verif && PYTHONPATH=/repo:/verif/harness PYTHONHASHSEED=0 /venv/bin/python harness/lex_text_corr.py build
      ... harness/lex_text_corr.py [texts] [seed]
The private driver is built in /tmp/lexwork/text (MainLexText.v below + a copy of /verif/ocaml/driver.ml)."""
from __future__ import annotations
import os
import random
import shutil
import subprocess
import sys
from collections import Counter

from common import sx_dump, sx_parse
from rv_asm import gen_abs, render, impl_load, listing, lower_bytes, _codes
from lex_corr import mutate

WORK = "/tmp/lexwork/text"
MAIN_V = r'''From Coq Require Import Extraction ExtrOcamlBasic.
From ArchSim Require Import Model.Base Model.Mem Model.Cache Model.Fmt Model.RV Model.Single Model.Toy Model.Asm Model.Sx Model.Lex Model.LexText.
Open Scope Z_scope.
(* request: (0 c c ...) -> the lines of the text; (1 c c ...) -> rv_load_program_text on a fresh state *)
Definition dispatch_all (req : sx) : sx :=
  match dl req with
  | Zx 0 :: cs => Lx (map sx_zs (rv_lines (map dz cs)))
  | Zx 1 :: cs =>
      let s0 := init_st [] (dmemsys (Lx []) []) (dicache (Lx [])) in
      let '(s1, e, img) := rv_load_program_text s0 (map dz cs) in
      Lx [sx_opt sx_perr e; sx_opt sx_image img; sx_zmap_sorted (ms_lower (ms s1))]
  | _ => Lx []
  end.
Extraction Language OCaml.
Extraction "model.ml" dispatch_all.
'''


def build_driver():
    os.makedirs(WORK, exist_ok=True)
    with open(os.path.join(WORK, "MainLexText.v"), "w") as f:
        f.write(MAIN_V)
    w = "-notation-overridden,-deprecated-hint-without-locality,-deprecated-instance-without-locality,-extraction"
    subprocess.check_call(["coqc", "-Q", "/verif/coq/theories", "ArchSim", "-w", w, "MainLexText.v"], cwd=WORK)
    shutil.copy("/verif/ocaml/driver.ml", os.path.join(WORK, "driver.ml"))
    subprocess.check_call(["ocamlfind", "ocamlopt", "-w", "-a", "-package", "str", "model.mli", "model.ml", "driver.ml", "-o", "driver"], cwd=WORK)
    return os.path.join(WORK, "driver")


class Driver:
    def __init__(self):
        self.p = subprocess.Popen([os.path.join(WORK, "driver")], stdin=subprocess.PIPE, stdout=subprocess.PIPE, text=True, bufsize=1)

    def call(self, req):
        self.p.stdin.write(sx_dump(req) + "\n")
        self.p.stdin.flush()
        ans = self.p.stdout.readline()
        if ans.startswith("!error") or not ans:
            raise RuntimeError("driver: " + ans)
        return sx_parse(ans)


SEPS = ["\n", "\n", "\r\n", "\r", "\x0b", "\x0c", "\x1c", "\x1d", "\x1e", "\x85", " ", " "]


def gen_text(rng):
    from props import c15
    ap = gen_abs(rng, n_max=rng.choice([6, 14]))
    text = render(rng, ap)
    r = rng.random()
    if r < 0.3:
        text = c15.inject(rng, text, c15.RV_FAULTS)
    elif r < 0.45:
        text = "\n".join(mutate(rng, l) if rng.random() < 0.15 else l for l in text.split("\n"))
    lines = text.split("\n")
    out = []
    for k, l in enumerate(lines):
        if rng.random() < 0.08 and l:                       # a boundary in the middle of a line
            p = rng.randrange(len(l) + 1)
            l = l[:p] + rng.choice(SEPS) + l[p:]
        out.append(l)
        if k + 1 < len(lines) or rng.random() < 0.5:
            out.append(rng.choice(SEPS) * rng.choice([1, 1, 1, 2]))
    return "".join(out)


def main(n=3000, seed=7):
    rng = random.Random(seed)
    d = Driver()
    cnt, seps, bad = Counter(), Counter(), []
    for _ in range(n):
        text = gen_text(rng)
        for sp in set(SEPS):
            if sp in text:
                seps[repr(sp)] += 1
        codes = _codes(text)
        ml = d.call([0] + codes)
        if [list(x) for x in ml] != [_codes(l) for l in text.splitlines()]:
            bad.append((text, "splitlines", None))
            continue
        sim, err = impl_load(text)
        m = d.call([1] + codes)
        merr = m[0][0] if m[0] else None
        if err is not None:
            cnt["err:%d" % err[0]] += 1
            if merr is None or merr[:2] != err[:2]:
                if not (merr is not None and err[0] in (9, 10) and merr[0] in (9, 10)):
                    bad.append((text, err, merr))
            continue
        cnt["ok"] += 1
        if merr is not None:
            bad.append((text, None, merr))
        elif [[list(f), list(rp)] for f, rp in m[1][0][0]] != listing(sim):
            bad.append((text, "listing", None))
        elif [list(p) for p in m[2]] != [list(p) for p in lower_bytes(sim)]:
            bad.append((text, "data bytes", None))
    print("texts", n, dict(cnt))
    print("texts containing each separator", dict(seps))
    print("disagreements", len(bad))
    for b in bad[:10]:
        print(repr(b[0]), b[1], b[2])
    return len(bad)


if __name__ == "__main__":
    if len(sys.argv) > 1 and sys.argv[1] == "build":
        print(build_driver())
        sys.exit(0)
    sys.exit(1 if main(int(sys.argv[1]) if len(sys.argv) > 1 else 3000, int(sys.argv[2]) if len(sys.argv) > 2 else 7) else 0)
