#!/venv/bin/python
"""translate.py -- fail-closed Python-`ast` -> Coq translator for the small pure leaf functions of the
simulator (DESIGN.md section 4.2, the "secondary tie").

The translator symbolically executes a function body over a deliberately tiny grammar and emits, for
every *result* of the function (return value, register / pc / accumulator written, constructor field
assigned, list element stored, "raises" predicate), one Coq `Definition gen_... (inputs : Z) : T`.
Anything outside the grammar makes the WHOLE function "translation unavailable" (never guessed).

Grammar (expressions)
  int / bool / None literals; names (parameters, earlier straight-line assignments); `self.<field>`;
  `<object parameter>.<field>`; unary `-` `~` `not`; `+ - * // % << >> & | ^ **`; single comparisons
  `== != < <= > >=`, `x is None`, `x is not None`; `and` / `or` on booleans; conditional expressions;
  `pow(a, b)`; `int(e)`, `int(a / b)` (-> pyfdiv, trusted base T5), `bool(e)`; the fixedint casts
  (`fixedint.UInt8/16/32/64`, `fixedint.Int8/16/32/64`, the same names imported `from fixedint`, and
  module-level aliases `X = fixedint.FixedInt(n, signed=..., mutable=False)` such as UInt12);
  `x[:k]` on a fixedint (low k bits, type UInt<k>); tuples; `int(self)` / `self.m()` (inlined when the
  method is not overridden in the module); constructor calls of classes of the analysed modules
  (symbolic execution of the `__init__` chain: `super().__init__(...)`, `**kwargs`, `kwargs["k"]`).
Grammar (statements)
  docstrings, `pass`, (annotated / augmented / multi-target) assignment to names, `self.f = e` inside
  `__init__`, leading `assert p is not None`, `if/elif/else`, `return`, `raise E(args)`, and the
  state idioms listed in STATE IDIOMS below.
Static types
  PyInt | U n | I n | Bool | NoneT | Opt t | AnyInt (join of two different int-like types: may only be
  returned, cast or compared) | tuples | objects.  fixedint's C conversion rule (`_arith_convert`) decides
  the result type of mixed operators; every fixedint-typed term is emitted as `U n (...)`/`I n (...)`.
Domain assumptions (not checked by the translator, part of the tie's trusted base)
  shift counts and exponents are non-negative, divisors are non-zero, `int(a / b)` has 32-bit operands,
  inputs declared with a fixedint type hold a value in range, an object parameter's fields have the
  type its constructor gives them.
"""
from __future__ import annotations

import ast
import hashlib
import json
import os
import sys

DEFAULT_ROOT = "/repo"
PKG = "architecture_simulator"


class Unavailable(Exception):
    pass


# ------------------------------------------------------------------------------------------------
# types
INT = ("int",)
BOOL = ("bool",)
NONE = ("none",)
ANY = ("anyint",)
OPQ = ("opaque",)


def U(n):
    return ("U", n)


def I(n):
    return ("I", n)


def OPT(t):
    return t if t[0] == "opt" else ("opt", t)


def is_fixed(t):
    return t[0] in ("U", "I")


def is_intlike(t):
    return t[0] in ("int", "U", "I", "anyint")


def coq_type(t):
    k = t[0]
    if k in ("int", "U", "I", "anyint"):
        return "Z"
    if k == "bool":
        return "bool"
    if k == "none":
        return "unit"
    if k == "opt":
        return "(option %s)" % coq_type(t[1])
    raise Unavailable("no Coq type for %r" % (t,))


def arith_convert(t1, t2):
    """fixedint.base._arith_convert (C conversion rules)."""
    s1, s2 = t1[0] == "I", t2[0] == "I"
    if s1 == s2:
        return t1 if t1[1] >= t2[1] else t2
    ut, st = (t1, t2) if not s1 else (t2, t1)
    return ut if ut[1] >= st[1] else st


def join(t1, t2):
    if t1 == t2:
        return t1
    if t1 == NONE:
        return OPT(t2)
    if t2 == NONE:
        return OPT(t1)
    if t1[0] == "opt" and t2[0] != "opt":
        return OPT(join(t1[1], t2))
    if t2[0] == "opt" and t1[0] != "opt":
        return OPT(join(t1, t2[1]))
    if t1[0] == "opt" and t2[0] == "opt":
        return OPT(join(t1[1], t2[1]))
    if is_intlike(t1) and is_intlike(t2):
        return ANY
    raise Unavailable("branches of incompatible types %r / %r" % (t1, t2))


# ------------------------------------------------------------------------------------------------
# values
class Val:
    __slots__ = ("term", "ty", "fv")

    def __init__(self, term, ty, fv=frozenset()):
        self.term, self.ty, self.fv = term, ty, frozenset(fv)


class VTuple:
    def __init__(self, elems):
        self.elems = list(elems)


class VObj:
    def __init__(self, cls, fields):
        self.cls, self.fields = cls, dict(fields)


class VStr:
    """an opaque string (mnemonics); can only be stored in a field"""


class VOpaque:
    """value of unknown type taken from an unknown **kwargs dict"""

    def __init__(self, name):
        self.name = name


class VDict:
    def __init__(self, name, entries=None):
        self.name, self.entries = name, entries  # entries None = unknown dict


class VPoison:
    def __init__(self, why):
        self.why = why


class Marker:
    def __init__(self, kind, name, info=None):
        self.kind, self.name, self.info = kind, name, info  # self | state | list | obj | cls


NONE_VAL = Val("tt", NONE)


def coerce(v, t):
    if v.ty == t:
        return v
    if t[0] == "opt":
        if v.ty == NONE:
            return Val("None", t, v.fv)
        if v.ty[0] == "opt":
            if is_intlike(v.ty[1]) and is_intlike(t[1]):
                return Val(v.term, t, v.fv)
            raise Unavailable("cannot coerce %r to %r" % (v.ty, t))
        inner = coerce(v, t[1])
        return Val("(Some %s)" % inner.term, t, v.fv)
    if t == ANY and is_intlike(v.ty):
        return Val(v.term, ANY, v.fv)
    raise Unavailable("cannot coerce %r to %r" % (v.ty, t))


def render_br(spec, a, b):
    if spec[0] == "if":
        return "(if %s then %s else %s)" % (spec[1].term, a, b)
    return "(match %s with Some %s => %s | None => %s end)" % (spec[1].term, spec[2], a, b)


def merge(spec, a, b):
    cfv = spec[1].fv
    if isinstance(a, Val) and isinstance(b, Val):
        t = join(a.ty, b.ty)
        ca, cb = coerce(a, t), coerce(b, t)
        if ca.term == cb.term:
            return ca
        return Val(render_br(spec, ca.term, cb.term), t, cfv | ca.fv | cb.fv)
    if isinstance(a, VTuple) and isinstance(b, VTuple) and len(a.elems) == len(b.elems):
        return VTuple([merge(spec, x, y) for x, y in zip(a.elems, b.elems)])
    if isinstance(a, VObj) and isinstance(b, VObj) and set(a.fields) == set(b.fields):
        return VObj(a.cls if a.cls == b.cls else None,
                    {k: merge(spec, a.fields[k], b.fields[k]) for k in a.fields})
    if isinstance(a, (VStr, VOpaque)) and isinstance(b, (VStr, VOpaque)):
        return VStr()
    if isinstance(a, Marker) and isinstance(b, Marker) and a.name == b.name:
        return a
    raise Unavailable("branches produce values of different shapes")


def value_fv(v):
    if isinstance(v, Val):
        return v.fv
    if isinstance(v, VTuple):
        r = frozenset()
        for e in v.elems:
            r |= value_fv(e)
        return r
    raise Unavailable("value is not a scalar or tuple")


def value_term(v):
    if isinstance(v, Val):
        return v.term
    if isinstance(v, VTuple):
        return "(" + ", ".join(value_term(e) for e in v.elems) + ")"
    raise Unavailable("value is not a scalar or tuple")


def value_type(v):
    if isinstance(v, Val):
        return coq_type(v.ty)
    if isinstance(v, VTuple):
        return "(" + " * ".join(value_type(e) for e in v.elems) + ")"
    raise Unavailable("value is not a scalar or tuple")


def only_unit(v):
    if isinstance(v, Val):
        return v.ty == NONE
    return False


# ------------------------------------------------------------------------------------------------
# modules and classes
FIXED_NAMES = {}
for _n in (8, 16, 32, 64):
    FIXED_NAMES["UInt%d" % _n] = U(_n)
    FIXED_NAMES["Int%d" % _n] = I(_n)


class ClassInfo:
    def __init__(self, mod, node):
        self.mod, self.node, self.name = mod, node, node.name
        self.methods = {}
        self.attrs = {}  # class-level constants: name -> (type, int literal or None)
        for s in node.body:
            if isinstance(s, ast.FunctionDef):
                self.methods[s.name] = s
            elif isinstance(s, ast.AnnAssign) and isinstance(s.target, ast.Name):
                t = None
                if isinstance(s.annotation, ast.Name) and s.annotation.id == "int":
                    t = INT
                lit = None
                if s.value is not None and isinstance(s.value, ast.Constant) \
                        and type(s.value.value) is int:
                    lit = s.value.value
                if t is not None:
                    self.attrs[s.target.id] = (t, lit, s.lineno)
        self._field_types = None

    def bases(self):
        out = []
        for b in self.node.bases:
            if isinstance(b, ast.Name):
                c = self.mod.lookup_class(b.id)
                if c is not None:
                    out.append(c)
                elif b.id not in ("object", "list", "ValueError", "NotImplementedError", "Exception"):
                    raise Unavailable("unknown base class %s" % b.id)
            else:
                raise Unavailable("unsupported base class expression")
        if len(out) > 1:
            raise Unavailable("multiple inheritance")
        return out

    def mro(self):
        out, c = [], self
        while c is not None:
            out.append(c)
            b = c.bases()
            c = b[0] if b else None
        return out

    def resolve(self, meth):
        for c in self.mro():
            if meth in c.methods:
                return c, c.methods[meth]
        return None, None


class Module:
    def __init__(self, tr, relpath):
        self.tr, self.relpath = tr, relpath
        path = os.path.join(tr.root, relpath)
        with open(path, "r", encoding="utf-8") as f:
            self.src = f.read()
        self.tree = ast.parse(self.src, filename=path)
        self.classes = {}
        self.funcs = {}
        self.imports = {}  # local name -> (relpath of module, original name)
        self.fixed_alias = {}  # module-level X = fixedint.FixedInt(n, signed=..., mutable=False)
        self.import_fixedint = False
        for s in self.tree.body:
            if isinstance(s, ast.ClassDef):
                self.classes[s.name] = ClassInfo(self, s)
            elif isinstance(s, ast.FunctionDef):
                self.funcs[s.name] = s
            elif isinstance(s, ast.Assign) and len(s.targets) == 1 and isinstance(s.targets[0], ast.Name):
                fa = self._fixed_alias(s.value)
                if fa is not None:
                    self.fixed_alias[s.targets[0].id] = fa
        for s in ast.walk(self.tree):
            if isinstance(s, ast.Import):
                for a in s.names:
                    if a.name == "fixedint" and a.asname in (None, "fixedint"):
                        self.import_fixedint = True
            elif isinstance(s, ast.ImportFrom):
                modname = s.module or ""
                if s.level:
                    base = os.path.dirname(relpath).split(os.sep)
                    base = base[: len(base) - (s.level - 1)]
                    parts = base + (modname.split(".") if modname else [])
                else:
                    parts = modname.split(".")
                for a in s.names:
                    self.imports[a.asname or a.name] = (parts, a.name)

    @staticmethod
    def _fixed_alias(v):
        if isinstance(v, ast.Call) and isinstance(v.func, ast.Attribute) and v.func.attr == "FixedInt" \
                and isinstance(v.func.value, ast.Name) and v.func.value.id == "fixedint" \
                and len(v.args) == 1 and isinstance(v.args[0], ast.Constant) and type(v.args[0].value) is int:
            kw = {k.arg: k.value for k in v.keywords}
            if set(kw) == {"signed", "mutable"} and all(isinstance(x, ast.Constant) for x in kw.values()) \
                    and kw["mutable"].value is False and type(kw["signed"].value) is bool:
                return (I if kw["signed"].value else U)(v.args[0].value)
        return None

    def _import_target(self, name):
        if name not in self.imports:
            return None, None
        parts, orig = self.imports[name]
        if parts == ["fixedint"]:
            return "fixedint", orig
        rel = os.path.join(*parts) + ".py" if parts else None
        if rel and os.path.isfile(os.path.join(self.tr.root, rel)):
            return self.tr.module(rel), orig
        return None, None

    def lookup_class(self, name):
        if name in self.classes:
            return self.classes[name]
        m, orig = self._import_target(name)
        if isinstance(m, Module) and m is not self:
            return m.lookup_class(orig)
        return None

    def cast_of(self, func):
        """fixedint type denoted by a call target, or None"""
        if isinstance(func, ast.Attribute) and isinstance(func.value, ast.Name) \
                and func.value.id == "fixedint" and self.import_fixedint \
                and "fixedint" not in self.classes and "fixedint" not in self.funcs:
            return FIXED_NAMES.get(func.attr)
        if isinstance(func, ast.Name):
            if func.id in self.fixed_alias:
                return self.fixed_alias[func.id]
            m, orig = self._import_target(func.id)
            if m == "fixedint":
                return FIXED_NAMES.get(orig)
            if isinstance(m, Module):
                return m.fixed_alias.get(orig)
        return None

    def subclasses_of(self, cls):
        out = []
        for c in self.classes.values():
            if c is cls:
                continue
            try:
                if cls in c.mro():
                    out.append(c)
            except Unavailable:
                pass
        return out


# ------------------------------------------------------------------------------------------------
# symbolic state
class State:
    def __init__(self):
        self.env = {}
        self.slots = {}
        self.fields = {}
        self.reads_after = set()

    def copy(self):
        s = State()
        s.env, s.slots, s.fields = dict(self.env), dict(self.slots), dict(self.fields)
        s.reads_after = set(self.reads_after)
        return s


# slots that have an initial value (an input variable of the same name)
SLOT_INITIAL = {
    "pc": INT, "branch_count": INT, "procedure_count": INT, "accu": U(16),
}
INPUT_ORDER = ["reg_rs1", "reg_rs2", "pc", "accu", "mem_byte", "mem_halfword", "mem_word",
               "branch_count", "procedure_count"]

BINOPS = {
    ast.Add: "(%s + %s)", ast.Sub: "(%s - %s)", ast.Mult: "(%s * %s)", ast.FloorDiv: "(%s / %s)",
    ast.Mod: "(%s mod %s)", ast.LShift: "(Z.shiftl %s %s)", ast.RShift: "(Z.shiftr %s %s)",
    ast.BitAnd: "(Z.land %s %s)", ast.BitOr: "(Z.lor %s %s)", ast.BitXor: "(Z.lxor %s %s)",
    ast.Pow: "(%s ^ %s)",
}
CMPOPS = {
    ast.Eq: "(%s =? %s)", ast.NotEq: "(negb (%s =? %s))", ast.Lt: "(%s <? %s)", ast.LtE: "(%s <=? %s)",
    ast.Gt: "(%s >? %s)", ast.GtE: "(%s >=? %s)",
}


def wrap(t, term):
    return "(%s %d %s)" % (t[0], t[1], term)


def chain(node):
    """['a','b','c'] for a.b.c, else None"""
    out = []
    while isinstance(node, ast.Attribute):
        out.append(node.attr)
        node = node.value
    if isinstance(node, ast.Name):
        out.append(node.id)
        return list(reversed(out))
    return None


class Fn:
    """translation of one function"""

    def __init__(self, tr, mod, cls, node, init_mode=False):
        self.tr, self.mod, self.cls, self.node, self.init_mode = tr, mod, cls, node, init_mode
        self.inputs = {}  # name -> (coq type, sort key)
        self.sig = []  # signature value parameters: (name, coq type)   (filled by bind_signature)
        self.self_name = None
        self.state_name = None
        self.state_kind = None
        self.depth = 0
        self.seen_branch = False
        self.inst_cls = cls

    # -------------------------------------------------------------------------------- inputs
    def add_input(self, name, ty, group):
        ct = coq_type(ty)
        key = (group, INPUT_ORDER.index(name) if name in INPUT_ORDER else 99, name)
        if name in self.inputs and self.inputs[name][0] != ct:
            raise Unavailable("input %s used at two types" % name)
        self.inputs[name] = (ct, key)
        return Val(name, ty, {name})

    # -------------------------------------------------------------------------------- annotations
    def ann_type(self, ann):
        """-> ('val', type) | ('state', kind) | ('list', elemtype) | ('obj', ClassInfo) | None"""
        if ann is None:
            return None
        if isinstance(ann, ast.Constant) and isinstance(ann.value, str):
            try:
                ann = ast.parse(ann.value, mode="eval").body
            except SyntaxError:
                return None
        if isinstance(ann, ast.Name):
            if ann.id == "int":
                return ("val", INT)
            if ann.id == "bool":
                return ("val", BOOL)
            ct = self.mod.cast_of(ann)
            if ct is not None:
                return ("val", ct)
            if ann.id.endswith("ArchitecturalState"):
                return ("state", "toy" if ann.id.startswith("Toy") else "rv")
            c = self.mod.lookup_class(ann.id)
            if c is not None:
                return ("obj", c)
            return None
        if isinstance(ann, ast.Attribute):
            ct = self.mod.cast_of(ann)
            if ct is not None:
                return ("val", ct)
            return None
        if isinstance(ann, ast.Subscript) and isinstance(ann.value, ast.Name):
            if ann.value.id == "Optional":
                inner = self.ann_type(ann.slice)
                if inner and inner[0] == "val":
                    return ("val", OPT(inner[1]))
                return None
            if ann.value.id == "list":
                inner = self.ann_type(ann.slice)
                if inner and inner[0] == "val" and is_fixed(inner[1]):
                    return ("list", inner[1])
                return None
        if isinstance(ann, ast.BinOp) and isinstance(ann.op, ast.BitOr):
            l, r = ann.left, ann.right
            ln = isinstance(l, ast.Constant) and l.value is None
            rn = isinstance(r, ast.Constant) and r.value is None
            if ln != rn:
                inner = self.ann_type(r if ln else l)
                if inner and inner[0] == "val":
                    return ("val", OPT(inner[1]))
        return None

    # -------------------------------------------------------------------------------- signature
    def bind_signature(self, st, toplevel=True, actual=None):
        """toplevel: parameters become inputs.  Otherwise `actual` = (args, kwargs) of values."""
        a = self.node.args
        if a.posonlyargs or a.kwonlyargs or a.vararg:
            raise Unavailable("unsupported parameter kinds")
        params = list(a.args)
        defaults = [None] * (len(params) - len(a.defaults)) + list(a.defaults)
        decos = [d.id for d in self.node.decorator_list if isinstance(d, ast.Name)]
        if len(decos) != len(self.node.decorator_list) or any(d not in ("classmethod", "staticmethod") for d in decos):
            raise Unavailable("unsupported decorator")
        first = True
        pos = list(actual[0]) if actual else []
        kws = dict(actual[1]) if actual else {}
        for p, d in zip(params, defaults):
            if first and self.cls is not None and "staticmethod" not in decos:
                first = False
                if "classmethod" in decos:
                    st.env[p.arg] = Marker("cls", p.arg)
                else:
                    self.self_name = p.arg
                    st.env[p.arg] = Marker("self", p.arg)
                continue
            first = False
            kind = self.ann_type(p.annotation)
            if p.annotation is None and p.arg in ("architectural_state", "state"):
                kind = ("state", "toy" if p.arg == "state" else "rv")
            if toplevel:
                if kind is None:
                    if p.annotation is None and d is not None and isinstance(d, ast.Constant) \
                            and type(d.value) is int:
                        kind = ("val", INT)
                if kind is None:
                    st.env[p.arg] = VPoison("parameter %s has no usable annotation" % p.arg)
                    continue
                if kind[0] == "val":
                    self.sig.append([p.arg, kind[1]])
                    st.env[p.arg] = Val(p.arg, kind[1], {p.arg})
                elif kind[0] == "state":
                    self.state_name, self.state_kind = p.arg, kind[1]
                    st.env[p.arg] = Marker("state", p.arg)
                elif kind[0] == "list":
                    st.env[p.arg] = Marker("list", p.arg, kind[1])
                else:
                    st.env[p.arg] = Marker("obj", p.arg, kind[1])
            else:
                if pos:
                    st.env[p.arg] = pos.pop(0)
                elif p.arg in kws:
                    st.env[p.arg] = kws.pop(p.arg)
                elif d is not None:
                    st.env[p.arg] = self.ev(d, State())
                else:
                    raise Unavailable("missing argument %s" % p.arg)
        if pos:
            raise Unavailable("too many positional arguments")
        if a.kwarg is not None:
            st.env[a.kwarg.arg] = VDict(a.kwarg.arg, None if toplevel else kws)
        elif kws:
            raise Unavailable("unexpected keyword arguments")

    # -------------------------------------------------------------------------------- expressions
    def intval(self, v, what="operand"):
        if isinstance(v, VPoison):
            raise Unavailable(v.why)
        if not isinstance(v, Val) or not is_intlike(v.ty):
            raise Unavailable("%s is not an integer" % what)
        return v

    def truth(self, v):
        if isinstance(v, VPoison):
            raise Unavailable(v.why)
        if isinstance(v, Val) and v.ty == BOOL:
            return v
        if isinstance(v, Val) and is_intlike(v.ty):
            return Val("(negb (%s =? 0))" % v.term, BOOL, v.fv)
        raise Unavailable("condition is neither bool nor integer")

    def self_field(self, st, name):
        if self.init_mode:
            if name in st.fields:
                return st.fields[name]
            raise Unavailable("read of self.%s before assignment in __init__" % name)
        if self.cls is None:
            raise Unavailable("self outside a class")
        ft = self.tr.field_types(self.cls)
        if name not in ft:
            raise Unavailable("type of self.%s not derivable from the constructor chain" % name)
        return self.add_input("self_" + name, ft[name], 0)

    def slot_read(self, st, slot):
        if slot in st.slots:
            return st.slots[slot]
        return self.add_input(slot, SLOT_INITIAL[slot], 3)

    def ev(self, n, st):
        if isinstance(n, ast.Constant):
            v = n.value
            if type(v) is bool:
                return Val("true" if v else "false", BOOL)
            if type(v) is int:
                return Val(str(v) if v >= 0 else "(%d)" % v, INT)
            if v is None:
                return NONE_VAL
            if type(v) is str:
                return VStr()
            raise Unavailable("literal of type %s" % type(v).__name__)
        if isinstance(n, ast.Name):
            if n.id in st.env:
                v = st.env[n.id]
                if isinstance(v, VPoison):
                    raise Unavailable(v.why)
                return v
            raise Unavailable("unknown name %s" % n.id)
        if isinstance(n, ast.Tuple):
            return VTuple([self.scalar(self.ev(e, st)) for e in n.elts])
        if isinstance(n, ast.Attribute):
            return self.ev_attr(n, st)
        if isinstance(n, ast.Subscript):
            return self.ev_subscript(n, st)
        if isinstance(n, ast.UnaryOp):
            if isinstance(n.op, ast.Not):
                v = self.ev(n.operand, st)
                if isinstance(v, Val) and v.ty == BOOL:
                    return Val("(negb %s)" % v.term, BOOL, v.fv)
                v = self.intval(v)
                return Val("(%s =? 0)" % v.term, BOOL, v.fv)
            v = self.intval(self.ev(n.operand, st))
            if v.ty == ANY:
                raise Unavailable("arithmetic on a value of undetermined integer type")
            if isinstance(n.op, ast.USub):
                t = "(- %s)" % v.term
            elif isinstance(n.op, ast.Invert):
                t = "(Z.lnot %s)" % v.term
            else:
                raise Unavailable("unary +")
            if is_fixed(v.ty):
                t = wrap(v.ty, t)
            return Val(t, v.ty, v.fv)
        if isinstance(n, ast.BinOp):
            return self.ev_binop(n, st)
        if isinstance(n, ast.Compare):
            return self.ev_compare(n, st)
        if isinstance(n, ast.BoolOp):
            vs = [self.ev(x, st) for x in n.values]
            for v in vs:
                if not isinstance(v, Val) or v.ty != BOOL:
                    raise Unavailable("and/or on non-boolean operands")
            f = "(andb %s %s)" if isinstance(n.op, ast.And) else "(orb %s %s)"
            acc = vs[0]
            for v in vs[1:]:
                acc = Val(f % (acc.term, v.term), BOOL, acc.fv | v.fv)
            return acc
        if isinstance(n, ast.IfExp):
            c = self.truth(self.ev(n.test, st))
            return merge(("if", c), self.ev(n.body, st), self.ev(n.orelse, st))
        if isinstance(n, ast.Call):
            return self.ev_call(n, st)
        raise Unavailable("expression %s" % type(n).__name__)

    def scalar(self, v):
        if isinstance(v, VPoison):
            raise Unavailable(v.why)
        if isinstance(v, (Val, VTuple)):
            return v
        if isinstance(v, Marker) and v.kind == "self":
            raise Unavailable("self used as a value")
        raise Unavailable("non-scalar value inside a tuple")

    def ev_attr(self, n, st):
        ch = chain(n)
        if ch is None:
            raise Unavailable("attribute of a computed object")
        base = st.env.get(ch[0])
        if isinstance(base, Marker) and base.kind == "self" and len(ch) == 2:
            return self.self_field(st, ch[1])
        if isinstance(base, Marker) and base.kind == "obj" and len(ch) == 2:
            ft = self.tr.field_types(base.info)
            if ch[1] not in ft:
                raise Unavailable("type of %s.%s not derivable" % (ch[0], ch[1]))
            return self.add_input("%s_%s" % (ch[0], ch[1]), ft[ch[1]], 1)
        if isinstance(base, Marker) and base.kind == "state":
            if self.state_kind == "rv" and ch[1:] == ["program_counter"]:
                return self.slot_read(st, "pc")
            if self.state_kind == "toy" and ch[1:] == ["accu"]:
                return self.slot_read(st, "accu")
            raise Unavailable("state read %s outside the supported idioms" % ".".join(ch))
        if isinstance(base, VObj) and len(ch) == 2 and ch[1] in base.fields:
            return base.fields[ch[1]]
        raise Unavailable("attribute read %s" % ".".join(ch))

    def ev_subscript(self, n, st):
        ch = chain(n.value)
        base = st.env.get(ch[0]) if ch else None
        # register read
        if isinstance(base, Marker) and base.kind == "state" and self.state_kind == "rv" \
                and ch[1:] == ["register_file", "registers"]:
            ich = chain(n.slice)
            if ich and len(ich) == 2 and isinstance(st.env.get(ich[0]), Marker) \
                    and st.env[ich[0]].kind == "self" and not self.init_mode:
                if "rd" in st.slots:
                    raise Unavailable("register read after a register write (aliasing)")
                return self.add_input("reg_" + ich[1], U(32), 3)
            raise Unavailable("register index is not self.<field>")
        # list element read
        if isinstance(base, Marker) and base.kind == "list" and len(ch) == 1:
            if "store_value" in st.slots:
                raise Unavailable("list read after a list store")
            idx = self.ev(n.slice, st)
            if not (isinstance(idx, Val) and idx.term in self.inputs and idx.ty == INT):
                raise Unavailable("list index is not a plain input")
            return self.add_input("%s_at_%s" % (ch[0], idx.term), base.info, 2)
        # kwargs lookup
        if isinstance(base, VDict) and len(ch) == 1 and isinstance(n.slice, ast.Constant) \
                and isinstance(n.slice.value, str):
            if base.entries is None:
                return VOpaque("%s_%s" % (base.name, n.slice.value))
            if n.slice.value in base.entries:
                return base.entries[n.slice.value]
            raise Unavailable("missing keyword %s" % n.slice.value)
        # fixedint slice x[:k]
        if isinstance(n.slice, ast.Slice):
            s = n.slice
            if s.lower is None and s.step is None and isinstance(s.upper, ast.Constant) \
                    and type(s.upper.value) is int:
                v = self.ev(n.value, st)
                if isinstance(v, Val) and is_fixed(v.ty) and 0 < s.upper.value <= v.ty[1]:
                    t = U(s.upper.value)
                    return Val(wrap(t, v.term), t, v.fv)
            raise Unavailable("slice outside the x[:k] form")
        raise Unavailable("subscript outside the supported idioms")

    def ev_binop(self, n, st):
        if type(n.op) not in BINOPS:
            raise Unavailable("operator %s" % type(n.op).__name__)
        l = self.intval(self.ev(n.left, st), "left operand")
        r = self.intval(self.ev(n.right, st), "right operand")
        if l.ty == ANY or r.ty == ANY:
            raise Unavailable("arithmetic on a value of undetermined integer type")
        raw = BINOPS[type(n.op)] % (l.term, r.term)
        fv = l.fv | r.fv
        lf, rf = is_fixed(l.ty), is_fixed(r.ty)
        if isinstance(n.op, ast.Pow):
            if lf or rf:
                raise Unavailable("** on fixedint operands")
            return Val(raw, INT, fv)
        if not lf and not rf:
            return Val(raw, INT, fv)
        if lf and rf:
            t = arith_convert(l.ty, r.ty)
        elif lf:
            t = l.ty
        else:
            if isinstance(n.op, (ast.LShift, ast.RShift)):
                return Val(raw, INT, fv)  # int.__lshift__(int, fixedint) -> plain int
            t = r.ty
        return Val(wrap(t, raw), t, fv)

    def ev_compare(self, n, st):
        if len(n.ops) != 1:
            raise Unavailable("chained comparison")
        op, l, r = n.ops[0], n.left, n.comparators[0]
        if isinstance(op, (ast.Is, ast.IsNot)):
            if not (isinstance(r, ast.Constant) and r.value is None):
                raise Unavailable("`is` with something other than None")
            v = self.ev(l, st)
            if isinstance(v, Val) and v.ty[0] == "opt":
                a, b = ("true", "false") if isinstance(op, ast.IsNot) else ("false", "true")
                return Val("(match %s with Some _ => %s | None => %s end)" % (v.term, a, b), BOOL, v.fv)
            raise Unavailable("None test on a value that is not Optional")
        if type(op) not in CMPOPS:
            raise Unavailable("comparison %s" % type(op).__name__)
        a = self.intval(self.ev(l, st), "compared value")
        b = self.intval(self.ev(r, st), "compared value")
        return Val(CMPOPS[type(op)] % (a.term, b.term), BOOL, a.fv | b.fv)

    def call_args(self, n, st, names):
        """positional/keyword arguments of a state idiom call -> dict by parameter name"""
        out = {}
        if len(n.args) > len(names):
            raise Unavailable("too many arguments in a state idiom call")
        for nm, a in zip(names, n.args):
            out[nm] = a
        for k in n.keywords:
            if k.arg is None or k.arg not in names or k.arg in out:
                raise Unavailable("unsupported keyword in a state idiom call")
            out[k.arg] = k.value
        if set(out) != set(names):
            raise Unavailable("state idiom call with missing/extra arguments")
        return out

    def ev_call(self, n, st):
        f = n.func
        ct = self.mod.cast_of(f)
        if ct is not None and not (isinstance(f, ast.Name) and f.id in st.env) \
                and not (isinstance(f, ast.Attribute) and "fixedint" in st.env):
            if len(n.args) != 1 or n.keywords:
                raise Unavailable("fixedint cast with other than one argument")
            v = self.intval(self.ev(n.args[0], st), "cast argument")
            return Val(wrap(ct, v.term), ct, v.fv)
        if isinstance(f, ast.Name) and f.id not in st.env:
            if f.id == "int":
                if len(n.args) != 1 or n.keywords:
                    raise Unavailable("int() with other than one argument")
                a = n.args[0]
                if isinstance(a, ast.BinOp) and isinstance(a.op, ast.Div):
                    l, r = self.ev(a.left, st), self.ev(a.right, st)
                    if not (isinstance(l, Val) and isinstance(r, Val) and l.ty == INT and r.ty == INT):
                        raise Unavailable("int(a / b) with operands that are not plain ints")
                    return Val("(pyfdiv %s %s)" % (l.term, r.term), INT, l.fv | r.fv)
                if isinstance(a, ast.Name) and isinstance(st.env.get(a.id), Marker) \
                        and st.env[a.id].kind == "self":
                    return self.inline_method("__int__", st)
                v = self.ev(a, st)
                if isinstance(v, VOpaque):
                    return self.add_input(v.name, INT, 4)
                if isinstance(v, Val) and v.ty == BOOL:
                    return Val("(if %s then 1 else 0)" % v.term, INT, v.fv)
                v = self.intval(v, "int() argument")
                return Val(v.term, INT, v.fv)
            if f.id == "bool":
                if len(n.args) != 1 or n.keywords:
                    raise Unavailable("bool() with other than one argument")
                return self.truth(self.ev(n.args[0], st))
            if f.id == "pow":
                if len(n.args) != 2 or n.keywords:
                    raise Unavailable("pow() with other than two arguments")
                a, b = self.ev(n.args[0], st), self.ev(n.args[1], st)
                if not (isinstance(a, Val) and isinstance(b, Val) and a.ty == INT and b.ty == INT):
                    raise Unavailable("pow() on operands that are not plain ints")
                return Val("(%s ^ %s)" % (a.term, b.term), INT, a.fv | b.fv)
            c = self.mod.lookup_class(f.id)
            if c is not None:
                args = [self.ev(a, st) for a in n.args]
                kws = {}
                for k in n.keywords:
                    if k.arg is None:
                        raise Unavailable("** in a constructor call")
                    kws[k.arg] = self.ev(k.value, st)
                return self.tr.construct(c, args, kws, self)
            raise Unavailable("call of %s" % f.id)
        if isinstance(f, ast.Attribute):
            ch = chain(f)
            base = st.env.get(ch[0]) if ch else None
            if isinstance(base, Marker) and base.kind == "self" and len(ch) == 2 and not n.args and not n.keywords:
                return self.inline_method(ch[1], st)
            if isinstance(base, Marker) and base.kind == "state" and len(ch) == 3 and ch[1] == "memory" \
                    and ch[2] in ("read_byte", "read_halfword", "read_word"):
                width = {"read_byte": 8, "read_halfword": 16, "read_word": 32}[ch[2]]
                if self.state_kind == "toy" and width != 16:
                    raise Unavailable("TOY memory is read by halfwords only")
                a = self.call_args(n, st, ["address"])
                addr = self.intval(self.ev(a["address"], st), "address")
                if "mem_addr" in st.slots:
                    raise Unavailable("more than one memory access")
                st.slots["mem_addr"] = Val(addr.term, INT, addr.fv)
                return self.add_input({8: "mem_byte", 16: "mem_halfword", 32: "mem_word"}[width], U(width), 3)
            if ch is None and f.attr == "upper" and not n.args and not n.keywords:
                v = self.ev(f.value, st)
                if isinstance(v, (VStr, VOpaque)):
                    return VStr()
            if ch is not None and f.attr == "upper" and not n.args and not n.keywords:
                v = self.ev(f.value, st)
                if isinstance(v, (VStr, VOpaque)):
                    return VStr()
        raise Unavailable("call outside the supported forms")

    def inline_method(self, name, st):
        if self.cls is None or self.init_mode:
            raise Unavailable("method call on self outside a plain method")
        if self.depth > 4:
            raise Unavailable("inlining too deep")
        owner, node = self.cls.resolve(name)
        if node is None:
            raise Unavailable("method %s not found" % name)
        for sub in owner.mod.subclasses_of(owner) + (self.mod.subclasses_of(owner) if self.mod is not owner.mod else []):
            if name in sub.methods:
                raise Unavailable("method %s is overridden in %s (dynamic dispatch)" % (name, sub.name))
        a = node.args
        if len(a.args) != 1 or a.kwarg or a.vararg or a.kwonlyargs or node.decorator_list:
            raise Unavailable("inlined method takes arguments")
        sub_st = State()
        sub_st.env[a.args[0].arg] = Marker("self", a.args[0].arg)
        saved = (self.mod, self.cls, self.depth)
        self.mod, self.depth = owner.mod, self.depth + 1
        try:
            o = self.exec_block(node.body, sub_st, 1)
            v = self.collect(o, lambda leaf: leaf[1] if leaf[0] == "ret" else NONE_VAL)
            for leaf in self.leaves(o):
                if leaf[0] == "raise" or leaf[-1].slots:
                    raise Unavailable("inlined method has effects")
        finally:
            self.mod, self.cls, self.depth = saved
        return v

    # -------------------------------------------------------------------------------- statements
    def assign_name(self, st, name, v):
        if isinstance(st.env.get(name), Marker):
            raise Unavailable("assignment to a special parameter")
        st.env[name] = v

    def state_store(self, st, target, v, aug=None):
        """assignment / augmented assignment to a state location; returns True when handled"""
        ch = chain(target) if not isinstance(target, ast.Subscript) else None
        if isinstance(target, ast.Subscript):
            bch = chain(target.value)
            base = st.env.get(bch[0]) if bch else None
            if isinstance(base, Marker) and base.kind == "state" and self.state_kind == "rv" \
                    and bch[1:] == ["register_file", "registers"]:
                ich = chain(target.slice)
                if not (ich and len(ich) == 2 and isinstance(st.env.get(ich[0]), Marker)
                        and st.env[ich[0]].kind == "self" and ich[1] == "rd") or aug:
                    raise Unavailable("register write other than registers[self.rd] = e")
                if "rd" in st.slots:
                    raise Unavailable("two register writes on one path")
                if not (isinstance(v, Val) and v.ty == U(32)):
                    raise Unavailable("register write of a value that is not a UInt32")
                st.slots["rd"] = v
                return True
            if isinstance(base, Marker) and base.kind == "list" and len(bch) == 1 and not aug:
                idx = self.ev(target.slice, st)
                if not (isinstance(idx, Val) and idx.ty == INT):
                    raise Unavailable("list store index")
                if "store_value" in st.slots:
                    raise Unavailable("two list stores on one path")
                if not (isinstance(v, Val) and v.ty == base.info):
                    raise Unavailable("list store of a value that is not of the element type")
                st.slots["store_index"] = idx
                st.slots["store_value"] = v
                return True
            return False
        if ch is None:
            return False
        base = st.env.get(ch[0])
        if not (isinstance(base, Marker) and base.kind == "state"):
            return False
        path = ch[1:]
        slot = None
        if self.state_kind == "rv" and path == ["program_counter"]:
            slot, need = "pc", INT
        elif path == ["performance_metrics", "branch_count"]:
            slot, need = "branch_count", INT
        elif path == ["performance_metrics", "procedure_count"]:
            slot, need = "procedure_count", INT
        elif self.state_kind == "toy" and path == ["accu"]:
            slot, need = "accu", U(16)
        if slot is None:
            raise Unavailable("state write %s outside the supported idioms" % ".".join(ch))
        if aug is not None:
            cur = self.slot_read(st, slot)
            v = self.binop_vals(aug, cur, v)
        if not (isinstance(v, Val) and v.ty == need):
            raise Unavailable("state write %s of a value of the wrong type" % slot)
        st.slots[slot] = v
        return True

    def binop_vals(self, op, l, r):
        """binary operator on two already evaluated values (augmented assignment)"""
        fake = ast.BinOp(left=ast.Name(id="__l"), op=op, right=ast.Name(id="__r"))
        s = State()
        s.env["__l"], s.env["__r"] = l, r
        return self.ev_binop(fake, s)

    def exec_simple(self, s, st, depth):
        if isinstance(s, ast.Expr):
            if isinstance(s.value, ast.Constant) and isinstance(s.value.value, str):
                return
            if isinstance(s.value, ast.Call):
                return self.exec_call_stmt(s.value, st)
            raise Unavailable("expression statement")
        if isinstance(s, ast.Pass):
            return
        if isinstance(s, ast.Assert):
            t = s.test
            if depth == 0 and not self.seen_branch and isinstance(t, ast.Compare) and len(t.ops) == 1 \
                    and isinstance(t.ops[0], ast.IsNot) and isinstance(t.comparators[0], ast.Constant) \
                    and t.comparators[0].value is None and isinstance(t.left, ast.Name):
                v = st.env.get(t.left.id)
                if isinstance(v, Val) and v.term == t.left.id and v.ty[0] == "opt":
                    for p in self.sig:
                        if p[0] == t.left.id:
                            p[1] = v.ty[1]
                    st.env[t.left.id] = Val(v.term, v.ty[1], v.fv)
                    return
                if isinstance(v, Val) and v.ty[0] != "opt":
                    return
            raise Unavailable("assert other than a leading `assert p is not None`")
        if isinstance(s, (ast.Assign, ast.AnnAssign)):
            if isinstance(s, ast.AnnAssign):
                if s.value is None:
                    return
                targets = [s.target]
            else:
                targets = s.targets
            # visualisation values (TOY)
            if len(targets) == 1 and self.state_kind == "toy" and chain(targets[0]) == [self.state_name, "visualisation_values"]:
                c = s.value
                if isinstance(c, ast.Call) and isinstance(c.func, ast.Name) and c.func.id == "SvgVisValues" and not c.args:
                    for k in list(st.slots):
                        if k.startswith("vis_"):
                            del st.slots[k]
                    for k in c.keywords:
                        if k.arg is None:
                            raise Unavailable("** in SvgVisValues")
                        v = self.ev(k.value, st)
                        if not isinstance(v, Val):
                            raise Unavailable("visualisation value")
                        st.slots["vis_" + k.arg] = v
                    return
                raise Unavailable("visualisation_values assigned something other than SvgVisValues(k=v...)")
            v = self.ev(s.value, st)
            for t in targets:
                if isinstance(t, ast.Name):
                    self.assign_name(st, t.id, v)
                elif isinstance(t, ast.Attribute) and isinstance(t.value, ast.Name) \
                        and isinstance(st.env.get(t.value.id), Marker) and st.env[t.value.id].kind == "self":
                    if not self.init_mode:
                        raise Unavailable("assignment to self.%s outside __init__" % t.attr)
                    st.fields[t.attr] = v
                elif self.state_store(st, t, v):
                    pass
                else:
                    raise Unavailable("assignment target")
            return
        if isinstance(s, ast.AugAssign):
            if type(s.op) not in BINOPS:
                raise Unavailable("augmented operator")
            v = self.ev(s.value, st)
            if isinstance(s.target, ast.Name):
                cur = self.ev(s.target, st)
                self.assign_name(st, s.target.id, self.binop_vals(s.op, cur, v))
                return
            if self.state_store(st, s.target, v, aug=s.op):
                return
            raise Unavailable("augmented assignment target")
        raise Unavailable("statement %s" % type(s).__name__)

    def exec_call_stmt(self, c, st):
        f = c.func
        # super().__init__(...)
        if isinstance(f, ast.Attribute) and f.attr == "__init__" and isinstance(f.value, ast.Call) \
                and isinstance(f.value.func, ast.Name) and f.value.func.id == "super" and not f.value.args:
            if not self.init_mode:
                raise Unavailable("super().__init__ outside __init__")
            args = [self.ev(a, st) for a in c.args]
            kws = {}
            for k in c.keywords:
                if k.arg is None:
                    d = self.ev(k.value, st)
                    if not isinstance(d, VDict):
                        raise Unavailable("** of a non-dict")
                    if d.entries is None:
                        kws["**"] = d
                    else:
                        kws.update(d.entries)
                else:
                    kws[k.arg] = self.ev(k.value, st)
            self.tr.run_init_after(self.inst_cls, self.cls, args, kws, st, self)
            return
        ch = chain(f) if isinstance(f, ast.Attribute) else None
        base = st.env.get(ch[0]) if ch else None
        if isinstance(base, Marker) and base.kind == "state":
            if len(ch) == 3 and ch[1] == "memory" and ch[2] in ("write_byte", "write_halfword", "write_word"):
                width = {"write_byte": 8, "write_halfword": 16, "write_word": 32}[ch[2]]
                if self.state_kind == "toy" and width != 16:
                    raise Unavailable("TOY memory is written by halfwords only")
                a = self.call_args(c, st, ["address", "value"])
                addr = self.intval(self.ev(a["address"], st), "address")
                val = self.ev(a["value"], st)
                if not (isinstance(val, Val) and val.ty == U(width)):
                    raise Unavailable("memory write of a value that is not a UInt%d" % width)
                if "mem_addr" in st.slots:
                    raise Unavailable("more than one memory access")
                st.slots["mem_addr"] = Val(addr.term, INT, addr.fv)
                st.slots["mem_value"] = val
                return
            if self.state_kind == "toy" and ch[1:] == ["set_current_pc"]:
                a = self.call_args(c, st, ["address"])
                v = self.ev(a["address"], st)
                if not (isinstance(v, Val) and v.ty == U(12)):
                    raise Unavailable("set_current_pc of a value that is not a UInt12")
                st.slots["pc"] = Val(v.term, INT, v.fv)
                return
        raise Unavailable("call statement outside the supported idioms")

    def narrowing(self, test, st):
        """names tested `is not None` (conjunction) when all are Optional inputs, else None"""
        parts = test.values if isinstance(test, ast.BoolOp) and isinstance(test.op, ast.And) else [test]
        names = []
        for t in parts:
            if isinstance(t, ast.Compare) and len(t.ops) == 1 and isinstance(t.ops[0], ast.IsNot) \
                    and isinstance(t.comparators[0], ast.Constant) and t.comparators[0].value is None \
                    and isinstance(t.left, ast.Name):
                v = st.env.get(t.left.id)
                if isinstance(v, Val) and v.ty[0] == "opt" and t.left.id not in names:
                    names.append(t.left.id)
                    continue
            return None
        return names

    def exec_block(self, stmts, st, depth):
        for i, s in enumerate(stmts):
            if isinstance(s, ast.If):
                self.seen_branch = True
                rest = stmts[i + 1:]
                names = self.narrowing(s.test, st)
                if names:
                    return self.exec_match(names, s, rest, st, depth)
                c = self.truth(self.ev(s.test, st))
                o1 = self.exec_block(s.body, st.copy(), depth + 1)
                o2 = self.exec_block(s.orelse, st.copy(), depth + 1)
                if o1[0] == "fall" and o2[0] == "fall":
                    st = self.merge_states(("if", c), o1[1], o2[1])
                    continue
                return ("br", ("if", c), self.cont(o1, rest, depth), self.cont(o2, rest, depth))
            if isinstance(s, ast.Return):
                self.seen_branch = True
                if s.value is None:
                    return ("ret", NONE_VAL, st)
                v = self.ev(s.value, st)
                if isinstance(v, Marker) and v.kind in ("state", "list"):
                    return ("ret", NONE_VAL, st)
                if isinstance(v, VPoison):
                    raise Unavailable(v.why)
                return ("ret", v, st)
            if isinstance(s, ast.Raise):
                self.seen_branch = True
                e = s.exc
                if not (isinstance(e, ast.Call) and isinstance(e.func, ast.Name) and not e.keywords):
                    raise Unavailable("raise outside the `raise E(int args)` form")
                args = [self.intval(self.ev(a, st), "exception argument") for a in e.args]
                return ("raise", e.func.id, args, st)
            self.exec_simple(s, st, depth)
        return ("fall", st)

    def exec_match(self, names, s, rest, st, depth):
        """if a is not None and b is not None: BODY else: ORELSE  ->  nested match"""
        def build(k, cur):
            if k == len(names):
                return self.cont(self.exec_block(s.body, cur, depth + 1), rest, depth)
            nm = names[k]
            ov = cur.env[nm]
            some = cur.copy()
            bound = nm + "_v"
            some.env[nm] = Val(bound, ov.ty[1], ov.fv)
            o_some = build(k + 1, some)
            o_none = self.cont(self.exec_block(s.orelse, cur.copy(), depth + 1), rest, depth)
            return ("br", ("match", ov, bound), o_some, o_none)
        return build(0, st.copy())

    def cont(self, o, rest, depth):
        if o[0] == "fall":
            return self.exec_block(rest, o[1], depth)
        if o[0] == "br":
            return ("br", o[1], self.cont(o[2], rest, depth), self.cont(o[3], rest, depth))
        return o

    def merge_states(self, spec, a, b):
        st = State()
        for k in set(a.env) & set(b.env):
            va, vb = a.env[k], b.env[k]
            if va is vb:
                st.env[k] = va
            else:
                try:
                    st.env[k] = merge(spec, va, vb)
                except Unavailable as e:
                    st.env[k] = VPoison("variable %s: %s" % (k, e))
        for k in set(a.env) ^ set(b.env):
            st.env[k] = VPoison("variable %s is assigned on one branch only" % k)
        for k in set(a.slots) | set(b.slots):
            va = a.slots[k] if k in a.slots else self.slot_default(k)
            vb = b.slots[k] if k in b.slots else self.slot_default(k)
            st.slots[k] = va if va is vb else merge(spec, va, vb)
        for k in set(a.fields) | set(b.fields):
            if k not in a.fields or k not in b.fields:
                raise Unavailable("field %s assigned on one branch only" % k)
            st.fields[k] = a.fields[k] if a.fields[k] is b.fields[k] else merge(spec, a.fields[k], b.fields[k])
        return st

    def slot_default(self, k):
        if k in SLOT_INITIAL:
            return self.add_input(k, SLOT_INITIAL[k], 3)
        raise Unavailable("%s is written on one branch only" % k)

    # -------------------------------------------------------------------------------- outcome trees
    def leaves(self, o):
        if o[0] == "br":
            return self.leaves(o[2]) + self.leaves(o[3])
        return [o]

    RAISE = object()

    def collect(self, o, getter):
        if o[0] == "raise":
            return Fn.RAISE
        if o[0] == "br":
            a, b = self.collect(o[2], getter), self.collect(o[3], getter)
            if a is Fn.RAISE:
                return b
            if b is Fn.RAISE:
                return a
            return merge(o[1], a, b)
        return getter(o)

    def raise_pred(self, o):
        if o[0] == "raise":
            return Val("true", BOOL)
        if o[0] != "br":
            return Val("false", BOOL)
        a, b = self.raise_pred(o[2]), self.raise_pred(o[3])
        if a.term == b.term:
            return a
        spec = o[1]
        if spec[0] == "if" and a.term == "true" and b.term == "false":
            return spec[1]
        if spec[0] == "if" and a.term == "false" and b.term == "true":
            return Val("(negb %s)" % spec[1].term, BOOL, spec[1].fv)
        return Val(render_br(spec, a.term, b.term), BOOL, spec[1].fv | a.fv | b.fv)

    # -------------------------------------------------------------------------------- driver
    def run(self):
        """-> list of (suffix, value) results"""
        st = State()
        self.inst_cls = self.cls
        self.bind_signature(st, toplevel=True)
        o = self.exec_block(self.node.body, st, 0)
        results = []
        leaves = [l for l in self.leaves(o) if l[0] != "raise"]
        raises = [l for l in self.leaves(o) if l[0] == "raise"]
        if not leaves:
            raise Unavailable("every path raises")
        if self.init_mode:
            for l in leaves:
                if l[0] == "ret" and l[1] is not NONE_VAL:
                    raise Unavailable("__init__ returns a value")
            names = set()
            for l in leaves:
                names |= set(l[-1].fields)
            for k in sorted(names):
                def g(leaf, k=k):
                    if k not in leaf[-1].fields:
                        raise Unavailable("field %s assigned on some paths only" % k)
                    return leaf[-1].fields[k]
                v = self.collect(o, g)
                if isinstance(v, (VStr, VOpaque)):
                    continue
                results.append((k, v))
        else:
            rv = self.collect(o, lambda leaf: leaf[1] if leaf[0] == "ret" else NONE_VAL)
            if isinstance(rv, VObj):
                for k in sorted(rv.fields):
                    if isinstance(rv.fields[k], (VStr, VOpaque)):
                        continue
                    results.append((k, rv.fields[k]))
            elif isinstance(rv, (Val, VTuple)):
                if not only_unit(rv):
                    results.append(("", rv))
            else:
                raise Unavailable("return value of unsupported shape")
        slots = set()
        for l in leaves:
            slots |= set(l[-1].slots)
        for k in sorted(slots):
            def g(leaf, k=k):
                return leaf[-1].slots[k] if k in leaf[-1].slots else self.slot_default(k)
            results.append((k, self.collect(o, g)))
        if raises:
            results.append(("raises", self.raise_pred(o)))
            if len(raises) == 1 and raises[0][2]:
                results.append(("raise_args", VTuple(raises[0][2]) if len(raises[0][2]) > 1 else raises[0][2][0]))
        return results


# ------------------------------------------------------------------------------------------------
class Translator:
    # (relative path, generated file, name prefix, class methods to translate or None, module functions?)
    MODULES = [
        (PKG + "/isa/riscv/instruction_types.py", "GenRVTypes", "", ("__init__", "alu_compute"), False),
        (PKG + "/isa/riscv/rv32i_instructions.py", "GenRV", "", ("__init__", "alu_compute", "behavior"), False),
        (PKG + "/util/integer_manipulation.py", "GenIntManip", "", (), True),
        (PKG + "/uarch/memory/decoded_address.py", "GenDecoded", "", ("__init__",), False),
        (PKG + "/isa/toy/toy_instructions.py", "GenToy", "toy_",
         ("__init__", "to_integer", "from_integer", "op_code_value", "address_section_value", "behavior"), False),
    ]
    # concrete classes of these files get aliases for inherited methods
    ALIAS = {"GenRV": ("alu_compute", "behavior")}
    IMPORTS = {"GenRV": ["GenRVTypes"]}

    def __init__(self, root=DEFAULT_ROOT):
        self.root = os.path.abspath(root)
        self.modules = {}
        self._ft = {}

    def module(self, rel):
        if rel not in self.modules:
            self.modules[rel] = Module(self, rel)
        return self.modules[rel]

    # ---- constructors
    def construct(self, cls, args, kws, caller):
        if caller.depth > 6:
            raise Unavailable("constructor nesting too deep")
        st = State()
        self.run_init_from(cls, cls.mro(), args, kws, st, caller)
        return VObj(cls.name, st.fields)

    def run_init_from(self, inst_cls, classes, args, kws, st, caller):
        for c in classes:
            if "__init__" in c.methods:
                fn = Fn(self, c.mod, c, c.methods["__init__"], init_mode=True)
                fn.inst_cls = inst_cls
                fn.inputs = caller.inputs  # inputs are those of the outermost function
                fn.depth = caller.depth + 1
                sub = State()
                sub.fields = st.fields
                star = kws.pop("**", None)
                fn.bind_signature(sub, toplevel=False, actual=(args, kws))
                if star is not None:
                    kw = fn.node.args.kwarg
                    if kw is None or sub.env[kw.arg].entries:
                        raise Unavailable("** of an unknown dict mixed with keywords")
                    sub.env[kw.arg] = star
                o = fn.exec_block(fn.node.body, sub, 1)
                if o[0] != "fall" and not (o[0] == "ret" and o[1] is NONE_VAL):
                    raise Unavailable("branching / raising constructor")
                st.fields = o[-1].fields
                return
        if args or [k for k in kws if k != "**"]:
            raise Unavailable("arguments passed to object.__init__")

    def run_init_after(self, inst_cls, owner, args, kws, st, caller):
        m = inst_cls.mro()
        idx = [i for i, c in enumerate(m) if c is owner]
        if not idx:
            raise Unavailable("super() outside the MRO")
        tmp = State()
        tmp.fields = st.fields
        self.run_init_from(inst_cls, m[idx[0] + 1:], args, kws, tmp, caller)
        st.fields = tmp.fields

    def field_types(self, cls):
        """types of the instance fields of `cls`, derived by running its constructor chain"""
        key = (cls.mod.relpath, cls.name)
        if key in self._ft:
            if self._ft[key] is None:
                raise Unavailable("recursive constructor")
            return self._ft[key]
        self._ft[key] = None
        out = {}
        seen = {}
        try:
            for c in reversed(cls.mro()):
                for k, (t, _lit, _ln) in c.attrs.items():
                    out[k] = t
            owner, node = cls.resolve("__init__")
            if node is not None:
                fn = Fn(self, owner.mod, owner, node, init_mode=True)
                fn.inst_cls = cls
                st = State()
                fn.bind_signature(st, toplevel=True)
                o = fn.exec_block(node.body, st, 0)
                for leaf in fn.leaves(o):
                    if leaf[0] == "raise":
                        continue
                    for k, v in leaf[-1].fields.items():
                        if isinstance(v, Val):
                            seen[k] = join(seen[k], v.ty) if k in seen else v.ty
                out.update(seen)
        except Unavailable:
            # keep the class-level attributes only
            pass
        self._ft[key] = out
        return out

    # ---- emission
    def translate_all(self):
        """-> {"files": {GenX: text}, "defs": {...}, "functions": [...], "unavailable": [...]}"""
        files, defs, functions, unavailable = {}, {}, [], []
        emitted_by_fn = {}
        for rel, gen, prefix, methods, with_funcs in self.MODULES:
            lines = ["(* GENERATED by harness/translate.py from %s -- do not edit, do not commit. *)" % rel,
                     "From ArchSim Require Import Model.Base."]
            for imp in self.IMPORTS.get(gen, []):
                lines.append("From ArchSimGen Require Import %s." % imp)
            lines += ["Open Scope Z_scope.", ""]
            try:
                mod = self.module(rel)
            except (OSError, SyntaxError) as e:
                unavailable.append({"name": rel, "reason": "cannot parse: %s" % e})
                files[gen] = "\n".join(lines) + "\n"
                continue
            items = []
            if with_funcs:
                for name, node in mod.funcs.items():
                    items.append((None, name, node))
            for cname, ci in mod.classes.items():
                for k, (t, lit, ln) in ci.attrs.items():
                    if lit is not None:
                        dn = "gen_%s%s_attr_%s" % (prefix, cname, k)
                        lines.append("(* python: %s:%d %s.%s (class attribute) *)" % (rel, ln, cname, k))
                        lines.append("Definition %s : Z := %s." % (dn, str(lit) if lit >= 0 else "(%d)" % lit))
                        lines.append("")
                        defs[dn] = {"file": gen, "python": "%s:%d %s.%s" % (rel, ln, cname, k),
                                    "function": "%s.%s" % (cname, k)}
                for m in methods:
                    if m in ci.methods:
                        items.append((ci, m, ci.methods[m]))
            for ci, name, node in items:
                qual = "%s.%s" % (ci.name, name) if ci else name
                loc = "%s:%d %s" % (rel, node.lineno, qual)
                h = hashlib.sha256(ast.dump(node, include_attributes=False).encode()).hexdigest()[:16]
                base = "gen_%s%s" % (prefix, ("%s_%s" % (ci.name, name.strip("_"))) if ci else name)
                try:
                    fn = Fn(self, mod, ci, node, init_mode=(name == "__init__"))
                    results = fn.run()
                    out = []
                    for suffix, v in results:
                        dn = base + ("_" + suffix if suffix else "")
                        fv = value_fv(v)
                        params = [(p, coq_type(t)) for p, t in fn.sig]
                        signames = {p for p, _ in params}
                        extra = sorted((x for x in fv if x not in signames), key=lambda x: fn.inputs[x][1])
                        for x in extra:
                            params.append((x, fn.inputs[x][0]))
                        ptxt = "".join(" (%s : %s)" % p for p in params)
                        out.append((dn, "Definition %s%s : %s :=\n  %s." % (dn, ptxt, value_type(v), value_term(v)),
                                    [p for p, _ in params]))
                    if not out:
                        functions.append({"name": qual, "file": rel, "defs": []})
                        emitted_by_fn[(gen, qual)] = []
                        continue
                except Unavailable as e:
                    unavailable.append({"name": "%s:%s" % (os.path.basename(rel), qual), "reason": str(e),
                                        "python": loc, "base": base})
                    continue
                except RecursionError:
                    unavailable.append({"name": "%s:%s" % (os.path.basename(rel), qual),
                                        "reason": "recursion limit", "python": loc, "base": base})
                    continue
                except Exception as e:  # fail closed on anything unexpected (e.g. an unparsable import)
                    unavailable.append({"name": "%s:%s" % (os.path.basename(rel), qual),
                                        "reason": "translator error: %s: %s" % (type(e).__name__, e),
                                        "python": loc, "base": base})
                    continue
                lines.append("(* python: %s  ast-sha256: %s *)" % (loc, h))
                for dn, text, params in out:
                    lines.append(text)
                    defs[dn] = {"file": gen, "python": loc, "function": qual, "hash": h, "params": params}
                lines.append("")
                functions.append({"name": qual, "file": rel, "defs": [d for d, _, _ in out]})
                emitted_by_fn[(gen, qual)] = [(d, d[len(base):]) for d, _, _ in out]
            # aliases for inherited methods of the concrete classes
            for m in self.ALIAS.get(gen, ()):
                for cname, ci in mod.classes.items():
                    if m in ci.methods:
                        continue
                    try:
                        owner, node = ci.resolve(m)
                    except Unavailable:
                        continue
                    if node is None:
                        continue
                    ogen = [g for r, g, _p, _m, _f in self.MODULES if r == owner.mod.relpath]
                    if not ogen:
                        continue
                    src = emitted_by_fn.get((ogen[0], "%s.%s" % (owner.name, m)))
                    if src is None:
                        continue
                    oprefix = [p for r, g, p, _m, _f in self.MODULES if r == owner.mod.relpath][0]
                    for dn, suffix in src:
                        an = "gen_%s%s_%s%s" % (prefix, cname, m.strip("_"), suffix)
                        lines.append("(* python: %s:%d %s.%s inherited from %s *)"
                                     % (rel, ci.node.lineno, cname, m, owner.name))
                        lines.append("Definition %s := %s." % (an, dn))
                        lines.append("")
                        defs[an] = dict(defs[dn])
                        defs[an]["file"] = gen
                        defs[an]["alias_of"] = dn
                        defs[an]["python"] = "%s (inherited by %s at %s:%d)" % (
                            defs[dn]["python"], cname, rel, ci.node.lineno)
            files[gen] = "\n".join(lines) + "\n"
        return {"files": files, "order": [g for _r, g, _p, _m, _f in self.MODULES],
                "defs": defs, "functions": functions, "unavailable": unavailable}


def main(argv):
    root = DEFAULT_ROOT
    outdir = None
    args = list(argv[1:])
    while args:
        a = args.pop(0)
        if a == "--root":
            root = args.pop(0)
        elif a == "--out":
            outdir = args.pop(0)
        else:
            print("usage: translate.py [--root DIR] [--out DIR]", file=sys.stderr)
            return 2
    res = Translator(root).translate_all()
    if outdir:
        os.makedirs(outdir, exist_ok=True)
        for g, text in res["files"].items():
            with open(os.path.join(outdir, g + ".v"), "w") as f:
                f.write(text)
    summary = {"definitions": len(res["defs"]), "functions": len(res["functions"]),
               "unavailable": res["unavailable"]}
    print(json.dumps(summary, indent=1))
    return 0


if __name__ == "__main__":
    sys.exit(main(sys.argv))
