"""runner.py — executes slices (generators + comparators) in worker processes, collects
coverage, shrinks failures, writes replays and evidence, prints the verdict lines."""
from __future__ import annotations
import json, os, sys, time, random, hashlib, multiprocessing as mp, traceback, subprocess, re, fcntl
from pathlib import Path
from common import (Model, ModelError, VERIF, EVIDENCE_DIR, REPLAY_DIR, CORPUS_DIR, KNOWN_FINDINGS,
                    derive_seed, CaseTimeout, with_timeout)

CASE_TIMEOUT_S = 15.0     # SIGALRM limit per case (retried once with a five-fold limit)


class Finding:
    """kind: 'violation' (the implementation breaks the property on this input) or
    'disagreement' (model and implementation differ on an observable)"""
    def __init__(self, kind, slice_name, case, detail, key=None):
        self.kind, self.slice, self.case, self.detail, self.key = kind, slice_name, case, detail, key

    def to_json(self):
        return {"kind": self.kind, "slice": self.slice, "case": self.case, "detail": self.detail}


class Slice:
    """A family of cases.  Subclasses define:
      name, gen(rng, index, tier) -> case (JSON-able) or None,
      run(case, model) -> (findings: list[(kind, detail)], classes: iterable[str])
      optional: exhaustive(tier) -> iterable of cases (replaces gen), shrink(case) -> candidates,
                nontrivial(classes) -> bool
    """
    name = "slice"
    promote_disagreement = False   # True for 'implementation = proved reference' properties

    def gen(self, rng, index, tier):
        raise NotImplementedError

    def run(self, case, model):
        raise NotImplementedError

    def shrink(self, case):
        return []

    def nontrivial(self, classes):
        return True

    def corpus_cases(self):
        return []


def _case_key(case) -> str:
    return hashlib.sha256(json.dumps(case, sort_keys=True, default=str).encode()).hexdigest()[:16]


def _run_case(sl, case, model, timeout=None):
    timeout = timeout or getattr(sl, "case_timeout", CASE_TIMEOUT_S)
    try:
        return with_timeout(timeout, sl.run, case, model)
    except CaseTimeout:
        model.close()
        try:   # one retry with a ten-fold limit before calling it a hang
            return with_timeout(timeout * 3, sl.run, case, model)
        except CaseTimeout:
            model.close()
            return ([("disagreement", "case timed out twice (implementation or model hangs)")], ["timeout"])
    except ModelError as e:
        return ([("disagreement", "model error: " + str(e)[:500])], ["model-error"])


HANG_LIMIT_S = 75.0           # a worker that makes no progress for this long is killed (C-level hangs ignore SIGALRM)


def _worker_proc(sl, seed, items, tier, explicit, q, progress):
    """runs items, streaming one compact record per case through the queue"""
    model = Model()
    timeouts = found = 0
    try:
        for pos, item in enumerate(items):
            progress[0] = pos
            progress[1] = time.time()
            if timeouts >= 3 or found >= 12:
                # evidence enough (three cases that do not terminate, or a dozen failing cases in this worker alone):
                # the rest of this worker's share is skipped so that a violating tree is reported in minutes, not hours
                break
            if explicit:
                case = item
            else:
                rng = random.Random(derive_seed(seed, sl.name, item))
                case = sl.gen(rng, item, tier)
                if case is None:
                    continue
            try:
                findings, classes = _run_case(sl, case, model)
            except Exception as e:   # harness bug: surface loudly, never hide
                findings, classes = [("disagreement", "harness exception: " + "".join(
                    traceback.format_exception(type(e).__name__ and type(e), e, e.__traceback__))[-1500:])], ["harness-exception"]
            classes = list(classes)
            if "timeout" in classes:
                timeouts += 1
            if findings:
                found += 1
            q.put(("case", _case_key(case), bool(sl.nontrivial(classes)), classes,
                   [(k, case, d) for k, d in findings][:3], case if pos < 2 else None))
        q.put(("done",))
    finally:
        model.close()


def _worker(args):
    """in-process variant (procs == 1): same record stream, collected directly"""
    sl, seed, indices, tier, explicit_cases = args
    import queue as _q
    q = _q.Queue()
    items = explicit_cases if explicit_cases is not None else indices
    _worker_proc(sl, seed, items, tier, explicit_cases is not None, q, [0, time.time()])
    res = _empty_res()
    while not q.empty():
        _absorb(res, q.get())
    return res


def _empty_res():
    return {"evals": 0, "keys": set(), "nontrivial_keys": set(), "classes": {}, "findings": [], "samples": []}


def _absorb(res, rec):
    if rec[0] != "case":
        return
    _, key, nontriv, classes, findings, sample = rec
    res["evals"] += 1
    res["keys"].add(key)
    if nontriv:
        res["nontrivial_keys"].add(key)
    for c in classes:
        res["classes"][c] = res["classes"].get(c, 0) + 1
    if sample is not None and len(res["samples"]) < 2:
        res["samples"].append(sample)
    for f in findings:
        if len(res["findings"]) < 40:
            res["findings"].append(f)


def run_slice(sl: Slice, seed: int, n: int, tier: str, procs: int, cases=None):
    """run n generated cases (or the explicit list [cases]) of a slice on [procs] watched processes"""
    explicit = cases is not None
    if explicit:
        chunks = [cases[i::procs] for i in range(procs)]
    else:
        chunks = [list(range(i, n, procs)) for i in range(procs)]
    chunks = [c for c in chunks if c]
    tot = _empty_res()
    if not chunks:
        return tot
    if procs == 1:
        for ch in chunks:
            part = _worker((sl, seed, None if explicit else ch, tier, ch if explicit else None))
            for k in ("evals",):
                tot[k] += part[k]
            tot["keys"] |= part["keys"]; tot["nontrivial_keys"] |= part["nontrivial_keys"]
            for c, v in part["classes"].items():
                tot["classes"][c] = tot["classes"].get(c, 0) + v
            tot["findings"].extend(part["findings"]); tot["samples"].extend(part["samples"][:1])
        return tot
    ctx = mp.get_context("fork")
    q = ctx.Queue()
    workers = []          # [process, progress array, items]

    def spawn(items):
        prog = ctx.Array("d", [0.0, time.time()], lock=False)
        p = ctx.Process(target=_worker_proc, args=(sl, seed, items, tier, explicit, q, prog), daemon=True)
        p.start()
        workers.append([p, prog, items])

    for ch in chunks:
        spawn(ch)
    done = 0
    total = len(chunks)
    import queue as _queue
    while done < total:
        try:
            rec = q.get(timeout=1.0)
            if rec[0] == "done":
                done += 1
            else:
                _absorb(tot, rec)
            continue
        except _queue.Empty:
            pass
        now = time.time()
        for w in list(workers):
            p, prog, items = w
            if not p.is_alive():
                if p.exitcode not in (0, None):
                    # crashed (segfault / killed): blame the case in progress, continue with the rest
                    pos = int(prog[0])
                    workers.remove(w)
                    bad = items[pos] if pos < len(items) else None
                    case = bad if explicit else {"generated_index": bad}
                    tot["findings"].append(("violation" if getattr(sl, "hang_is_violation", False) else "disagreement", case,
                                            f"worker process died (exit {p.exitcode}) while running this case"))
                    rest = items[pos + 1:]
                    if rest:
                        spawn(rest)
                    else:
                        done += 1
                continue
            if now - prog[1] > max(HANG_LIMIT_S, 5 * getattr(sl, "case_timeout", 0)):
                pos = int(prog[0])
                p.terminate()
                p.join(5)
                if p.is_alive():
                    p.kill()
                workers.remove(w)
                bad = items[pos] if pos < len(items) else None
                if explicit:
                    case = bad
                else:
                    rng = random.Random(derive_seed(seed, sl.name, bad))
                    try:
                        case = sl.gen(rng, bad, tier)
                    except Exception:
                        case = {"generated_index": bad}
                tot["evals"] += 1
                tot["classes"]["hang"] = tot["classes"].get("hang", 0) + 1
                tot["findings"].append(("violation" if getattr(sl, "hang_is_violation", False) else "disagreement", case,
                                        f"case did not terminate within {HANG_LIMIT_S:.0f} s and could not be interrupted (killed by the watchdog)"))
                rest = items[pos + 1:]
                if tot["classes"]["hang"] >= 2:
                    # two cases that cannot be interrupted are evidence enough: stop this slice
                    for p2, _, _ in workers:
                        p2.terminate()
                    workers.clear()
                    tot["classes"]["stopped-after-hangs"] = 1
                    return tot
                if rest:
                    spawn(rest)
                else:
                    done += 1
    for p, _, _ in workers:
        p.join(2)
    return tot


def shrink_case(sl: Slice, case, kind, model, budget=300):
    """greedy delta debugging: keep any candidate that still produces a finding of the same kind"""
    cur = case
    steps = 0
    improved = True
    while improved and steps < budget:
        improved = False
        for cand in sl.shrink(cur):
            steps += 1
            if steps >= budget:
                break
            try:
                findings, _ = _run_case(sl, cand, model, timeout=10.0)
            except Exception:
                continue
            if any(k == kind for k, _ in findings):
                cur = cand
                improved = True
                break
    return cur


# --------------------------------------------------------------------------- proof leg

COQ_DIR = VERIF / "coq"
GATE_RE = re.compile(r"\b(Admitted|admit|Axiom|Parameter|Conjecture|Unset Guard|bypass_check|type-in-type|"
                     r"impredicative-set|Admit Obligations|Unset Positivity|Unset Universe)\b")


def build_leg():
    """make sure the Coq development and the extracted driver are built (serialised by flock)"""
    lock = open(VERIF / ".build.lock", "w")
    fcntl.flock(lock, fcntl.LOCK_EX)
    try:
        r = subprocess.run(["/bin/sh", str(VERIF / "build.sh")], capture_output=True, text=True, timeout=7200)
        return r.returncode == 0, (r.stdout + r.stderr)[-4000:]
    finally:
        fcntl.flock(lock, fcntl.LOCK_UN)
        lock.close()


# Statement files whose theorems are ABOUT real numbers may depend on the axioms the standard library itself declares for
# its real numbers (and nothing else); every name is listed in the trusted base (DESIGN section 8, T0a).  All other
# statement files must be closed under the global context.
_REAL_AXIOMS = {"ClassicalDedekindReals.sig_not_dec", "ClassicalDedekindReals.sig_forall_dec",
                "FunctionalExtensionality.functional_extensionality_dep", "Classical_Prop.classic"}
STDLIB_AXIOMS_ALLOWED = {
    "C01FloatDiv": _REAL_AXIOMS,        # int(a / b) of DIV/REM = Z.quot / Z.rem
    "C17FloatCeil": _REAL_AXIOMS,       # math.ceil(n / g) of the formatter = exact integer ceiling
}


def axioms_in_print_assumptions(txt: str):
    """names listed under every `Axioms:` block of a captured Print Assumptions output"""
    names, inside = [], False
    for ln in txt.splitlines():
        if ln.startswith("Axioms:"):
            inside = True
            continue
        if inside:
            if not ln.strip() or ln.startswith("Closed under") or re.match(r"^(Section Variables|Opaque|Transparent|Theory)\b", ln):
                inside = False
                continue
            m = re.match(r"^([A-Za-z_][\w.']*)\s*(?::|$)", ln)
            if m and not ln.startswith(" "):
                names.append(m.group(1))
    return names


def proof_leg(prop: str):
    """facts about Props/<prop>*.v (e.g. C02.v and C02Refine.v): theorem count, compiled, gate, Print Assumptions output"""
    pdir = COQ_DIR / "theories" / "Props"
    listed_lines = {ln.strip() for ln in (COQ_DIR / "_CoqProject").read_text().splitlines() if not ln.strip().startswith("#")}
    # Props/<prop>.v itself is mandatory; further statement files Props/<prop><Suffix>.v count once they are part of the
    # build (files lying in the directory that _CoqProject does not list are work in progress, not the development)
    files = sorted(f for f in pdir.glob(f"{prop}*.v") if re.fullmatch(prop + r"[A-Za-z]*", f.stem)
                   and (f.stem == prop or f"theories/Props/{f.name}" in listed_lines))
    info = {"file": ", ".join(str(f) for f in files) or str(pdir / f"{prop}.v"), "obligations": 0, "discharged": 0, "gate_hits": [],
            "assumptions": "", "theorems": [], "ok": False, "problems": []}
    if not files:
        info["problems"].append("property theorem file missing")
        return info
    listed = (COQ_DIR / "_CoqProject").read_text()
    compiled = True
    closed = 0
    for pf in files:
        src = pf.read_text()
        nocom = re.sub(r"\(\*.*?\*\)", "", src, flags=re.S)      # strip comments before counting / gating
        thms = re.findall(r"^\s*(?:Theorem|Corollary)\s+(\w+)", nocom, flags=re.M)
        info["theorems"] += thms
        if f"theories/Props/{pf.name}" not in listed:
            info["problems"].append(f"{pf.name} is not part of the build (_CoqProject)")
        vo = pf.with_suffix(".vo")
        if not (vo.exists() and vo.stat().st_mtime >= pf.stat().st_mtime):
            compiled = False
            info["problems"].append(f"{pf.name} not compiled (proof leg broken)")
        af = COQ_DIR / "assumptions" / f"{pf.stem}.txt"
        if af.exists():
            txt = af.read_text()
            info["assumptions"] += f"--- {pf.name}\n" + txt
            closed += txt.count("Closed under the global context")
            allowed = STDLIB_AXIOMS_ALLOWED.get(pf.stem, set())
            used = axioms_in_print_assumptions(txt)
            bad = [a for a in used if a not in allowed]
            if allowed:
                closed += len(re.findall(r"^Axioms:", txt, flags=re.M))     # theorems resting on allowed stdlib axioms only
                info.setdefault("stdlib_axioms_used", sorted(set(used) & allowed))
            if bad or "Admitted" in txt or ("Axioms:" in txt and not allowed):
                info["problems"].append(f"{pf.name}: Print Assumptions reports axioms" + (": " + ", ".join(sorted(set(bad))[:6]) if bad else ""))
        else:
            info["problems"].append(f"Print Assumptions capture missing for {pf.name}")
    info["obligations"] = len(info["theorems"])
    info["closed_theorems"] = closed
    # gate over the whole development
    # (the files of the build, i.e. those listed in _CoqProject, plus any unlisted file a listed file
    #  Requires; other files lying around in theories/ — work in progress — are not part of the development)
    allv = sorted((COQ_DIR / "theories").rglob("*.v"))
    texts = {}
    for f in allv:
        try:
            texts[f] = re.sub(r"\(\*.*?\*\)", "", f.read_text(), flags=re.S)
        except OSError:
            texts[f] = ""
    listed_set = {ln.strip() for ln in listed.splitlines() if ln.strip().endswith(".v") and not ln.strip().startswith("#")}
    in_build = [f for f in allv if str(f.relative_to(COQ_DIR)) in listed_set]
    requires = " ".join(" ".join(re.findall(r"Require[^.]*(?:\.[A-Za-z_][^.]*)*\.\s", texts[f] + " ")) for f in in_build)
    for f in allv:
        if f in in_build:
            continue
        if re.search(r"\b" + re.escape(f.stem) + r"\b", requires):
            in_build.append(f)
            info["problems"].append(f"{f.name} is required by the build but not listed in _CoqProject")
    for f in in_build:
        for m in GATE_RE.finditer(texts[f]):
            info["gate_hits"].append(f"{f.name}:{m.group(1)}")
    if info["gate_hits"]:
        info["problems"].append("forbidden construct: " + ", ".join(info["gate_hits"][:5]))
    info["discharged"] = info["obligations"] if compiled and not info["gate_hits"] else 0
    info["ok"] = not info["problems"] and info["obligations"] > 0
    return info


def coqchk_leg(prop: str, timeout=10800):
    """independent re-check of the property's compiled closure with coqchk (thorough tier)"""
    try:
        listed_lines = {ln.strip() for ln in (COQ_DIR / "_CoqProject").read_text().splitlines() if not ln.strip().startswith("#")}
        mods = [f"ArchSim.Props.{f.stem}" for f in sorted((COQ_DIR / "theories" / "Props").glob(f"{prop}*.v"))
                if re.fullmatch(prop + r"[A-Za-z]*", f.stem) and (f.stem == prop or f"theories/Props/{f.name}" in listed_lines)]
        r = subprocess.run(["coqchk", "-silent", "-o", "-Q", "theories", "ArchSim"] + mods,
                           cwd=str(COQ_DIR), capture_output=True, text=True, timeout=timeout)
        out = (r.stdout + r.stderr)
        tail = out[-1500:]
        flat = out.replace("\n", " ")
        allowed = set().union(*[STDLIB_AXIOMS_ALLOWED.get(m.rsplit(".", 1)[1], set()) for m in mods]) if mods else set()
        listed_ax = []
        m_ax = re.search(r"\* Axioms:(.*?)\n\s*\n\* ", out, flags=re.S)
        if m_ax and "<none>" not in m_ax.group(1):
            listed_ax = m_ax.group(1).split()
        # coqchk prints fully qualified names (Coq.Reals.ClassicalDedekindReals.sig_not_dec)
        bad = [a for a in listed_ax if not any(a.endswith("." + b) or a == b for b in allowed)]
        ok = r.returncode == 0 and ("Axioms: <none>" in flat or (bool(listed_ax) and not bad))
        return {"ran": True, "ok": ok, "exit": r.returncode, "summary": tail, "axioms_listed": listed_ax, "axioms_not_allowed": bad}
    except subprocess.TimeoutExpired:
        return {"ran": True, "ok": False, "exit": None, "summary": "coqchk timed out"}
    except FileNotFoundError:
        return {"ran": False, "ok": True, "summary": "coqchk not installed"}


# --------------------------------------------------------------------------- verdicts

def load_known():
    if KNOWN_FINDINGS.exists():
        return json.loads(KNOWN_FINDINGS.read_text())
    return []


def write_replay(prop, payload):
    REPLAY_DIR.mkdir(exist_ok=True)
    h = hashlib.sha256(json.dumps(payload, sort_keys=True, default=str).encode()).hexdigest()[:12]
    p = REPLAY_DIR / f"{prop}-{h}.json"
    p.write_text(json.dumps(payload, indent=1, default=str))
    return p
