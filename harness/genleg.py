#!/venv/bin/python
"""genleg.py -- the "generated definitions" leg (DESIGN.md section 4.2, secondary tie).

run_gen_leg():
  (a) runs harness/translate.py on the CURRENT source tree (default /repo);
  (b) when the generated Coq text, a lemma file, or one of the model files the lemmas mention changed
      since the last run (or compiled files are missing) recompiles coq/gen/Gen*.v and then EVERY
      coq/geneq/*.v lemma file whose generated definitions are available (parallel, `xargs -P16`,
      every coqc under `timeout 120`);
  (c) returns / writes coq/gen/status.json:
        translated, unavailable, obligations, discharged, failed[...], changed, wall_s (+ extras).

A function whose translation became unavailable is a loss of strength (listed under "unavailable",
its lemma files under "skipped"), never a failure.  A lemma file that no longer compiles against the
regenerated definitions IS a failed obligation.  Gate: no Axiom/Parameter/Admitted/admit in gen/ or
geneq/, and every lemma's `Print Assumptions` must say "Closed under the global context".
"""
from __future__ import annotations

import fcntl
import hashlib
import json
import os
import re
import shutil
import subprocess
import sys
import time

HERE = os.path.dirname(os.path.abspath(__file__))
if HERE not in sys.path:
    sys.path.insert(0, HERE)
import translate  # noqa: E402

VERIF = os.path.dirname(HERE)
COQ = os.path.join(VERIF, "coq")
THEORIES = os.path.join(COQ, "theories")
GEN_DIR = os.path.join(COQ, "gen")
GENEQ_DIR = os.path.join(COQ, "geneq")
LOCK = os.path.join(VERIF, ".gen.lock")
COMMON = "GenEqTac"
JOBS = 16
TIMEOUT = 120
# model files the generated definitions / lemmas depend on (their text is part of the cache key)
MODEL_DEPS = ["Model/Base.v", "Model/Mem.v", "Model/Cache.v", "Model/Fmt.v", "Model/RV.v",
              "Model/RVSplit.v", "Model/Toy.v"]
GATE_RE = re.compile(r"\b(Axiom|Axioms|Parameter|Parameters|Admitted|admit|Conjecture|Hypothesis|Variable|"
                     r"bypass_check|Unset\s+Guard|Unset\s+Positivity|Unset\s+Universe|type-in-type)\b")
HDR_RE = re.compile(r"\(\*\s*GENEQ\s+lemma=(\S+)\s+requires=(\S+)\s+properties=(\S+)\s*\*\)")


def _strip_comments(text):
    out, depth, i = [], 0, 0
    while i < len(text):
        if text.startswith("(*", i):
            depth += 1
            i += 2
        elif text.startswith("*)", i) and depth:
            depth -= 1
            i += 2
        else:
            if not depth:
                out.append(text[i])
            i += 1
    return "".join(out)


def _read(p):
    with open(p, "r", encoding="utf-8") as f:
        return f.read()


def _coq_args(gen_dir, geneq_dir):
    return ["-q", "-w", "-notation-overridden,-deprecated-hint-without-locality",
            "-Q", THEORIES, "ArchSim", "-Q", gen_dir, "ArchSimGen", "-Q", geneq_dir, "ArchSimGenEq"]


def _compile_many(paths, gen_dir, geneq_dir, logdir):
    """compile the given .v files in parallel; -> {path: (rc, log text)}"""
    if not paths:
        return {}
    os.makedirs(logdir, exist_ok=True)
    args = " ".join("'%s'" % a for a in _coq_args(gen_dir, geneq_dir))
    script = ('f="$1"; b=$(basename "$f" .v); '
              'timeout %d coqc %s "$f" > "%s/$b.log" 2>&1; echo $? > "%s/$b.rc"'
              % (TIMEOUT, args, logdir, logdir))
    p = subprocess.run(["xargs", "-0", "-n", "1", "-P", str(JOBS), "sh", "-c", script, "sh"],
                       input="\0".join(paths).encode(), stdout=subprocess.DEVNULL, stderr=subprocess.DEVNULL,
                       cwd=gen_dir)
    del p
    out = {}
    for f in paths:
        b = os.path.basename(f)[:-2]
        try:
            rc = int(_read(os.path.join(logdir, b + ".rc")).strip() or "1")
        except (OSError, ValueError):
            rc = 1
        try:
            log = _read(os.path.join(logdir, b + ".log"))
        except OSError:
            log = ""
        out[f] = (rc, log)
    return out


def _lemma_files(geneq_dir):
    res = []
    for fn in sorted(os.listdir(geneq_dir)):
        if not fn.endswith(".v") or fn == COMMON + ".v":
            continue
        path = os.path.join(geneq_dir, fn)
        text = _read(path)
        m = HDR_RE.search(text)
        if not m:
            res.append({"file": fn, "path": path, "text": text, "lemma": fn[:-2], "requires": [],
                        "properties": [], "bad_header": True})
            continue
        res.append({"file": fn, "path": path, "text": text, "lemma": m.group(1),
                    "requires": [x for x in m.group(2).split(",") if x],
                    "properties": [x for x in m.group(3).split(",") if x]})
    return res


def _vo(path):
    return path[:-2] + ".vo"


def run_gen_leg(root=translate.DEFAULT_ROOT, gen_dir=GEN_DIR, geneq_dir=GENEQ_DIR, force=False):
    t0 = time.time()
    os.makedirs(gen_dir, exist_ok=True)
    lock_path = LOCK if os.path.abspath(gen_dir) == GEN_DIR else os.path.join(gen_dir, ".gen.lock")
    with open(lock_path, "w") as lk:
        fcntl.flock(lk, fcntl.LOCK_EX)
        try:
            return _run(root, gen_dir, geneq_dir, force, t0)
        finally:
            fcntl.flock(lk, fcntl.LOCK_UN)


def _run(root, gen_dir, geneq_dir, force, t0):
    tr = translate.Translator(root).translate_all()
    defs = tr["defs"]
    lemmas = _lemma_files(geneq_dir)
    common_path = os.path.join(geneq_dir, COMMON + ".v")

    # ---- cache key
    h = hashlib.sha256()
    for g in tr["order"]:
        h.update(g.encode() + b"\0" + tr["files"][g].encode() + b"\0")
    h.update(_read(common_path).encode())
    for lf in lemmas:
        h.update(lf["file"].encode() + b"\0" + lf["text"].encode() + b"\0")
    for d in MODEL_DEPS:
        p = os.path.join(THEORIES, d)
        h.update(d.encode() + b"\0" + _read(p).encode() + b"\0")
        try:
            st = os.stat(p[:-2] + ".vo")
            h.update(("%d:%d" % (st.st_size, st.st_mtime_ns)).encode())
        except OSError:
            h.update(b"missing")
    key = h.hexdigest()

    status_path = os.path.join(gen_dir, "status.json")
    not_built = [d for d in MODEL_DEPS if not os.path.isfile(os.path.join(THEORIES, d[:-2] + ".vo"))]
    if not_built:
        # nothing can be checked against a model that is not compiled; this is a build problem, not a
        # broken obligation
        status = {"translated": [f["name"] for f in tr["functions"]],
                  "unavailable": [{"name": u["name"], "reason": u["reason"]} for u in tr["unavailable"]],
                  "obligations": 0, "discharged": 0, "failed": [], "changed": True,
                  "wall_s": round(time.time() - t0, 3), "skipped": [], "gate": [],
                  "error": "model not built: missing .vo for " + ", ".join(not_built)}
        return status
    old = None
    try:
        old = json.loads(_read(status_path))
    except (OSError, ValueError):
        pass
    if old and not force and old.get("key") == key and old.get("root") == os.path.abspath(root):
        need = [os.path.join(gen_dir, g + ".vo") for g in tr["order"]]
        need += [os.path.join(geneq_dir, f[:-2] + ".vo") for f in old.get("discharged_files", [])]
        need.append(_vo(common_path))
        if all(os.path.isfile(p) for p in need):
            old["changed"] = False
            old["wall_s"] = round(time.time() - t0, 3)
            with open(status_path + ".tmp", "w") as f:
                json.dump(old, f, indent=1)
            os.replace(status_path + ".tmp", status_path)
            return old

    # ---- (re)generate and compile the generated files
    logdir = os.path.join(gen_dir, "logs")
    shutil.rmtree(logdir, ignore_errors=True)
    os.makedirs(logdir, exist_ok=True)
    for fn in os.listdir(gen_dir):
        if fn.endswith((".vo", ".vok", ".vos", ".glob")) or (fn.endswith(".v") and fn[:-2] not in tr["files"]):
            os.unlink(os.path.join(gen_dir, fn))
    for g, text in tr["files"].items():
        p = os.path.join(gen_dir, g + ".v")
        with open(p, "w") as f:
            f.write(text)
    for fn in os.listdir(geneq_dir):
        if fn.endswith((".vo", ".vok", ".vos", ".glob")) or (fn.startswith(".") and fn.endswith(".aux")):
            os.unlink(os.path.join(geneq_dir, fn))
    gen_fail = {}
    # dependency order: files imported by another generated file first
    first = sorted({i for imps in translate.Translator.IMPORTS.values() for i in imps})
    rest = [g for g in tr["order"] if g not in first]
    for batch in (first, rest):
        r = _compile_many([os.path.join(gen_dir, g + ".v") for g in batch], gen_dir, geneq_dir, logdir)
        for p, (rc, log) in r.items():
            if rc != 0:
                gen_fail[os.path.basename(p)[:-2]] = log[-1500:]
    r = _compile_many([common_path], gen_dir, geneq_dir, logdir)
    common_rc, common_log = r[common_path]

    # ---- gate on the sources
    gate = []
    for g in tr["order"]:
        m = GATE_RE.search(_strip_comments(tr["files"][g]))
        if m:
            gate.append({"file": "gen/%s.v" % g, "token": m.group(1)})
    m = GATE_RE.search(_strip_comments(_read(common_path)))
    if m:
        gate.append({"file": "geneq/%s.v" % COMMON, "token": m.group(1)})

    # ---- obligations
    obligations, skipped = [], []
    for lf in lemmas:
        missing = [d for d in lf["requires"] if d not in defs]
        if lf.get("bad_header"):
            obligations.append(lf)
        elif missing:
            skipped.append({"lemma": lf["lemma"], "file": "geneq/" + lf["file"], "missing": missing,
                            "properties": lf["properties"]})
        else:
            obligations.append(lf)
    results = _compile_many([lf["path"] for lf in obligations], gen_dir, geneq_dir, logdir) \
        if common_rc == 0 else {}
    failed, discharged_files = [], []
    for lf in obligations:
        rc, log = results.get(lf["path"], (1, "common tactic file failed:\n" + common_log))
        why = None
        if lf.get("bad_header"):
            why = "lemma file without a GENEQ header"
        gm = GATE_RE.search(_strip_comments(lf["text"]))
        if gm:
            why = "gate: forbidden token %s" % gm.group(1)
            gate.append({"file": "geneq/" + lf["file"], "token": gm.group(1)})
        if why is None and rc != 0:
            why = "timeout after %ds" % TIMEOUT if rc == 124 else "coqc exit %d" % rc
        if why is None and not os.path.isfile(_vo(lf["path"])):
            why = "no .vo produced"
        if why is None and "Closed under the global context" not in log:
            why = "Print Assumptions is not closed (or missing)"
        if why is None:
            discharged_files.append(lf["file"])
            continue
        pys = []
        for d in lf["requires"]:
            if d in defs and defs[d]["python"] not in pys:
                pys.append(defs[d]["python"])
        used_gen = sorted({defs[d]["file"] for d in lf["requires"] if d in defs})
        tail = log[-1500:]
        for g in used_gen:
            if g in gen_fail:
                tail = "generated file %s.v does not compile:\n%s" % (g, gen_fail[g])
        failed.append({"lemma": lf["lemma"], "file": "geneq/" + lf["file"], "python": "; ".join(pys),
                       "properties": lf["properties"], "reason": why, "log_tail": tail})

    claimed = {d for lf in lemmas for d in lf["requires"]}
    status = {
        "translated": [f["name"] for f in tr["functions"]],
        "unavailable": [{"name": u["name"], "reason": u["reason"]} for u in tr["unavailable"]],
        "obligations": len(obligations),
        "discharged": len(discharged_files),
        "failed": failed,
        "changed": True,
        "wall_s": 0.0,
        # extras
        "definitions": len(defs),
        "skipped": skipped,
        "unclaimed": sorted(d for d in defs if d not in claimed),
        "gate": gate,
        "gen_compile_errors": gen_fail,
        "discharged_files": discharged_files,
        "root": os.path.abspath(root),
        "key": key,
    }
    status["wall_s"] = round(time.time() - t0, 3)
    with open(status_path + ".tmp", "w") as f:
        json.dump(status, f, indent=1)
    os.replace(status_path + ".tmp", status_path)
    return status


def main(argv):
    root, force = translate.DEFAULT_ROOT, False
    args = list(argv[1:])
    while args:
        a = args.pop(0)
        if a == "--root":
            root = args.pop(0)
        elif a == "--force":
            force = True
        else:
            print("usage: genleg.py [--root DIR] [--force]", file=sys.stderr)
            return 2
    st = run_gen_leg(root=root, force=force)
    brief = {k: st[k] for k in ("obligations", "discharged", "changed", "wall_s", "definitions")}
    brief["translated"] = len(st["translated"])
    brief["unavailable"] = st["unavailable"]
    brief["skipped"] = st["skipped"]
    brief["failed"] = [{k: f[k] for k in ("lemma", "file", "python", "properties", "reason")} for f in st["failed"]]
    brief["gate"] = st["gate"]
    print(json.dumps(brief, indent=1))
    for f in st["failed"]:
        print("---- %s\n%s" % (f["file"], f["log_tail"]))
    return 1 if st["failed"] or st["gate"] else 0


if __name__ == "__main__":
    sys.exit(main(sys.argv))
