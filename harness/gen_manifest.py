"""gen_manifest.py — writes /verif/MANIFEST.json from the table below (kept in one place so the
manifest stays valid while properties are added)."""
import json, sys
from pathlib import Path

BASELINE = "cd /repo && /venv/bin/python -m pytest -ra -q -p no:cacheprovider --timeout=900 --continue-on-collection-errors"

# property -> (level text, level note, technique, design ref)
CLAIMED = {}
NOT_YET = {}

def load():
    import importlib.util
    spec = importlib.util.spec_from_file_location("claims", Path(__file__).parent / "claims.py")
    m = importlib.util.module_from_spec(spec); spec.loader.exec_module(m)
    return m.CLAIMED, m.NOT_APPLICABLE

def main():
    claimed, na = load()
    checks = []
    for pid in sorted(claimed):
        c = claimed[pid]
        checks.append({
            "property_id": pid,
            "quick_cmd": f"./check {pid}",
            "thorough_cmd": f"./check {pid} --thorough",
            "evidence_file": f"/verif/evidence/{pid}.json",
            "replay_cmd_template": f"./check {pid} --replay {{path}}",
            "engine": "coq-model+correspondence",
            "level_claimed": {"category": "proof", "text": c["text"], "design_ref": c.get("design_ref", "DESIGN.md section 7")},
            "level_note": c["note"],
            "technique": c["technique"],
        })
    man = {
        "version": 1,
        "setup_cmd": "/bin/sh /verif/build.sh",
        "hooks": {"guard": "ARCHSIM_VERIF", "enable": "none needed: every observable is reachable by plain attribute access from the harness",
                  "baseline_off_cmd": BASELINE, "source_commits": [], "add_only": True},
        "engines": [
            {"name": "coq-model", "path": "/verif/coq", "serves_properties": sorted(claimed),
             "kind_free_text": "hand-written executable Gallina model of the simulator + theorems (Coq 8.16.1), extracted to OCaml"},
            {"name": "correspondence-harness", "path": "/verif/harness", "serves_properties": sorted(claimed),
             "kind_free_text": "Python differential harness: runs /repo's implementation and the extracted model on generated inputs, plus property-directed searches on the implementation"},
        ],
        "checks": checks,
        "notes": "Every check = (a) Coq build + axiom gate of Props/Cxx.v, (b) correspondence slice model vs /repo, (c) direct property search on /repo. See DESIGN.md.",
        "not_applicable": [{"property_id": p, "reason": r} for p, r in sorted(na.items())],
    }
    Path("/verif/MANIFEST.json").write_text(json.dumps(man, indent=1))

if __name__ == "__main__":
    main()
