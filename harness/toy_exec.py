"""toy_exec.py — runs TOY cases on the implementation and on the model, same observation layout
(the model's [sx_tstate])."""
from __future__ import annotations
from common import first_diff, map_exc

OPS = {"step": 0, "first": 1, "second": 2, "single": 3}


def _opt(v):
    return [] if v is None else [int(v)]


def _codes(s):
    return [ord(c) for c in s]


def make_toy(spec):
    """spec = [size, mem pairs, accu, pc, [loaded word] or [], [max_pc] or []]"""
    import fixedint
    from architecture_simulator.simulation.toy_simulation import ToySimulation
    from architecture_simulator.isa.toy.toy_instructions import ToyInstruction
    from architecture_simulator.util.fixedint_12 import UInt12
    size, mem, accu, pc, loaded, maxpc = spec
    sim = ToySimulation(unified_memory_size=size)
    st = sim.state
    for a, v in mem:
        st.memory.memory_file[a] = fixedint.UInt16(v)
    st.accu = fixedint.UInt16(accu)
    st.program_counter = UInt12(pc)
    st.loaded_instruction = ToyInstruction.from_integer(loaded[0]) if loaded else None
    st.max_pc = maxpc[0] if maxpc else None
    return sim


def obs_toy(sim, getters=True):
    st = sim.state
    v = st.visualisation_values
    pm = st.performance_metrics
    li = st.loaded_instruction
    o = [
        int(st.program_counter), int(st.accu),
        sorted([a, int(x)] for a, x in st.memory.memory_file.items()),
        [] if li is None else [[li.opcode, li.address]],
        _opt(st.max_pc), _opt(st.address_of_current_instruction), int(st.address_of_next_instruction),
        [_opt(v.accu_old), _opt(v.alu_out), 1 if v.jump else 0, _opt(v.ram_out), _opt(v.op_code_old), _opt(v.pc_old)],
        [pm.instruction_count, pm.cycles, pm.branch_count],
        sim.next_cycle, 1 if sim.has_started else 0,
        1 if sim.is_done() else 0, 1 if sim.has_instructions() else 0,
    ]
    if getters:
        rr = sim.get_register_representations()
        o.append([[_codes(x) for x in rr[k]] for k in ("accu", "pc", "ir")])
        try:
            rows = sim.get_memory_table_entries()
            o.append([0, [[a[0], _codes(a[1]), [_codes(x) for x in vals], _codes(ir), _codes(cyc)]
                          for a, vals, ir, cyc in rows]])
        except Exception as e:
            o.append([1, map_exc(e)])
    return o


def apply_impl(sim, op):
    """returns the outcome record in the model's layout"""
    from architecture_simulator.simulation.runtime_errors import StepSequenceError
    from architecture_simulator.uarch.memory.memory import MemoryAddressError
    try:
        if op == 0:
            r = sim.step()
            return [[0], 1 if r else 0]
        if op == 1:
            sim.first_cycle_step(); return [[0]]
        if op == 2:
            sim.second_cycle_step(); return [[0]]
        if op == 3:
            sim.single_step(); return [[0]]
        if isinstance(op, list) and op[0] == 4:
            # run(): bounded by stepping first on a deep copy is the caller's job; here plain run()
            sim.run()
            return [[0], 1]
        if isinstance(op, list) and op[0] == 5:
            raise NotImplementedError("load ops are applied by the caller")
    except StepSequenceError:
        return [[1]]
    except MemoryAddressError as e:
        return [[2, map_exc(e)]]
    raise ValueError(op)


def impl_toy_trace(spec, ops, getters=True, other=None):
    """other: spec of a second, unrelated live simulation that is stepped between the operations of the
    observed one (simulations are independent objects: it must never influence the trace)"""
    sim = make_toy(spec)
    sim2 = make_toy(other) if other else None
    out = [[[], obs_toy(sim, getters)]]
    for op in ops:
        if sim2 is not None:
            try:
                if not sim2.is_done():
                    sim2.step()
                sim2.get_register_representations()
            except Exception:
                pass
        try:
            o = apply_impl(sim, op)
        except Exception as e:      # foreign exception
            out.append([[9, type(e).__name__ + ": " + str(e)[:200]], obs_toy(sim, getters)])
            return out
        out.append([o, obs_toy(sim, getters)])
    return out


def norm_model_toy(tr, getters=True):
    """model trace -> comparable form"""
    out = []
    for o, st in tr:
        st = list(st)
        if not getters:
            st = st[:13]
        # outcome: drop the continue flag when an error was raised (Python returns nothing then)
        if o and o[0] and o[0][0] != 0:
            o = [o[0]]
        out.append([o, st])
    return out


def compare_toy(it, mt, fields=None):
    n = min(len(it), len(mt))
    for k in range(n):
        a, b = it[k], mt[k]
        if a[0] and a[0][0] == 9:
            return f"op {k}: foreign exception {a[0][1]}"
        d = first_diff(a[0], b[0], f"op{k}.outcome")
        if d:
            return d
        sa, sb = list(a[1]), list(b[1])
        # explicit zero cells are a representation detail of the memory dict
        if len(sa) > 2 and len(sb) > 2:
            sa[2] = [c for c in sa[2] if c[1] != 0]
            sb[2] = [c for c in sb[2] if c[1] != 0]
        if fields is not None:
            sa = [sa[i] for i in fields if i < len(sa)]
            sb = [sb[i] for i in fields if i < len(sb)]
        d = first_diff(sa, sb, f"op{k}.state")
        if d:
            return d
    if len(it) != len(mt):
        return f"trace lengths differ: impl {len(it)} model {len(mt)}"
    return None


# ----------------------------------------------------------------------------- generators

def enc(op, addr):
    return ((op & 15) << 12) | (addr & 4095)


B16 = [0, 1, 2, 0x7FFF, 0x8000, 0xFFFF, 0xFFFE, 0x00FF, 0xFF00, 0x1000, 0x0FFF]


def rnd16(rng):
    return rng.choice(B16) if rng.random() < 0.5 else rng.getrandbits(16)


def gen_revisit_image(rng):
    """directed family: an instruction at address k is executed, then overwritten by a store, then
    executed again (k is the LAST program address half of the time, else anywhere)"""
    pre = rng.randrange(0, 3)                 # padding NOP-like instructions in front
    n_mid = rng.randrange(0, 3)
    w_new = rng.choice([enc(9, 0), enc(10, 0), enc(8, 0), enc(12, 0), enc(11, 0), enc(3, 4000), rng.getrandbits(16)])
    data_w = 3000 + rng.randrange(0, 50)
    prog = []
    prog += [enc(12, 0)] * pre
    a_jump = len(prog)
    prog.append(None)                          # BRZ k   (acc == 0 initially)
    a_mod = len(prog)
    prog.append(enc(1, data_w))                # LDA w_new
    prog.append(None)                          # STO k
    prog += [enc(rng.choice([9, 12, 8]), 0) for _ in range(n_mid)]
    k = len(prog)
    prog.append(enc(2, a_mod))                 # k: BRZ a_mod   (taken the first time)
    tail = 0 if rng.random() < 0.5 else rng.randrange(1, 3)
    prog += [enc(rng.choice([9, 10, 12]), 0) for _ in range(tail)]
    prog[a_jump] = enc(2, k)
    prog[a_mod + 1] = enc(0, k)
    mem = {i: w for i, w in enumerate(prog)}
    mem[data_w] = w_new
    return [4096, sorted([a, v] for a, v in mem.items()), 0, 1, [mem[0]], [len(prog) - 1]]


def gen_toy_image(rng, maxlen=12, selfmod=True):
    """a memory image with a program at 0.. and a few data cells; returns spec"""
    if selfmod and rng.random() < 0.2:
        return gen_revisit_image(rng)
    n = rng.randrange(1, maxlen + 1)
    mem = {}
    data_addrs = [rng.choice([n, n + 1, 100, 4094, 4095, rng.randrange(0, 4096)]) for _ in range(4)]
    for a in data_addrs:
        mem[a] = rnd16(rng)
    for i in range(n):
        r = rng.random()
        if r < 0.2 and selfmod:
            # store into own / next / previous / later code cell
            tgt = rng.choice([i, i + 1, max(0, i - 1), rng.randrange(0, n + 1)])
            w = enc(0, tgt)
        elif r < 0.35:
            w = enc(2, rng.choice([0, i, i + 1, i + 2, n, n + 1, 4095, rng.randrange(0, n + 2)]))
        elif r < 0.75:
            w = enc(rng.choice([1, 3, 4, 5, 6, 7]), rng.choice(data_addrs + [rng.randrange(0, n + 1)]))
        elif r < 0.95:
            w = enc(rng.choice([8, 9, 10, 11, 12]), rng.choice([0, 0, rng.randrange(4096)]))
        else:
            w = rng.getrandbits(16)        # any word, incl. opcodes 13-15
        mem[i] = w
    maxpc = n - 1
    if rng.random() < 0.1:
        maxpc = rng.choice([4095, 4094, n, 0])
    accu = rnd16(rng)
    return [4096, sorted([a, v] for a, v in mem.items()), accu, 1, [mem[0]], [maxpc]]
