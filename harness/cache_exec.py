"""cache_exec.py — data-cache histories on the implementation, on the model (op 50) and against
reference definitions (flat byte store for C03/C12, tag-only reference cache for C09).
Findings are tagged with the property they concern; props/c03.py, c09.py, c12.py filter by tag."""
from __future__ import annotations
from common import map_exc, first_diff

DATA = 0x4000


def make_dcache(cfg, preload):
    import fixedint
    from architecture_simulator.uarch.memory.memory import Memory, AddressingType
    from architecture_simulator.uarch.memory.write_back_memory_system import WriteBackMemorySystem
    from architecture_simulator.uarch.memory.write_through_memory_system import WriteThroughMemorySystem
    from architecture_simulator.uarch.riscv.riscv_performance_metrics import RiscvPerformanceMetrics
    pm = RiscvPerformanceMetrics()
    mem = Memory(AddressingType.BYTE, 32, True, range(2 ** 14, 2 ** 32))
    for a, v in preload:
        mem.memory_file[a] = fixedint.UInt8(v)
    cls = WriteThroughMemorySystem if cfg[4] else WriteBackMemorySystem
    ms = cls(mem, cfg[0], cfg[1], cfg[2], pm, cfg[5], "plru" if cfg[3] else "lru")
    return ms, mem, pm


def directory(ms):
    sets = []
    for s in ms.cache.sets:
        blocks = []
        for b in s.blocks:
            if b.valid_bit:
                blocks.append([1, 1 if b.dirty_bit else 0, b.decoded_address.tag,
                               b.decoded_address.block_alinged_address, [int(x) for x in b.values]])
            else:
                blocks.append([0, 1 if b.dirty_bit else 0])
        sets.append([blocks, [int(x) for x in s.replacement_strategy.get_repr()]])
    return [sets, ms.hits, ms.accesses, 1 if ms.last_was_hit else 0]


def lower_of(mem):
    return sorted([a, int(v)] for a, v in mem.memory_file.items())


def logical_bytes(ms, mem):
    """byte view through the cache: resident block bytes override lower memory"""
    d = {a: int(v) for a, v in mem.memory_file.items()}
    res = set()
    for s in ms.cache.sets:
        for b in s.blocks:
            if b.valid_bit:
                base = b.decoded_address.block_alinged_address
                for i, w in enumerate(b.values):
                    for k in range(4):
                        d[base + 4 * i + k] = (int(w) >> (8 * k)) & 255
                        res.add(base + 4 * i + k)
    return {a: v for a, v in d.items() if v != 0}, res


def apply_op(ms, op):
    import fixedint
    rd = {8: ms.read_byte, 16: ms.read_halfword, 32: ms.read_word}
    wr = {8: ms.write_byte, 16: ms.write_halfword, 32: ms.write_word}
    ty = {8: fixedint.UInt8, 16: fixedint.UInt16, 32: fixedint.UInt32}
    try:
        if op[0] == 2:
            ms.reset()
            return []
        if op[0] == 3:
            # inspection: the read-only views the simulation getters use
            ms.wordwise_repr(); ms.cache_repr(); ms.get_cache_stats()
            return []
        if op[0] == 0:
            return [0, int(rd[op[1]](op[2], bool(op[3])))]
        wr[op[1]](op[2], ty[op[1]](op[3]), bool(op[4]))
        return []
    except Exception as e:
        ex = map_exc(e)
        return [1, ex] if op[0] == 0 else [ex]


class RefFlat:
    def __init__(self, preload):
        self.b = {a: v for a, v in preload}

    def access(self, op):
        """returns ('ok', value|None) or ('range', addr)"""
        n = op[1] // 8
        addrs = [(op[2] + i) % 2 ** 32 for i in range(n)]
        bad = next((a for a in addrs if not (0x4000 <= a < 2 ** 32)), None)
        if bad is not None:
            # flat memory writes the cells before the bad one; irrelevant here because the
            # cached system must reject such an access as well (range_error_agrees)
            return ("range", bad)
        if op[0] == 0:
            return ("ok", sum(self.b.get(a, 0) << (8 * i) for i, a in enumerate(addrs)))
        for i, a in enumerate(addrs):
            self.b[a] = (op[3] >> (8 * i)) & 255
        return ("ok", None)


class RefCache:
    """tag-only reference set-associative cache with reference LRU / tree-PLRU"""
    def __init__(self, cfg):
        self.ib, self.bb, self.assoc, self.plru, self.wt, self.pen = cfg
        self.sets = [{"tags": [None] * self.assoc, "hist": []} for _ in range(1 << self.ib)]
        self.hits = self.accesses = 0
        self.last = False

    def _victim(self, s):
        from props.c10 import ref_lru_victim, ref_plru
        return ref_plru(self.assoc, s["hist"]) if self.plru else ref_lru_victim(self.assoc, s["hist"])

    def lookup(self, a):
        full = a % 2 ** 32
        tag = full >> (self.ib + self.bb + 2)
        s = self.sets[(full >> (self.bb + 2)) & ((1 << self.ib) - 1)]
        return s, tag

    def touch(self, a, allocate):
        s, tag = self.lookup(a)
        if tag in s["tags"]:
            s["hist"].append(s["tags"].index(tag))
            return True
        if allocate:
            v = self._victim(s)
            s["tags"][v] = tag
            s["hist"].append(v)
        return False

    def counted(self, hit):
        self.accesses += 1
        self.hits += int(hit)
        self.last = hit
        return 0 if hit else self.pen


def run_history(case, model, with_model=True):
    cfg, preload, ops = case["cfg"], case["preload"], case["ops"]
    ms, mem, pm = make_dcache(cfg, preload)
    ref = RefFlat(preload)
    rc = RefCache(cfg)
    out = {"corr": [], "C03": [], "C09": [], "C12": []}
    classes = set()
    classes.add("wt" if cfg[4] else "wb")
    classes.add("plru" if cfg[3] else "lru")
    itrace = []
    rejected_sets = set()       # sets whose reference directory was advanced the way the CODE treats a rejected access
    set_of = lambda a: ((a % 2 ** 32) >> (cfg[1] + 2)) & ((1 << cfg[0]) - 1)
    for k, op in enumerate(ops):
        before_logical, _ = logical_bytes(ms, mem)
        cyc0 = pm.cycles
        r = apply_op(ms, op)
        pen = pm.cycles - cyc0
        itrace.append([r, pen, directory(ms), lower_of(mem)])
        if op[0] == 3:
            classes.add("inspect")
            if itrace[-1][2:] != (itrace[-2][2:] if len(itrace) > 1 else itrace[-1][2:]) or pen:
                # (purity of inspection is property C16; here it is a deviation from the model — a resulting wrong READ is a C03 violation below)
                out["corr"].append(("disagreement", f"op {k}: an inspection call changed the cache state, lower memory or the cycle counter"))
            continue
        if op[0] == 2:
            # reset(): everything stored is dropped, the statistics counters are kept
            classes.add("reset")
            ref = RefFlat([])
            keep = (rc.hits, rc.accesses, rc.last)
            rc = RefCache(cfg)
            rc.hits, rc.accesses, rc.last = keep
            al, _ = logical_bytes(ms, mem)
            if al or mem.memory_file:
                out["corr"].append(("disagreement", f"op {k}: after reset() the memory system still holds data {sorted(al.items())[:4]}"))
            if [ms.hits, ms.accesses] != [rc.hits, rc.accesses]:
                # (what reset() does to the data-cache counters is not part of C09; the model mirrors the code, which keeps them)
                out["corr"].append(("disagreement", f"op {k}: reset() changed the data-cache counters"))
                rc.hits, rc.accesses, rc.last = ms.hits, ms.accesses, bool(ms.last_was_hit)
            continue
        width = op[1] // 8
        off = op[2] % 4
        cross = off + width > 4
        is_read = op[0] == 0
        direct = (not is_read) and bool(op[4])
        err = (r[1] if is_read and r and r[0] == 1 else (r[0] if (not is_read and r) else None))
        after_logical, resident = logical_bytes(ms, mem)
        tagop = f"op {k} {op}"
        if direct:
            # parser preload: straight to lower memory (only meaningful when the block is not resident)
            ref.access(op)
            classes.add("direct")
        elif cross:
            classes.add("cross-word")
            if err is None:
                out["C03"].append(("violation", f"{tagop}: access crossing a word boundary was not rejected (result {r})"))
            elif err[0] not in (1, 2):
                out["corr"].append(("disagreement", f"{tagop}: cross-word access rejected with an unexpected kind of error {err}"))
            if after_logical != before_logical:
                diff = sorted(set(after_logical.items()) ^ set(before_logical.items()))[:4]
                out["C03"].append(("violation", f"{tagop}: rejected/cross-word access changed stored values {diff}"))
            if err is None:
                ref.access(op)       # keep the reference in step if the implementation accepted it
            elif err[0] == 2:
                # a rejected access is outside the accounting claim, but the read path looks the block up
                # (and fills it) before the lane check, and the write-back write path looks it up: the
                # reference directory follows so that later accesses are judged against the right contents
                # (whether a rejected access may fill / touch its block is NOT fixed by the property: from here on a hit/miss
                #  mismatch in this set is a deviation from the model, not a C09 violation)
                rejected_sets.add(set_of(op[2]))
                if is_read:
                    rc.touch(op[2], True)
                elif not cfg[4]:
                    rc.touch(op[2], False)
        else:
            rr = ref.access(op)
            if rr[0] == "range":
                classes.add("range-error")
                if err is None:
                    out["C03"].append(("violation", f"{tagop}: flat memory faults at {rr[1]:#x} but the cached access returned {r}"))
                elif err[0] != 1:
                    out["corr"].append(("disagreement", f"{tagop}: out-of-range access rejected with an unexpected kind of error {err}"))
                if after_logical != before_logical:
                    out["C03"].append(("violation", f"{tagop}: rejected out-of-range access changed stored values"))
            else:
                if err is not None:
                    out["C03"].append(("violation", f"{tagop}: in-word access rejected with {err}"))
                elif is_read:
                    if r[1] != rr[1]:
                        out["C03"].append(("violation", f"{tagop}: cached read {r[1]:#x} != flat memory {rr[1]:#x}"))
                # accounting reference (accepted, non-direct accesses only)
                if is_read:
                    hit = rc.touch(op[2], True)
                    exp_pen = rc.counted(hit) if op[3] else 0
                    classes.add("read-hit" if hit else "read-miss")
                    if not op[3]:
                        classes.add("uncounted")
                else:
                    hit = rc.touch(op[2], not cfg[4])
                    exp_pen = rc.counted(hit)
                    classes.add("write-hit" if hit else "write-miss")
                if err is None:
                    got = [ms.hits, ms.accesses, bool(ms.last_was_hit), pen]
                    want = [rc.hits, rc.accesses, rc.last, exp_pen]
                    if got != want:
                        if set_of(op[2]) in rejected_sets:
                            out["corr"].append(("disagreement", f"{tagop}: (hits, accesses, last_hit, penalty) = {got}, reference cache {want} (set touched by a rejected access before)"))
                            rc.hits, rc.accesses, rc.last = ms.hits, ms.accesses, bool(ms.last_was_hit)
                        else:
                            out["C09"].append(("violation", f"{tagop}: (hits, accesses, last_hit, penalty) = {got}, reference cache {want}"))
        if direct or (cross and err is not None) :
            # counters must not move on direct writes; rejected accesses are outside the accounting claim,
            # so resynchronise the reference counters with the implementation after a rejection
            if direct and [ms.hits, ms.accesses] != [rc.hits, rc.accesses]:
                out["C09"].append(("violation", f"{tagop}: direct write changed the counters"))
            rc.hits, rc.accesses, rc.last = ms.hits, ms.accesses, bool(ms.last_was_hit)
        elif err is not None:
            rc.hits, rc.accesses, rc.last = ms.hits, ms.accesses, bool(ms.last_was_hit)
        # logical contents vs the flat reference (C03 as a state invariant) and C12
        refb = {a: v for a, v in ref.b.items() if v != 0}
        if not direct and after_logical != refb and not out["C03"]:
            diff = sorted(set(after_logical.items()) ^ set(refb.items()))[:4]
            out["C03"].append(("violation", f"{tagop}: logical memory contents differ from flat memory at {diff}"))
        low = {a: int(v) for a, v in mem.memory_file.items() if int(v) != 0}
        if True:
            if cfg[4]:
                if low != refb:
                    diff = sorted(set(low.items()) ^ set(refb.items()))[:4]
                    out["C12"].append(("violation", f"{tagop}: write-through backing memory differs from logical contents at {diff}"))
                if after_logical != low:
                    out["C12"].append(("violation", f"{tagop}: a resident block differs from its backing block (write-through)"))
            else:
                bad = [a for a in set(low) | set(refb) if low.get(a, 0) != refb.get(a, 0) and a not in resident]
                if bad:
                    out["C12"].append(("violation", f"{tagop}: write-back backing memory is stale at non-resident addresses {sorted(bad)[:4]}"))
                if any(low.get(a, 0) != refb.get(a, 0) for a in resident):
                    classes.add("wb-lag")
    if any(True for e in itrace for s in e[2][0] for b in s[0] if b[0] == 1):
        classes.add("resident")
    if with_model:
        mt = model.call([50, cfg, preload, ops])
        for k, (a, b) in enumerate(zip(itrace, mt)):
            b = [b[0], b[1], b[2], b[3]]
            d = first_diff(a, b, f"op{k}")
            if d:
                names = ["result", "penalty", "directory/counters", "lower memory"]
                out["corr"].append(("disagreement", f"op {k} {ops[k]}: {d} (fields: {names})"))
                break
        if len(mt) != len(itrace):
            out["corr"].append(("disagreement", "trace lengths differ"))
    return out, classes


# ----------------------------------------------------------------------------- generators

def gen_cfg(rng, small=True):
    ib = rng.randrange(0, 3 if small else 4)
    bb = rng.randrange(0, 3 if small else 4)
    plru = rng.random() < 0.5
    assoc = rng.choice([1, 2, 4, 8]) if plru else rng.choice([1, 2, 3, 4, 5, 8])
    return [ib, bb, assoc, 1 if plru else 0, 1 if rng.random() < 0.5 else 0, rng.choice([0, 1, 3, 10])]


def gen_history(rng, cfg, n, direct_p=0.03, bad_p=0.08):
    ib, bb = cfg[0], cfg[1]
    stride = (1 << ib) * (1 << bb) * 4
    bases = [DATA + k * stride for k in range(cfg[2] + 2)] + [DATA + 4 * rng.randrange(0, 16)]
    hot = [rng.choice(bases) + 4 * rng.randrange(0, 1 << bb) for _ in range(4)]
    ops = []
    reset_at = rng.randrange(2, n + 2) if rng.random() < 0.15 else None
    # parser-style preloads: direct writes happen only before the first cached access
    for _ in range(rng.randrange(0, 4) if rng.random() < direct_p * 10 else 0):
        nb = rng.choice([8, 16, 32])
        ops.append([1, nb, rng.choice(hot) + rng.randrange(0, 4 - nb // 8 + 1), rng.getrandbits(nb), 1])
    if rng.random() < 0.12:
        # a QUIET first life: nothing but uncounted reads (string scans, inspection reads), then a reset —
        # the second life must start from a cold cache although the counters never moved
        for _ in range(rng.randrange(1, 7)):
            nb = rng.choice([8, 16, 32])
            ops.append([0, nb, rng.choice(hot) + rng.randrange(0, 4 - nb // 8 + 1), 0])
        ops.append([2])
    for _ in range(n):
        a = rng.choice(hot) if rng.random() < 0.7 else rng.choice(bases) + 4 * rng.randrange(0, (1 << bb) + 1)
        nb = rng.choice([8, 16, 32])
        r = rng.random()
        if r < bad_p:
            off = rng.randrange(0, 4)                       # may cross the word
        else:
            off = rng.randrange(0, 4 - nb // 8 + 1)
        if rng.random() < 0.02:
            a = rng.choice([0x3FFC, 0x3FFF, 0, 0xFFFFFFFC, 0xFFFFFFFF, 0x100004000, -4])
        a += off
        if rng.random() < 0.5:
            ops.append([0, nb, a, 0 if rng.random() < 0.2 else 1])
        else:
            ops.append([1, nb, a, rng.getrandbits(nb), 0])
        if reset_at is not None and len(ops) == reset_at:
            ops.append([2])
        if rng.random() < 0.06:
            ops.append([3])
    return ops


def gen_case(rng, small=True, maxlen=60):
    cfg = gen_cfg(rng, small)
    pre = {}
    for _ in range(rng.randrange(0, 10)):
        pre[DATA + rng.randrange(0, 64)] = rng.randrange(1, 256)
    return {"cfg": cfg, "preload": sorted([a, v] for a, v in pre.items()),
            "ops": gen_history(rng, cfg, rng.randrange(1, maxlen))}


def shrink(case):
    ops = case["ops"]
    for i in range(len(ops) - 1, -1, -1):
        yield dict(case, ops=ops[:i] + ops[i + 1:])
    if case["preload"]:
        yield dict(case, preload=[])
    cfg = case["cfg"]
    if cfg[5]:
        yield dict(case, cfg=cfg[:5] + [0])


def describe(case):
    cfg = case["cfg"]
    return {"cache": f"index_bits={cfg[0]} block_bits={cfg[1]} assoc={cfg[2]} {'plru' if cfg[3] else 'lru'} "
                     f"{'write-through' if cfg[4] else 'write-back'} penalty={cfg[5]}",
            "ops": ["reset()" if op[0] == 2 else "inspect()" if op[0] == 3 else (f"read{op[1]}({op[2]:#x}, counted={bool(op[3])})" if op[0] == 0 else
                     f"write{op[1]}({op[2]:#x}, {op[3]:#x}, direct={bool(op[4])})") for op in case["ops"]]}
