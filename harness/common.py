"""common.py — shared plumbing of the correspondence harness.

* sx format (integers and nested lists) spoken with the extracted Coq model,
* the persistent model process,
* builders/observers for the real implementation objects (imported from /repo),
* evidence, replay and known-findings helpers.

Run with /venv/bin/python, PYTHONPATH=/repo:/verif/harness, PYTHONHASHSEED=0.
"""
from __future__ import annotations
import json, os, subprocess, sys, time, hashlib, random, signal, struct, traceback
from pathlib import Path

VERIF = Path("/verif")
DRIVER = VERIF / "ocaml" / "_build" / "driver"
import os as _os
# (VERIF_SCRATCH_OUT: experiments only — tools/wt_eval.sh; the registered checks never set it)
EVIDENCE_DIR = Path(_os.environ["VERIF_SCRATCH_OUT"]) / "evidence" if _os.environ.get("VERIF_SCRATCH_OUT") else VERIF / "evidence"
REPLAY_DIR = Path(_os.environ["VERIF_SCRATCH_OUT"]) / "replays" if _os.environ.get("VERIF_SCRATCH_OUT") else VERIF / "replays"
CORPUS_DIR = VERIF / "corpus"
KNOWN_FINDINGS = VERIF / "known_findings.json"

# --------------------------------------------------------------------------- sx format

def sx_dump(x) -> str:
    out = []
    def rec(v):
        if isinstance(v, bool):
            out.append("1" if v else "0")
        elif isinstance(v, int):
            out.append(str(v))
        elif v is None:
            out.append("()")
        else:
            out.append("(")
            first = True
            for y in v:
                if not first:
                    out.append(" ")
                first = False
                rec(y)
            out.append(")")
    rec(x)
    return "".join(out)


def sx_parse(s: str):
    pos = 0
    n = len(s)
    stack = [[]]
    while pos < n:
        c = s[pos]
        if c == "(":
            stack.append([])
            pos += 1
        elif c == ")":
            top = stack.pop()
            stack[-1].append(top)
            pos += 1
        elif c in " \t\r\n":
            pos += 1
        else:
            st = pos
            pos += 1
            while pos < n and s[pos] not in " ()\t\r\n":
                pos += 1
            stack[-1].append(int(s[st:pos]))
    assert len(stack) == 1 and len(stack[0]) == 1, "malformed sx"
    return stack[0][0]


class ModelError(RuntimeError):
    pass


class Model:
    """Persistent process running the extracted Coq model."""

    def __init__(self):
        self.p = None

    def _start(self):
        if not DRIVER.exists():
            raise ModelError(f"extracted model driver missing: {DRIVER} (run setup)")
        self.p = subprocess.Popen(
            ["/bin/sh", "-c", f"ulimit -s unlimited 2>/dev/null; exec {DRIVER}"],
            stdin=subprocess.PIPE, stdout=subprocess.PIPE, text=True, bufsize=1 << 20)

    def call(self, req):
        if self.p is None or self.p.poll() is not None:
            self._start()
        line = sx_dump(req)
        try:
            self.p.stdin.write(line + "\n")
            self.p.stdin.flush()
            resp = self.p.stdout.readline()
        except BrokenPipeError:
            resp = ""
        if not resp:
            self.p = None
            raise ModelError("model process died on request " + line[:300])
        resp = resp.strip()
        if resp.startswith("!error"):
            raise ModelError(resp + " on request " + line[:300])
        return sx_parse(resp)

    def close(self):
        if self.p is not None:
            try:
                self.p.stdin.close()
                self.p.wait(timeout=5)
            except Exception:
                self.p.kill()
            self.p = None


# --------------------------------------------------------------------------- RISC-V implementation side

MNEMONICS = [
    "add", "sub", "sll", "slt", "sltu", "xor", "srl", "sra", "or", "and",
    "mul", "mulh", "mulhu", "mulhsu", "div", "divu", "rem", "remu",          # 0-17  R
    "addi", "slti", "sltiu", "xori", "ori", "andi",                          # 18-23 I
    "slli", "srli", "srai",                                                  # 24-26 shift
    "lb", "lh", "lw", "lbu", "lhu",                                          # 27-31 load
    "jalr", "ecall",                                                         # 32 33
    "sb", "sh", "sw",                                                        # 34-36
    "beq", "bne", "blt", "bge", "bltu", "bgeu",                              # 37-42
    "lui", "auipc", "jal", "ebreak", "fence",                                # 43-47
    "csrrw", "csrrs", "csrrc", "csrrwi", "csrrsi", "csrrci",                 # 48-53
]
MN = {m: i for i, m in enumerate(MNEMONICS)}


def fmt_kind(n: int) -> str:
    if n <= 17: return "R"
    if n <= 26: return "I"
    if n <= 31: return "L"
    if n == 32: return "I"
    if n == 33: return "E"
    if n <= 36: return "S"
    if n <= 42: return "B"
    if n <= 44: return "U"
    if n == 45: return "J"
    if n == 46: return "EB"
    if n == 47: return "F"
    if n <= 50: return "C"
    return "CI"


def make_instr(t):
    """t = (mnemonic number, a, b, c) with the raw constructor arguments in the model's order."""
    from architecture_simulator.isa.riscv.rv32i_instructions import instruction_map
    n = t[0]
    cls = instruction_map[MNEMONICS[n]]
    k = fmt_kind(n)
    if k == "R":
        return cls(rd=t[1], rs1=t[2], rs2=t[3])
    if k in ("I", "L"):
        return cls(rd=t[1], rs1=t[2], imm=t[3])
    if k == "E" or k == "EB":
        return cls()
    if k in ("S", "B"):
        return cls(rs1=t[1], rs2=t[2], imm=t[3])
    if k == "U":
        return cls(rd=t[1], imm=t[2])
    if k == "J":
        return cls(rd=t[1], imm=t[2], abs_addr=t[3])
    if k == "F":
        return cls()
    if k == "C":
        return cls(rd=t[1], csr=t[2], rs1=t[3])
    if k == "CI":
        return cls(rd=t[1], csr=t[2], uimm=t[3])
    raise ValueError(t)


def instr_fields(ins):
    """stored fields of an implementation instruction object, in the model's sx_instr layout"""
    n = MN[ins.mnemonic]
    k = fmt_kind(n)
    if k == "R":
        return [n, ins.rd, ins.rs1, ins.rs2]
    if k in ("I", "L"):
        return [n, ins.rd, ins.rs1, ins.imm]
    if k in ("E", "EB", "F"):
        return [n]
    if k in ("S", "B"):
        return [n, ins.rs1, ins.rs2, ins.imm]
    if k == "U":
        return [n, ins.rd, ins.imm]
    if k == "J":
        return [n, ins.rd, ins.imm, ins.abs_addr]
    if k == "C":
        return [n, ins.rd, ins.csr, ins.rs1]
    if k == "CI":
        return [n, ins.rd, ins.csr, ins.uimm]
    raise ValueError(ins)


def cache_options(cfg):
    """cfg = [] (disabled) or [ibits, bbits, assoc, plru, wt, penalty]"""
    from architecture_simulator.uarch.memory.cache import CacheOptions
    if not cfg:
        return CacheOptions(False, 0, 0, 1, "wb", "lru", 0)
    return CacheOptions(True, cfg[0], cfg[1], cfg[2], "wt" if cfg[4] else "wb",
                        "plru" if cfg[3] else "lru", cfg[5])


def lower_memory(state):
    m = state.memory
    return m.memory if hasattr(m, "memory") else m


def make_sim(spec, mode="single_stage_pipeline", hazards=True):
    """spec = [program, reg presets, mem presets, dcache cfg, icache cfg] (the model's [dst] layout)"""
    import fixedint
    from architecture_simulator.simulation.riscv_simulation import RiscvSimulation
    prog, regs, mem, dcfg, icfg = spec
    sim = RiscvSimulation(mode=mode, detect_data_hazards=hazards,
                          data_cache=cache_options(dcfg), instruction_cache=cache_options(icfg))
    sim.state.instruction_memory.write_instructions([make_instr(t) for t in prog])
    for r, v in regs:
        sim.state.register_file.registers[r] = fixedint.UInt32(v)
    low = lower_memory(sim.state)
    for a, v in mem:
        low.memory_file[a] = fixedint.UInt8(v)
    return sim


def float_str(arg: int) -> str:
    return str(struct.unpack(">f", arg.to_bytes(4, "big"))[0])


def expand_out(codes):
    """expand the model's float markers [-1, arg] with the harness's float oracle (trusted base T6)"""
    res = []
    i = 0
    while i < len(codes):
        if codes[i] == -1:
            res.extend(ord(c) for c in float_str(codes[i + 1]))
            i += 2
        else:
            res.append(codes[i])
            i += 1
    return res


def stats_of(d):
    if d is None:
        return []
    return [int(d["hits"]), int(d["accesses"]), bool(d["last_hit"])]


def obs_state(sim):
    """observation of the implementation state in the layout of the model's [sx_st]"""
    s = sim.state
    pm = s.performance_metrics
    low = lower_memory(s)
    return [
        s.program_counter,
        [int(r) for r in s.register_file.registers],
        sorted([a, int(v)] for a, v in low.memory_file.items()),
        [ord(c) for c in s.output],
        [] if s.exit_code is None else [s.exit_code],
        [pm.instruction_count, pm.branch_count, pm.procedure_count, pm.cycles, pm.stalls, pm.flushes],
        stats_of(s.memory.get_cache_stats()),
        stats_of(s.instruction_memory.get_cache_stats()),
    ]


def norm_model_state(o):
    """model observation -> comparable form (float markers expanded, booleans normalised)"""
    o = list(o)
    o[3] = expand_out(o[3])
    for k in (6, 7):
        if o[k]:
            o[k] = [o[k][0], o[k][1], bool(o[k][2])]
    return o


def map_exc(e):
    """implementation exception -> the model's err layout"""
    from architecture_simulator.uarch.memory.memory import MemoryAddressError
    from architecture_simulator.util.integer_manipulation import ByteOffsetError
    from architecture_simulator.isa.riscv.rv32i_instructions import InstructionNotImplemented
    if isinstance(e, MemoryAddressError):
        return [1, e.address, e.min_address_incl, e.max_address_incl,
                1 if e.memory_type == "instruction memory" else 0]
    if isinstance(e, ByteOffsetError):
        return [2, e.offset, e.max_offset]
    if isinstance(e, InstructionNotImplemented):
        return [4]
    if isinstance(e, ValueError) and "is not a valid code for ECALL" in str(e):
        return [3, int(str(e).split()[0])]
    return [5, -1, type(e).__name__]


# --------------------------------------------------------------------------- misc helpers

def derive_seed(base: int, *parts) -> int:
    h = hashlib.sha256(repr((base,) + parts).encode()).digest()
    return int.from_bytes(h[:8], "big")


class CaseTimeout(BaseException):   # not an Exception: a slice's own "except Exception" must never swallow the watchdog
    pass


def _alarm(signum, frame):
    raise CaseTimeout()


def with_timeout(seconds, fn, *args):
    """run fn under a wall-clock limit (unix signals; main thread of a worker process)"""
    old = signal.signal(signal.SIGALRM, _alarm)
    signal.setitimer(signal.ITIMER_REAL, seconds)
    try:
        return fn(*args)
    finally:
        signal.setitimer(signal.ITIMER_REAL, 0)
        signal.signal(signal.SIGALRM, old)


def first_diff(a, b, path=""):
    """human-readable location of the first difference between two nested observations"""
    if type(a) != type(b) and not (isinstance(a, (int, bool)) and isinstance(b, (int, bool))):
        return f"{path}: {a!r} != {b!r}"
    if isinstance(a, list):
        if len(a) != len(b):
            for i in range(min(len(a), len(b))):
                d = first_diff(a[i], b[i], f"{path}[{i}]")
                if d:
                    return d
            return f"{path}: length {len(a)} != {len(b)} ({str(a)[:120]} vs {str(b)[:120]})"
        for i in range(len(a)):
            d = first_diff(a[i], b[i], f"{path}[{i}]")
            if d:
                return d
        return None
    return None if a == b else f"{path}: {a!r} != {b!r}"


# ----------------------------------------------------------------------------- process-global state of the package

def _canon_global(v, depth=0):
    if depth > 6:
        return "..."
    if isinstance(v, (int, float, bool, str, bytes)) or v is None:
        return v
    if isinstance(v, dict):
        return sorted(((_canon_global(k, depth + 1).__repr__(), _canon_global(x, depth + 1)) for k, x in v.items()), key=lambda kv: kv[0])
    if isinstance(v, (list, tuple)):
        return [_canon_global(x, depth + 1) for x in v]
    if isinstance(v, (set, frozenset)):
        return sorted(repr(_canon_global(x, depth + 1)) for x in v)
    if isinstance(v, type):
        return "<class %s>" % v.__qualname__
    if callable(v):
        return "<callable %s>" % getattr(v, "__qualname__", type(v).__name__)
    d = getattr(v, "__dict__", None)
    if isinstance(d, dict):
        return [type(v).__qualname__, _canon_global(d, depth + 1)]
    try:
        return [type(v).__qualname__, int(v)]
    except Exception:
        return type(v).__qualname__


def global_state_digest(pkg="architecture_simulator"):
    """canonical form of every mutable container held at MODULE level or CLASS level in the simulator package: the
    process-global state that an inspection function, a parser or another simulation object could leak through"""
    out = {}
    for mname, mod in sorted(sys.modules.items()):
        if mod is None or not (mname == pkg or mname.startswith(pkg + ".")):
            continue
        for k, v in list(vars(mod).items()):
            if k.startswith("__"):
                continue
            if isinstance(v, (dict, list, set)):
                out[f"{mname}.{k}"] = _canon_global(v)
            elif isinstance(v, type) and getattr(v, "__module__", "") == mname:
                for ck, cv in list(vars(v).items()):
                    if ck.startswith("__"):
                        continue
                    if isinstance(cv, (dict, list, set)):
                        out[f"{mname}.{v.__qualname__}.{ck}"] = _canon_global(cv)
    return out


def global_state_diff(before, after):
    for k in sorted(set(before) | set(after)):
        if before.get(k) != after.get(k):
            return k
    return None
