"""toylex_corr.py — correspondence of the model's TOY tokenizer (coq/theories/Model/ToyLex.v:
toy_lex_text) with the real one (parser.py:_sanitize/_tokenize + toy_parser.py grammar, seen through
toy_asm.tokens_of).  Texts come from four streams:
  wf   toy_asm.gen_source (well-formed programs in random spelling)
  mal  gen_source(malformed=True) and the TOY part of props/c15.py (faults, look-alikes, token/byte soups)
  mut  character-level mutations of lines of the two streams above
  uni  lines built around the Unicode white-space / line-boundary / case-folding special characters
  rnd  random token lines printed with random gaps (also none), letter case, surrounding white space, comments
       (the printer render_line of Proofs/ToyLexProofs2.v, for which Props/C19Lex.v proves the round trip)
Every text is compared as a whole (line numbers, name interning, stop at the first rejected line) and
line by line (each line as a one-line text).  The model side is an extracted driver that answers
"(c1 c2 ...)" with "((0 line...) dom)" or "((1 ln) dom)";  TOYLEX_DRIVER names the executable."""
from __future__ import annotations
import os, random, subprocess, sys, time
import toy_asm as TA

DRIVER = os.environ.get("TOYLEX_DRIVER", "/tmp/toylexwork/ocaml/driver")   # only the stand-alone validation loop (class Model / run) uses this private driver;
# the registered checks import STREAMS and impl() only and talk to the main driver (requests 90/91)


def parse_sx(s):
    pos = 0
    n = len(s)

    def item():
        nonlocal pos
        while pos < n and s[pos] == " ":
            pos += 1
        if s[pos] == "(":
            pos += 1
            out = []
            while True:
                while pos < n and s[pos] == " ":
                    pos += 1
                if s[pos] == ")":
                    pos += 1
                    return out
                out.append(item())
        st = pos
        while pos < n and (s[pos] == "-" or s[pos].isdigit()):
            pos += 1
        return int(s[st:pos])
    return item()


class Model:
    def __init__(self, path=DRIVER):
        self.p = subprocess.Popen([path], stdin=subprocess.PIPE, stdout=subprocess.PIPE, text=True, bufsize=1)

    def lex(self, text):
        self.p.stdin.write("(" + " ".join(str(ord(c)) for c in text) + ")\n")
        self.p.stdin.flush()
        ans = self.p.stdout.readline().strip()
        if ans.startswith("!error"):
            return ("modelerror", ans), False
        r, dom = parse_sx(ans)
        if r[0] == 0:
            return ("ok", r[1:]), bool(dom)
        if r[0] == 1:
            return ("syntax", r[1]), bool(dom)
        return ("modelerror", r), bool(dom)

    def close(self):
        self.p.stdin.close()
        self.p.wait()


def impl(text):
    try:
        return TA.tokens_of(text)
    except TA.ConvertError as e:
        return ("convert", str(e))


# ------------------------------------------------------------------ streams

def stream_wf(rng):
    return TA.gen_source(rng)[0]


_c15 = None


def stream_mal(rng):
    global _c15
    if rng.random() < 0.4:
        return TA.gen_source(rng, malformed=True)[0]
    if _c15 is None:
        from props import c15
        _c15 = c15.ToyErrors()
    return _c15.gen(rng, 0, "quick")["text"]


GLUE = [":", ".", ",", "#", "0x", "0X", "x", "0", "9", "a", "F", "g", "_", "\t", " ", "  ", "+", "-", "'", '"', ";", "(", "\\",
        ".word", ".data", ".text", "word", "NOP", "or", "Add", ": ", " :", ".w", "ord", "\x00", "\x1f", "\x7f", "@", "$", "\xa0"]


def mutate_line(rng, line):
    """1-3 character-level edits"""
    s = line
    for _ in range(rng.choice([1, 1, 1, 2, 3])):
        k = rng.randrange(0, len(s) + 1)
        r = rng.random()
        if r < 0.30:
            s = s[:k] + rng.choice(GLUE) + s[k:]                       # insert
        elif r < 0.50 and s:
            k = min(k, len(s) - 1)
            s = s[:k] + s[k + 1:]                                      # delete
        elif r < 0.65 and s:
            k = min(k, len(s) - 1)
            s = s[:k] + s[k] * rng.choice([2, 2, 3]) + s[k + 1:]       # duplicate
        elif r < 0.75 and s:
            k = min(k, len(s) - 1)
            s = s[:k] + s[k].swapcase() + s[k + 1:]                    # case flip
        elif r < 0.85 and s:
            k = min(k, len(s) - 1)
            s = s[:k] + rng.choice(GLUE) + s[k + 1:]                   # replace
        elif r < 0.93:
            s = s.replace(" ", rng.choice(["", "\t", "  ", " \t "]), 1)  # squeeze / widen a gap
        else:
            j = rng.randrange(0, len(s) + 1)
            a, b = min(k, j), max(k, j)
            s = s[:a] + s[b:] + s[a:b]                                 # move a chunk to the end
    return s


_pool = []


def stream_mut(rng):
    while len(_pool) < 400:
        src = stream_wf(rng) if rng.random() < 0.7 else stream_mal(rng)
        _pool.extend(l for l in src.split("\n") if l.strip() and len(l) < 200)
    if rng.random() < 0.05:
        del _pool[:50]
    lines = [mutate_line(rng, rng.choice(_pool)) if rng.random() < 0.8 else rng.choice(_pool)
             for _ in range(rng.randrange(1, 7))]
    return "\n".join(lines)


SPECIAL = ([chr(c) for c in (9, 10, 11, 12, 13, 28, 29, 30, 31, 32, 0x85, 0xa0, 0x1680, 0x2000, 0x200a, 0x200b, 0x2028, 0x2029,
                             0x202f, 0x205f, 0x3000, 0xfeff, 0x130, 0x131, 0x17f, 0x212a, 0xdf, 0xfb05, 0xe9, 0x661, 0xff11,
                             0xff21, 0x37e, 0xff1a, 0xff0e, 0xff03, 0, 127, 128, 0xd800, 0x10ffff, 0x1d7d8)])
FRAGS = ["NOP", "ADD 5", "x: .word 1, 2", "x:", ".data", ".text", "sto x", "l: LDA 0x1f", "# c", "INC", "KORN", "BRZ k", "or K", "sub 1", "inc"]


def stream_uni(rng):
    out = []
    for _ in range(rng.randrange(1, 5)):
        s = rng.choice(FRAGS)
        for _ in range(rng.choice([1, 1, 2, 3])):
            k = rng.choice([0, len(s), rng.randrange(0, len(s) + 1), rng.randrange(0, len(s) + 1)])
            if rng.random() < 0.15:
                s, k = s + " # ", len(s) + 3
            ch = rng.choice(SPECIAL) if rng.random() < 0.8 else chr(rng.choice([rng.randrange(0, 0x300), rng.randrange(0, 0x110000)]))
            s = (s[:k] + ch + s[k + 1:]) if (rng.random() < 0.3 and k < len(s)) else (s[:k] + ch + s[k:])
        out.append(s)
    return rng.choice(["\n", "\r\n", "\r", "\n"]).join(out) + rng.choice(["", "\n", "\r", "\x85"])


# the printer of Proofs/ToyLexProofs2.v (render_line): random token lines, gaps (possibly empty) at every token
# boundary, random letter case, any str.strip() white space around, arbitrary comment
PYSPACE = [chr(c) for c in (9, 32, 32, 32, 31, 0xa0, 0x1680, 0x2003, 0x202f, 0x205f, 0x3000)]
WORDS = ["x", "loop", "_a1", "NOP", "ADD5", "ORacle", "L_2", "word", "data", "a" * 40, "Z9_", "sto", "x0x1"]


def _gap(rng):
    return rng.choice(["", "", " ", "\t", "  ", " \t "])


def _value(rng):
    n = rng.choice([0, 1, 7, 255, 4095, 65536, rng.randrange(0, 1 << 20)])
    if rng.random() < 0.5:
        return "0" * rng.choice([0, 0, 1, 3]) + str(n)
    h = "%X" % n
    return "0x" + "0" * rng.choice([0, 0, 2]) + (h.lower() if rng.random() < 0.5 else h)


def stream_rnd(rng):
    out = []
    for _ in range(rng.randrange(1, 6)):
        k = rng.random()
        if k < 0.1:
            body = "." + _gap(rng) + rng.choice(["text", "data"])
        elif k < 0.3:
            body = (rng.choice(WORDS) + _gap(rng) + ":" + _gap(rng) + "." + _gap(rng) + "word" + _gap(rng)
                    + (_gap(rng) + "," + _gap(rng)).join(_value(rng) for _ in range(rng.randrange(1, 5))))
        elif k < 0.4:
            body = rng.choice(WORDS) + _gap(rng) + ":"
        else:
            body = (rng.choice(WORDS) + _gap(rng) + ":" + _gap(rng)) if rng.random() < 0.4 else ""
            mn = rng.choice(TA.ADDR_MN + TA.NOADDR_MN)
            body += "".join(c.lower() if rng.random() < 0.5 else c for c in mn)
            if mn in TA.ADDR_MN:
                body += _gap(rng) + (_value(rng) if rng.random() < 0.5 else rng.choice(WORDS))
        lead = "".join(rng.choice(PYSPACE) for _ in range(rng.choice([0, 0, 1, 3])))
        trail = "".join(rng.choice(PYSPACE) for _ in range(rng.choice([0, 0, 1, 3])))
        cmt = ("#" + "".join(chr(rng.choice([35, 32, 58, 46, rng.randrange(32, 0x300)])) for _ in range(rng.randrange(0, 8)))
               if rng.random() < 0.4 else "")
        out.append(lead + body + trail + cmt)
    return rng.choice(["\n", "\r\n", "\x85", "\x0c"]).join(out) + rng.choice(["", "\n"])


STREAMS = {"wf": stream_wf, "mal": stream_mal, "mut": stream_mut, "uni": stream_uni, "rnd": stream_rnd}


# ------------------------------------------------------------------ comparison

def run(seed=0, budget=None, verbose=True, max_report=20):
    budget = budget or {"wf": 1500, "mal": 2500, "mut": 4000, "uni": 1500, "rnd": 1500}
    m = Model()
    stats = {}
    seen = {}              # line -> class (distinct lines over all streams)
    bad = []
    t0 = time.time()
    for name, gen in STREAMS.items():
        rng = random.Random(f"toylex-{name}-{seed}")
        st = stats.setdefault(name, {"texts": 0, "text_ok": 0, "text_syntax": 0, "lines": 0, "ok": 0, "blank": 0, "syntax": 0,
                                     "new_lines": 0, "new_ok": 0, "new_blank": 0, "new_syntax": 0, "disagree": 0, "outside_domain": 0})
        for _ in range(budget.get(name, 0)):
            text = gen(rng)
            st["texts"] += 1
            a = impl(text)
            b, dom = m.lex(text)
            if not dom:
                st["outside_domain"] += 1
            st["text_ok" if a[0] == "ok" else "text_syntax"] += 1
            if list(a) != list(b):
                st["disagree"] += 1
                bad.append((name, "text", text, a, b))
            for line in text.splitlines():
                st["lines"] += 1
                if line in seen:
                    st[seen[line]] += 1
                    continue
                la = impl(line)
                lb, _ = m.lex(line)
                cls = "syntax" if la[0] == "syntax" else ("blank" if la[0] == "ok" and not la[1] else "ok")
                if la[0] == "convert":
                    cls = "syntax"
                seen[line] = cls
                st[cls] += 1
                st["new_lines"] += 1
                st["new_" + cls] += 1
                if list(la) != list(lb):
                    st["disagree"] += 1
                    bad.append((name, "line", line, la, lb))
    m.close()
    tot = {k: sum(s[k] for s in stats.values()) for k in next(iter(stats.values()))}
    if verbose:
        for name, s in list(stats.items()) + [("TOTAL", tot)]:
            print(f"{name:6s} texts {s['texts']:6d} (ok {s['text_ok']}, syntax {s['text_syntax']})  lines {s['lines']:7d} "
                  f"[ok {s['ok']}, blank {s['blank']}, syntax {s['syntax']}]  distinct-new {s['new_lines']:6d} "
                  f"[ok {s['new_ok']}, blank {s['new_blank']}, syntax {s['new_syntax']}]  outside-domain {s['outside_domain']}  "
                  f"DISAGREE {s['disagree']}")
        print(f"elapsed {time.time() - t0:.1f}s")
        for name, kind, text, a, b in bad[:max_report]:
            print("DISAGREEMENT", name, kind, repr(text), "\n   impl :", a, "\n   model:", b)
    return stats, tot, bad


if __name__ == "__main__":
    seed = int(sys.argv[1]) if len(sys.argv) > 1 else 0
    scale = float(sys.argv[2]) if len(sys.argv) > 2 else 1.0
    budget = {k: int(v * scale) for k, v in {"wf": 1500, "mal": 2500, "mut": 4000, "uni": 1500, "rnd": 1500}.items()}
    _, tot, bad = run(seed, budget)
    sys.exit(1 if bad else 0)
