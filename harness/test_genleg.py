#!/venv/bin/python
"""test_genleg.py -- self-test of the generated-definitions leg (harness/translate.py, harness/genleg.py,
coq/geneq/*.v).

Copies the simulator package to a scratch directory under /tmp, runs the leg on the unmodified copy
(must give zero failures; a second run must take the hash-only fast path), then applies single-token
mutations to the copy, one at a time, and checks that EXACTLY the expected equality lemmas break
(a harmless rewrite must break nothing; an edit that leaves the grammar must be reported as
"unavailable"/"skipped", not as a failure).  /repo and /verif/coq/gen are not touched; the scratch
copy is removed afterwards.

usage: test_genleg.py [--keep] [--only N[,N...]]
"""
from __future__ import annotations

import os
import shutil
import sys
import tempfile
import time

HERE = os.path.dirname(os.path.abspath(__file__))
sys.path.insert(0, HERE)
import genleg  # noqa: E402

REPO = "/repo"
PKG = "architecture_simulator"
RV = PKG + "/isa/riscv/rv32i_instructions.py"
TYPES = PKG + "/isa/riscv/instruction_types.py"
IMAN = PKG + "/util/integer_manipulation.py"
DEC = PKG + "/uarch/memory/decoded_address.py"
TOY = PKG + "/isa/toy/toy_instructions.py"

# (description, file, anchor, old token, new token, expected failed lemmas, expected skipped lemmas)
MUTATIONS = [
    ("ADD.alu_compute: left + right -> left - right", RV, "class ADD(RTypeInstruction)",
     "int(left + right)", "int(left - right)", {"gen_ADD_alu_compute_eq"}, set()),
    ("TOY from_integer: & 0xFFF -> & 0x7FF", TOY, "def from_integer",
     "integer_instruction & 0xFFF", "integer_instruction & 0x7FF", {"gen_toy_from_integer_address_eq"}, set()),
    ("TOY from_integer: >> 12 -> >> 11", TOY, "def from_integer",
     "integer_instruction >> 12", "integer_instruction >> 11", {"gen_toy_from_integer_opcode_eq"}, set()),
    ("byte_into_block: mask 0xFF -> 0x7F", IMAN, "def byte_into_block",
     "0xFF <<", "0x7F <<", {"gen_byte_into_block_eq"}, set()),
    ("SLT.behavior: < -> <=", RV, "class SLT(RTypeInstruction)",
     "if rs1 < rs2 else", "if rs1 <= rs2 else", {"gen_SLT_behavior_eq"}, set()),
    ("SLL.alu_compute: removed % 32", RV, "class SLL(RTypeInstruction)",
     "right = fixedint.UInt32(alu_in_2) % fixedint.UInt32(32)", "right = fixedint.UInt32(alu_in_2)",
     {"gen_SLL_alu_compute_eq"}, set()),
    ("STypeInstruction.__init__: sign bit 2048 -> 1024", TYPES, "class STypeInstruction",
     "(imm & 2048)", "(imm & 1024)",
     {"gen_STypeInstruction_init_imm_eq", "gen_SB_init_eq", "gen_SH_init_eq", "gen_SW_init_eq"}, set()),
    ("DecodedAddress: byte offset & 0x3 -> & 0x7", DEC, "self.byte_offset",
     "self.full_address & 0x3", "self.full_address & 0x7", {"gen_DecodedAddress_init_byte_offset_eq"}, set()),
    ("JALR.behavior: pow(2, 32) - 2 -> - 1", RV, "class JALR(ITypeInstruction)",
     "(pow(2, 32) - 2)", "(pow(2, 32) - 1)", {"gen_JALR_behavior_eq"}, set()),
    ("BGE.alu_compute: >= -> >", RV, "class BGE(BTypeInstruction)",
     "fixedint.Int32(alu_in_1) >= fixedint.Int32(alu_in_2)", "fixedint.Int32(alu_in_1) > fixedint.Int32(alu_in_2)",
     {"gen_BGE_alu_compute_eq"}, set()),
    ("halfword_from_block: offset bound > 2 -> > 1", IMAN, "def halfword_from_block",
     "byte_offset > 2", "byte_offset > 1", {"gen_halfword_from_block_eq"}, set()),
    ("TOY SUB.behavior: accu - read_value -> accu + read_value (state write only)", TOY, "class SUB(AddressTypeInstruction)",
     "state.accu = state.accu - read_value", "state.accu = state.accu + read_value",
     {"gen_toy_SUB_behavior_eq"}, set()),
    ("DIVU.alu_compute: // -> % ", RV, "class DIVU(RTypeInstruction)",
     "int(left // right)", "int(left % right)", {"gen_DIVU_alu_compute_eq"}, set()),
    # robustness: a harmless rewrite must not break anything
    ("harmless: ADD.alu_compute left + right -> right + left", RV, "class ADD(RTypeInstruction)",
     "int(left + right)", "int(right + left)", set(), set()),
    # leaving the grammar is a loss of strength, not a failure
    ("outside the grammar: XOR.alu_compute uses abs()", RV, "class XOR(RTypeInstruction)",
     "int(left ^ right)", "int(abs(left ^ right))", set(), {"gen_XOR_alu_compute_eq"}),
]


def main(argv):
    keep = "--keep" in argv
    only = None
    if "--only" in argv:
        only = {int(x) for x in argv[argv.index("--only") + 1].split(",")}
    scratch = tempfile.mkdtemp(prefix="genleg_selftest_", dir="/tmp")
    ok = True
    t_start = time.time()
    try:
        root = os.path.join(scratch, "repo")
        shutil.copytree(os.path.join(REPO, PKG), os.path.join(root, PKG),
                        ignore=shutil.ignore_patterns("__pycache__", "*.pyc"))
        geneq = os.path.join(scratch, "geneq")
        os.makedirs(geneq)
        for fn in os.listdir(genleg.GENEQ_DIR):
            if fn.endswith(".v"):
                shutil.copy(os.path.join(genleg.GENEQ_DIR, fn), os.path.join(geneq, fn))
        gen = os.path.join(scratch, "gen")

        st = genleg.run_gen_leg(root=root, gen_dir=gen, geneq_dir=geneq)
        base_ok = (not st["failed"] and not st["gate"] and st["obligations"] > 0
                   and st["obligations"] == st["discharged"] and not st["skipped"])
        print("[%s] baseline: %d obligations, %d discharged, %d failed, %d skipped, cold %.1fs"
              % ("ok" if base_ok else "FAIL", st["obligations"], st["discharged"], len(st["failed"]),
                 len(st["skipped"]), st["wall_s"]))
        for f in st["failed"]:
            print("    failed: %s (%s)\n%s" % (f["lemma"], f["reason"], f["log_tail"][-400:]))
        ok &= base_ok
        st2 = genleg.run_gen_leg(root=root, gen_dir=gen, geneq_dir=geneq)
        warm_ok = (st2["changed"] is False and st2["wall_s"] < 2.0 and st2["discharged"] == st["discharged"])
        print("[%s] unchanged tree: changed=%s, warm %.3fs" % ("ok" if warm_ok else "FAIL", st2["changed"], st2["wall_s"]))
        ok &= warm_ok

        for idx, (desc, rel, anchor, old, new, exp_fail, exp_skip) in enumerate(MUTATIONS, 1):
            if only and idx not in only:
                continue
            path = os.path.join(root, rel)
            with open(path) as f:
                pristine = f.read()
            try:
                i = pristine.index(anchor)
                j = pristine.index(old, i)
                with open(path, "w") as f:
                    f.write(pristine[:j] + new + pristine[j + len(old):])
                st = genleg.run_gen_leg(root=root, gen_dir=gen, geneq_dir=geneq)
                got_fail = {f["lemma"] for f in st["failed"]}
                got_skip = {s["lemma"] for s in st["skipped"]}
                good = (got_fail == exp_fail and got_skip == exp_skip and st["changed"] is True
                        and not st["gate"] and not st["gen_compile_errors"])
                where = sorted({f["python"] for f in st["failed"]})
                print("[%s] %2d %s\n        failed=%s skipped=%s (%.1fs)%s"
                      % ("ok" if good else "FAIL", idx, desc, sorted(got_fail), sorted(got_skip), st["wall_s"],
                         "\n        python: " + "; ".join(where) if where else ""))
                if not good:
                    print("        expected failed=%s skipped=%s" % (sorted(exp_fail), sorted(exp_skip)))
                    for f in st["failed"]:
                        if f["lemma"] not in exp_fail:
                            print("        unexpected: %s (%s)\n%s" % (f["lemma"], f["reason"], f["log_tail"][-400:]))
                ok &= good
            finally:
                with open(path, "w") as f:
                    f.write(pristine)
        st = genleg.run_gen_leg(root=root, gen_dir=gen, geneq_dir=geneq)
        back = not st["failed"] and not st["skipped"] and st["obligations"] == st["discharged"]
        print("[%s] restored copy: %d/%d discharged" % ("ok" if back else "FAIL", st["discharged"], st["obligations"]))
        ok &= back
    finally:
        if keep:
            print("scratch kept at", scratch)
        else:
            shutil.rmtree(scratch, ignore_errors=True)
    print("SELF-TEST %s (%.0fs)" % ("PASSED" if ok else "FAILED", time.time() - t_start))
    return 0 if ok else 1


if __name__ == "__main__":
    sys.exit(main(sys.argv))
