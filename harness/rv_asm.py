"""rv_asm.py — RISC-V assembler harness: abstract program generator, renderer with random spelling,
an independent reference assembler (documented syntax -> expected instruction fields and data bytes),
the fail-closed converter real-tokenizer-output -> model token lines, and the implementation loader."""
from __future__ import annotations
from common import MN, MNEMONICS, fmt_kind, instr_fields, lower_memory, cache_options
import toy_asm

ABI = ["zero", "ra", "sp", "gp", "tp", "t0", "t1", "t2", "s0", "s1", "a0", "a1", "a2", "a3", "a4", "a5", "a6", "a7",
       "s2", "s3", "s4", "s5", "s6", "s7", "s8", "s9", "s10", "s11", "t3", "t4", "t5", "t6"]
PSEUDO = {"li": 54, "la": 55, "mv": 56}
DATA = 0x4000


class ConvertError(Exception):
    pass


# ----------------------------------------------------------------------------- tokens -> model lines


class QStr(str):
    """body of a .string literal together with the quote character it is written with"""
    q = '"'

def _codes(s):
    return [ord(c) for c in s]


def _reg(pr):
    x = pr[0]
    if isinstance(x, str):
        return [[0, _codes(x)]]
    return [[1, _codes(x[1])]]


def _body(g, nid):
    mn = g.get("mnemonic")
    if mn is None:
        return [2]
    mn = mn.lower()
    num = MN.get(mn, PSEUDO.get(mn))
    if num is None:
        raise ConvertError("unknown mnemonic " + mn)
    f = [num]
    for name in ("rd", "rs1", "rs2", "reg1", "reg2", "rs"):
        v = g.get(name)
        f.append(_reg(v) if v is not None and len(v) else [])
    for name in ("imm", "csr", "uimm", "offset"):
        v = g.get(name)
        f.append([_codes(v)] if v else [])
    lab = g.get("label")
    f.append([nid(lab)] if lab else [])
    var = g.get("variable")
    if var is not None and var != "":
        idx = var.get("index")
        f.append([[nid(var.get("name")), [_codes(idx)] if idx else []]])
    else:
        f.append([])
    return [1, f]


STRS = {"ecall": 0, "ebreak": 1, "nop": 2}


def tokens_of(text):
    """('ok', lines) or ('syntax', line number); names interned per call"""
    from architecture_simulator.isa.riscv.riscv_parser import RiscvParser
    from architecture_simulator.isa.parser_exceptions import ParserSyntaxException
    p = RiscvParser()
    p.program = text
    p._sanitize()
    try:
        p._tokenize()
    except ParserSyntaxException as e:
        return ("syntax", e.line_number)
    names = {}

    def nid(s):
        return names.setdefault(s, len(names) + 1)

    out = []
    for ln, line, t in p.token_list:
        if not isinstance(t[0], str):
            g = t[0]
            if len(t) != 1:
                raise ConvertError("group line with several elements")
            if g.get("directive") in ("text", "data"):
                out.append([ln, 0, 0 if g.get("directive") == "text" else 1])
            elif g.get("type") is not None and g.get("name") is not None:
                ty = g.get("type").get("type")
                if ty in ("byte", "half", "word"):
                    out.append([ln, 1, nid(g.get("name")), ["byte", "half", "word"].index(ty), [_codes(v) for v in g.get("values")]])
                elif ty == "string":
                    out.append([ln, 2, nid(g.get("name")), _codes(g.get("string"))])
                elif ty == "zero":
                    out.append([ln, 3, nid(g.get("name")), _codes(g.get("value"))])
                else:
                    raise ConvertError("unknown declaration type")
            elif g.get("mnemonic") is not None:
                out.append([ln, 5, [], _body(g, nid)])
            else:
                raise ConvertError("unknown group " + g.dump())
        elif len(t) == 1:
            if t[0] in STRS and t.get("mnemonic"):
                out.append([ln, 5, [], [0, STRS[t[0]]]])
            elif t.get_name() == "label_declaration":
                out.append([ln, 4, nid(t[0])])
            else:
                raise ConvertError("unknown single token " + t.dump())
        elif len(t) == 2:
            b = t[1]
            if isinstance(b, str):
                if b not in STRS:
                    raise ConvertError("unknown string body " + b)
                out.append([ln, 5, [nid(t[0])], [0, STRS[b]]])
            else:
                out.append([ln, 5, [nid(t[0])], _body(b, nid)])
        else:
            raise ConvertError("unexpected token list length")
    return ("ok", out)


# ----------------------------------------------------------------------------- implementation side

def impl_load(text, dcfg=None, icfg=None, sim=None, other_isa_first=False):
    """load_program on a (fresh) simulation; returns (sim, error record or None)"""
    from architecture_simulator.simulation.riscv_simulation import RiscvSimulation
    if other_isa_first:
        # the OTHER assembler sees the same lines first, in this process (state shared between the two parsers
        # must not leak); its own verdicts are irrelevant here
        from architecture_simulator.simulation.toy_simulation import ToySimulation
        seen = []
        for ln in text.splitlines():
            t = ln.strip()
            if t and t not in seen:
                seen.append(t)
        for t in seen[:10]:
            try:
                ToySimulation().load_program(t)
            except Exception:
                pass
    if sim is None:
        sim = RiscvSimulation(data_cache=cache_options(dcfg or []), instruction_cache=cache_options(icfg or []))
    try:
        sim.load_program(text)
        return sim, None
    except Exception as e:
        return sim, toy_asm.map_load_exc(e)


def listing(sim):
    """[[fields, repr codes], ...] in address order, in the model's sx_image layout"""
    im = sim.state.instruction_memory
    ins = getattr(im, "instructions", None)
    if ins is None:
        ins = im.instruction_memory.instructions
    out = []
    for k, (a, i) in enumerate(sorted(ins.items())):
        if a != 4 * k:
            raise ConvertError("instruction addresses are not consecutive")
        out.append([instr_fields(i), _codes(repr(i))])
    return out


def lower_bytes(sim):
    low = lower_memory(sim.state)
    return sorted([a, int(v)] for a, v in low.memory_file.items())


# ----------------------------------------------------------------------------- abstract programs

def sext(v, bits):
    v &= (1 << bits) - 1
    return v - (1 << bits) if v >> (bits - 1) else v


def li_split(c):
    """standard RISC-V lui/addi split: (hi20, lo12 signed) with (hi << 12) + lo == c (mod 2^32)"""
    c &= 0xFFFFFFFF
    lo = sext(c & 0xFFF, 12)
    hi = ((c - lo) >> 12) & 0xFFFFF
    return hi, lo


class AbsProg:
    """items: ('label', name) | ('ins', mnemonic, operands dict, inline_label or None)
       data: list of (name, kind, payload)"""
    def __init__(self):
        self.items = []
        self.data = []
        self.order = "plain"


def gen_far(rng):
    """directed family: label-form jal (and la/li groups in between) across MORE than 4 KiB of instructions, in both
    directions; conditional branches stay local (a B-type displacement beyond +-4 KiB is not encodable and is
    outside the claim)"""
    ap = AbsProg()
    reg = lambda: rng.randrange(32)
    def filler(k):
        out = []
        for _ in range(k):
            r = rng.random()
            if r < 0.7:
                out.append(("ins", "add", {"rd": reg(), "rs1": reg(), "rs2": reg()}, None))
            elif r < 0.85:
                out.append(("ins", "nop", {}, None))
            else:
                out.append(("ins", "li", {"rd": reg(), "imm": rng.choice([5, 2047, 2048, -2049, 0x12345, -1])}, None))
        return out
    pre = filler(rng.randrange(0, 4))
    mid = filler(rng.choice([1020, 1023, 1024, 1025, 1100, 1300]))
    post = filler(rng.randrange(0, 4))
    fwd = {"rd": reg(), "label": "far"}
    bwd = {"rd": reg(), "label": "near"}
    if rng.random() < 0.3:
        fwd["offset"] = 4 * rng.randrange(0, 3)
    if rng.random() < 0.3:
        bwd["offset"] = 4 * rng.randrange(0, 3)
    ap.items = ([("label", "near")] + pre + [("ins", "jal", fwd, "jf" if rng.random() < 0.3 else None)] + mid
                + [("ins", "beq", {"rs1": reg(), "rs2": reg(), "label": "far"}, None)]
                + ([("label", "far")] if rng.random() < 0.5 else []) )
    inline_far = not (ap.items and ap.items[-1] == ("label", "far"))
    first_post = ("ins", "add", {"rd": reg(), "rs1": reg(), "rs2": reg()}, "far" if inline_far else None)
    ap.items += [first_post] + post + [("ins", "jal", bwd, None), ("ins", "bne", {"rs1": reg(), "rs2": reg(), "label": "far"}, None)]
    return ap


def gen_abs(rng, allow_pseudo=True, n_max=14):
    if n_max == "far":
        return gen_far(rng)
    ap = AbsProg()
    kinds = ["byte", "half", "word", "string", "zero"]
    names = ["a", "buf", "msg", "tab", "v1", "zz", "cnt"]
    rng.shuffle(names)
    for k in range(rng.randrange(0, 5)):
        kind = rng.choice(kinds)
        if kind in ("byte", "half", "word"):
            w = {"byte": 8, "half": 16, "word": 32}[kind]
            vals = [rng.choice([0, 1, -1, (1 << w) - 1, 1 << w, -(1 << (w - 1)), rng.randrange(-(1 << w), 1 << (w + 1))])
                    for _ in range(rng.randrange(1, 6))]
            ap.data.append((names[k], kind, vals))
        elif kind == "string":
            s = "".join(rng.choice("abc XYZ09!?,;" + ("üé€Ω" if rng.random() < 0.15 else "")) for _ in range(rng.randrange(0, 8)))
            if rng.random() < 0.35:
                # every literal form pp.quoted_string admits: either quote character, the other quote inside, the own quote
                # escaped or doubled, backslash pairs — at the ends of the body as well (the stored bytes are the body as written)
                q = rng.choice("\"'")
                o = "'" if q == '"' else '"'
                pieces = [rng.choice(["a", "Z", " ", "7", o, "\\" + q, "\\\\", q + q, "\\n", o + o]) for _ in range(rng.randrange(0, 6))]
                s = QStr("".join(pieces))
                s.q = q
            ap.data.append((names[k], kind, s))
        else:
            ap.data.append((names[k], kind, rng.randrange(0, 5)))
    labels = ["main", "loop", "end", "L1", "skip_2", "fn"]
    rng.shuffle(labels)
    n = rng.randrange(1, n_max)
    label_at = {}
    for lab in labels[:rng.randrange(0, 4)]:
        label_at.setdefault(rng.randrange(0, n + 1), []).append(lab)
    all_labels = [l for ls in label_at.values() for l in ls]
    for i in range(n + 1):
        inline = None
        for lab in label_at.get(i, []):
            if i < n and inline is None and rng.random() < 0.5:
                inline = lab
            else:
                ap.items.append(("label", lab))
        if i == n:
            break
        r = rng.random()
        reg = lambda: rng.randrange(32)
        if r < 0.22:
            ap.items.append(("ins", rng.choice(MNEMONICS[0:18]), {"rd": reg(), "rs1": reg(), "rs2": reg()}, inline))
        elif r < 0.36:
            ap.items.append(("ins", rng.choice(MNEMONICS[18:24]), {"rd": reg(), "rs1": reg(), "imm": rng.choice([-2048, -1, 0, 1, 2047, rng.randrange(-2048, 2048)])}, inline))
        elif r < 0.42:
            ap.items.append(("ins", rng.choice(MNEMONICS[24:27]), {"rd": reg(), "rs1": reg(), "imm": rng.randrange(0, 32)}, inline))
        elif r < 0.50:
            ap.items.append(("ins", rng.choice(MNEMONICS[27:33]), {"rd": reg(), "rs1": reg(), "imm": rng.randrange(-2048, 2048)}, inline))
        elif r < 0.56:
            ap.items.append(("ins", rng.choice(MNEMONICS[34:37]), {"rs2": reg(), "rs1": reg(), "imm": rng.randrange(-2048, 2048)}, inline))
        elif r < 0.66:
            tgt = rng.choice(all_labels) if all_labels and rng.random() < 0.7 else None
            opnd = {"rs1": reg(), "rs2": reg()}
            if tgt:
                opnd["label"] = tgt
                if rng.random() < 0.3:
                    opnd["offset"] = 4 * rng.randrange(0, 4)
            else:
                opnd["imm"] = 2 * rng.randrange(-40, 40)
            ap.items.append(("ins", rng.choice(MNEMONICS[37:43]), opnd, inline))
        elif r < 0.71:
            tgt = rng.choice(all_labels) if all_labels and rng.random() < 0.6 else None
            opnd = {"rd": reg()}
            if tgt:
                opnd["label"] = tgt
                if rng.random() < 0.3:
                    opnd["offset"] = 4 * rng.randrange(0, 4)
            else:
                opnd["imm"] = 4 * rng.randrange(0, 30)
            ap.items.append(("ins", "jal", opnd, inline))
        elif r < 0.76:
            ap.items.append(("ins", rng.choice(["lui", "auipc"]), {"rd": reg(), "imm": rng.choice([0, 1, 0x7FFFF, 0x80000, 0xFFFFF, rng.randrange(1 << 20)])}, inline))
        elif r < 0.80:
            ap.items.append(("ins", rng.choice(["ecall", "ebreak", "nop"] if allow_pseudo else ["ecall", "ebreak"]), {}, inline))
        elif not allow_pseudo:
            ap.items.append(("ins", "add", {"rd": reg(), "rs1": reg(), "rs2": reg()}, inline))
        elif r < 0.84:
            ap.items.append(("ins", "mv", {"rd": reg(), "rs": reg()}, inline))
        elif r < 0.92:
            c = rng.choice([0, 1, -1, 2047, 2048, -2048, -2049, 0x7FF, 0x800, 0xFFF, 0x1000, 0x12345, 0x7FFFFFFF, 0x80000000,
                            0xFFFFF800, 0xFFFFFFFF, -0x80000000, 0x100000000 + 5, rng.getrandbits(32), -rng.getrandbits(31)])
            ap.items.append(("ins", "li", {"rd": reg(), "imm": c}, inline))
        elif ap.data:
            name, kind, payload = rng.choice(ap.data)
            nel = len(payload) if kind in ("byte", "half", "word") else (len(payload) + 1 if kind == "string" else payload)
            idx = rng.randrange(0, max(1, nel)) if rng.random() < 0.6 else None
            which = rng.random()
            if which < 0.4:
                ap.items.append(("ins", "la", {"rd": reg(), "var": name, "index": idx}, inline))
            elif which < 0.7:
                ap.items.append(("ins", rng.choice(["lb", "lh", "lw", "lbu", "lhu"]), {"rd": reg(), "var": name, "index": idx}, inline))
            else:
                ap.items.append(("ins", rng.choice(["sb", "sh", "sw"]), {"rs2": reg(), "var": name, "index": idx, "rt": reg()}, inline))
        else:
            ap.items.append(("ins", "nop", {}, inline))
    ap.order = rng.choice(["data-first", "text-first"]) if ap.data else rng.choice(["plain", "text-only"])
    return ap


def _spell_reg(rng, r):
    return ABI[r] if rng.random() < 0.5 else "x%d" % r


def _spell_num(rng, v, allow_neg=True):
    r = rng.random()
    if v < 0 and not allow_neg:
        return str(v)
    sign = "-" if v < 0 else ""
    a = abs(v)
    if r < 0.5:
        return sign + str(a)
    if r < 0.8:
        return sign + "0x" + ("%X" % a if rng.random() < 0.5 else "%x" % a)
    return sign + "0b" + bin(a)[2:]


def _spell_mn(rng, mn):
    r = rng.random()
    if r < 0.55:
        return mn
    if r < 0.75:
        return mn.upper()
    if r < 0.9:
        return mn.capitalize()
    return "".join(c.upper() if rng.random() < 0.5 else c for c in mn)      # any mix of cases


def render(rng, ap: AbsProg, noise=True):
    tl = []
    for it in ap.items:
        if it[0] == "label":
            tl.append(it[1] + ":")
            continue
        _, mn, o, inline = it
        R = lambda r: _spell_reg(rng, r)
        N = lambda v: _spell_num(rng, v)
        m = _spell_mn(rng, mn)
        k = fmt_kind(MN[mn]) if mn in MN else None
        if mn in ("ecall", "ebreak", "nop"):
            s = m
        elif k == "R":
            s = f"{m} {R(o['rd'])}, {R(o['rs1'])}, {R(o['rs2'])}"
        elif mn in MNEMONICS[27:33] and "var" not in o:
            s = f"{m} {R(o['rd'])}, {N(o['imm'])}({R(o['rs1'])})" if rng.random() < 0.6 else f"{m} {R(o['rd'])}, {R(o['rs1'])}, {N(o['imm'])}"
        elif k == "I":
            s = f"{m} {R(o['rd'])}, {R(o['rs1'])}, {N(o['imm'])}"
        elif k == "S" and "var" not in o:
            s = f"{m} {R(o['rs2'])}, {N(o['imm'])}({R(o['rs1'])})" if rng.random() < 0.6 else f"{m} {R(o['rs2'])}, {R(o['rs1'])}, {N(o['imm'])}"
        elif k == "B":
            if "label" in o:
                t = o["label"] + ("+0x%X" % o["offset"] if "offset" in o else "")
            else:
                t = N(o["imm"])
            s = f"{m} {R(o['rs1'])}, {R(o['rs2'])}, {t}"
        elif mn == "jal":
            t = (o["label"] + ("+0x%x" % o["offset"] if "offset" in o else "")) if "label" in o else N(o["imm"])
            s = f"{m} {R(o['rd'])}, {t}"
        elif k == "U":
            s = f"{m} {R(o['rd'])}, {N(o['imm'])}"
        elif mn == "mv":
            s = f"{m} {R(o['rd'])}, {R(o['rs'])}"
        elif mn == "li":
            s = f"{m} {R(o['rd'])}, {N(o['imm'])}"
        elif "var" in o:
            v = o["var"] + ("[%d]" % o["index"] if o.get("index") is not None else "")
            if mn in ("sb", "sh", "sw"):
                s = f"{m} {R(o['rs2'])}, {v}, {R(o['rt'])}"
            else:
                s = f"{m} {R(o['rd'])}, {v}"
        else:
            raise ValueError(it)
        if noise and rng.random() < 0.3:
            s = s.replace(", ", rng.choice([",", " , ", ",  "]))
        tl.append((inline + ": " if inline else "") + s)
    dl = []
    for name, kind, payload in ap.data:
        if kind in ("byte", "half", "word"):
            dl.append(f"{name}: .{kind} " + ", ".join(_spell_num(rng, v) for v in payload))
        elif kind == "string":
            q = getattr(payload, "q", '"')
            dl.append(f"{name}: .string {q}{payload}{q}")
        else:
            dl.append(f"{name}: .zero {payload}")
    if ap.order == "data-first":
        src = [".data"] + dl + [".text"] + tl
    elif ap.order == "text-first":
        src = [".text"] + tl + [".data"] + dl
    elif ap.order == "text-only":
        src = [".text"] + tl
    else:
        src = tl
    if not noise:
        return "\n".join(src)
    out = []
    for l in src:
        if rng.random() < 0.12:
            out.append(rng.choice(["", "    ", "# comment", "\t# li x1, 5"]))
        out.append(rng.choice(["", "", "  ", "\t"]) + l + rng.choice(["", "", " ", "   # trailing", "#x"]))
    return "\n".join(out) + rng.choice(["", "\n"])


# ----------------------------------------------------------------------------- reference assembler

def ref_layout(ap: AbsProg):
    """documented data layout: {name: (address, element size)}, bytes {addr: value}"""
    addr = DATA
    table, mem = {}, {}
    for name, kind, payload in ap.data:
        addr = (addr + 3) & ~3
        if kind in ("byte", "half", "word"):
            w = {"byte": 1, "half": 2, "word": 4}[kind]
            table[name] = (addr, w)
            for v in payload:
                v %= 1 << (8 * w)
                for k in range(w):
                    mem[addr + k] = (v >> (8 * k)) & 255
                addr += w
        elif kind == "string":
            table[name] = (addr, 1)
            for ch in payload:
                mem[addr] = ord(ch) & 255
                addr += 1
            mem[addr] = 0
            addr += 1
        else:
            table[name] = (addr, 4)
            addr += 4 * payload
    return table, {a: v for a, v in mem.items()}


def ref_assemble(ap: AbsProg):
    """expected instruction list [(mnemonic number, fields...)] in the layout of instr_fields, with
    immediates as the constructors store them; raises KeyError for unknown labels"""
    table, _ = ref_layout(ap)
    # first pass: sizes
    sizes = []
    for it in ap.items:
        if it[0] == "label":
            sizes.append(0)
            continue
        mn, o = it[1], it[2]
        if mn == "li":
            sizes.append(1 if -2048 <= o["imm"] <= 2047 else 2)
        elif mn == "la":
            sizes.append(2)
        elif "var" in o:
            sizes.append(3)
        else:
            sizes.append(1)
    labels = {}
    a = 0
    for it, sz in zip(ap.items, sizes):
        if it[0] == "label":
            labels[it[1]] = a
        else:
            if it[3]:
                labels[it[3]] = a
            a += 4 * sz
    out = []
    pseudo = set()          # positions in [out] that come from a pseudo-instruction (their exact shape is not mandated)
    a = 0
    for it, sz in zip(ap.items, sizes):
        if it[0] == "label":
            continue
        mn, o = it[1], it[2]
        if mn in ("nop", "mv", "li", "la") or "var" in o:
            pseudo.update(range(len(out), len(out) + sz))
        if mn == "nop":
            out.append([MN["addi"], 0, 0, 0])
        elif mn == "mv":
            out.append([MN["addi"], o["rd"], o["rs"], 0])
        elif mn == "li":
            c = o["imm"]
            if -2048 <= c <= 2047:
                out.append([MN["addi"], o["rd"], 0, c])
            else:
                hi, lo = li_split(c)
                out.append([MN["lui"], o["rd"], sext(hi, 20)])
                out.append([MN["addi"], o["rd"], o["rd"], lo])
        elif "var" in o:
            base, size = table[o["var"]]
            addr = base + size * (o["index"] or 0)
            hi, lo = li_split(addr)
            r = o["rt"] if mn in ("sb", "sh", "sw") else o["rd"]
            out.append([MN["lui"], r, sext(hi, 20)])
            out.append([MN["addi"], r, r, lo])
            if mn in ("sb", "sh", "sw"):
                out.append([MN[mn], r, o["rs2"], 0])
            elif mn != "la":
                out.append([MN[mn], r, r, 0])
        else:
            n = MN[mn]
            k = fmt_kind(n)
            if k == "R":
                out.append([n, o["rd"], o["rs1"], o["rs2"]])
            elif k in ("I", "L"):
                out.append([n, o["rd"], o["rs1"], o["imm"]])
            elif k in ("E", "EB"):
                out.append([n])
            elif k == "S":
                out.append([n, o["rs1"], o["rs2"], o["imm"]])
            elif k == "B":
                imm = (labels[o["label"]] + o.get("offset", 0) - a) if "label" in o else o["imm"]
                out.append([n, o["rs1"], o["rs2"], sext(imm, 13)])
            elif k == "U":
                out.append([n, o["rd"], sext(o["imm"], 20)])
            elif k == "J":
                imm = (labels[o["label"]] + o.get("offset", 0) - a) if "label" in o else o["imm"] - a
                out.append([n, o["rd"], sext(imm, 21), imm + a])
        a += 4 * sz
    labels = dict(labels)
    labels["__pseudo_positions__"] = pseudo
    return out, labels
