"""gen_rv.py — generators of RISC-V programs (as raw constructor tuples) and initial states.
All randomness comes from the rng passed in, so every case replays from (seed, index)."""
from __future__ import annotations
from common import MN, MNEMONICS, fmt_kind

DATA = 0x4000          # first data address
B32 = [0, 1, 2, 3, 4, 31, 32, 33, 0x7FF, 0x800, 0xFFF, 0x1000, 0x3FFF, 0x4000, 0x4003, 0x4004,
       0x7FFFFFFF, 0x80000000, 0x80000001, 0xFFFFF800, 0xFFFFFFFC, 0xFFFFFFFD, 0xFFFFFFFE, 0xFFFFFFFF]
IMM12 = [-2048, -2047, -1, 0, 1, 2, 4, 31, 32, 2046, 2047]
SHAMT = [0, 1, 15, 16, 30, 31]
IMM20 = [-(1 << 19), -(1 << 19) + 1, -1, 0, 1, 4, (1 << 19) - 1, 0xFFFFF, 0x80000]
ALIAS = [(3, 1, 2), (1, 1, 2), (2, 1, 2), (1, 1, 1), (0, 1, 2), (3, 0, 2), (3, 1, 0), (3, 1, 1), (3, 0, 0)]

R_OPS = list(range(0, 18))
I_OPS = list(range(18, 24))
SH_OPS = [24, 25, 26]
L_OPS = [27, 28, 29, 30, 31]
S_OPS = [34, 35, 36]
B_OPS = list(range(37, 43))
ECALL_CODES = [1, 2, 4, 10, 11, 34, 35, 36, 93]


def rnd32(rng):
    r = rng.random()
    if r < 0.45:
        return rng.choice(B32)
    if r < 0.6:
        return rng.choice(B32) ^ (1 << rng.randrange(32))
    if r < 0.7:
        return DATA + rng.randrange(0, 64)
    return rng.getrandbits(32)


def rnd_imm12(rng):
    return rng.choice(IMM12) if rng.random() < 0.5 else rng.randrange(-2048, 2048)


def small_reg(rng):
    return rng.choice([0, 1, 2, 3, 5, 10, 17]) if rng.random() < 0.85 else rng.randrange(32)


def mem_preset(rng, n=None):
    """a few bytes at the start of data memory, including a zero-terminated string at DATA+32"""
    cells = {}
    for k in range(rng.randrange(0, 24) if n is None else n):
        cells[DATA + rng.randrange(0, 32)] = rng.choice([0, 1, 0x7F, 0x80, 0xFF, rng.randrange(256)])
    s = [rng.choice([0x7F, 0x80, 0x81, 0xFF, 0x41, rng.randrange(1, 256)]) for _ in range(rng.randrange(0, 6))]
    for j, c in enumerate(s):
        cells[DATA + 32 + j] = c
    if rng.random() < 0.8:
        cells[DATA + 32 + len(s)] = 0
    return sorted([a, v] for a, v in cells.items())


def reg_preset(rng):
    regs = {}
    for r in range(1, 32):
        if rng.random() < 0.6:
            regs[r] = rnd32(rng)
    if rng.random() < 0.7:
        regs[17] = rng.choice([1, 11, 34, 35, 36, 4, 1, 11])     # a valid printing service for bare ecalls
        regs[10] = rng.choice([65, 7, DATA + 32, rnd32(rng)])
    regs[8] = DATA + 4 * rng.randrange(0, 8)      # data base registers
    regs[9] = DATA + rng.randrange(0, 40)
    return sorted([r, v] for r, v in regs.items())


# --------------------------------------------------------------------------- single instructions

def gen_alu(rng):
    if rng.random() < 0.04:
        return [MN["addi"], 0, 0, 0]              # the canonical nop
    k = rng.random()
    rd, rs1, rs2 = small_reg(rng), small_reg(rng), small_reg(rng)
    if k < 0.5:
        return [rng.choice(R_OPS), rd, rs1, rs2]
    if k < 0.8:
        return [rng.choice(I_OPS), rd, rs1, rnd_imm12(rng)]
    if k < 0.9:
        return [rng.choice(SH_OPS), rd, rs1, rng.choice(SHAMT + [rng.randrange(0, 64)])]
    if k < 0.95:
        return [MN["lui"], rd, rng.choice(IMM20 + [rng.randrange(-(1 << 19), 1 << 20)])]
    return [MN["auipc"], rd, rng.choice(IMM20 + [rng.randrange(-(1 << 19), 1 << 20)])]


def gen_mem(rng, aligned_only=False, fault_p=0.05):
    if rng.random() < 0.12:
        # top of the address space through x0 and a negative offset (the effective address wraps modulo 2^32)
        off = -rng.choice([4, 8, 12, 16]) if aligned_only else -rng.randrange(1, 20)
        if rng.random() < 0.5:
            op = rng.choice(L_OPS)
            if aligned_only:
                op = MN["lw"]
            return [op, small_reg(rng), 0, off]
        op = rng.choice(S_OPS)
        if aligned_only:
            op = MN["sw"]
        return [op, 0, small_reg(rng), off]
    base = rng.choice([8, 9]) if rng.random() > fault_p else rng.choice([0, 1, 2])
    if rng.random() < 0.5:
        op = rng.choice(L_OPS)
        width = {27: 1, 28: 2, 29: 4, 30: 1, 31: 2}[op]
    else:
        op = rng.choice(S_OPS)
        width = {34: 1, 35: 2, 36: 4}[op]
    off = rng.randrange(0, 32)
    if aligned_only:
        off -= off % 4
        if base == 9:
            base = 8
    if op in L_OPS:
        return [op, small_reg(rng), base, off]
    return [op, base, small_reg(rng), off]          # S-type: (rs1=base, rs2=data)


def gen_program(rng, maxlen=30, aligned_only=False, allow_fault=True, ecalls=True, jalr=True):
    """structured random program: ALU, memory, forward/backward branches, jal/jalr, ecalls"""
    n = rng.randrange(1, maxlen + 1)
    prog = []
    while len(prog) < n:
        i = len(prog)
        k = rng.random()
        if k < 0.45:
            prog.append(gen_alu(rng))
        elif k < 0.65:
            prog.append(gen_mem(rng, aligned_only, 0.05 if allow_fault else 0.0))
        elif k < 0.78:
            # branch to a valid index (or just past the end); mostly forward
            if rng.random() < 0.7:
                j = rng.randrange(i + 1, n + 2)
            else:
                j = rng.randrange(0, i + 1)
            prog.append([rng.choice(B_OPS), small_reg(rng), small_reg(rng), 4 * (j - i)])
        elif k < 0.84:
            j = rng.randrange(i + 1, n + 2) if rng.random() < 0.75 else rng.randrange(0, i + 1)
            prog.append([MN["jal"], rng.choice([0, 1, 5]), 4 * (j - i), 4 * j])
        elif k < 0.89 and jalr:
            j = rng.randrange(0, n + 2)
            r = rng.choice([5, 6, 7])
            if rng.random() < 0.25:
                # base register at the top of the 32-bit range: base + offset wraps past 2^32 onto the target
                back = 4 * rng.randrange(1, 200)
                prog.append([MN["addi"], r, 0, -back])
                prog.append([MN["jalr"], rng.choice([0, 1, r]), r, back + 4 * j + rng.choice([0, 0, 1])])
            else:
                prog.append([MN["addi"], r, 0, 4 * j + rng.choice([0, 0, 0, 1])])
                prog.append([MN["jalr"], rng.choice([0, 1, r]), r, rng.choice([0, 0, 4, -4, 1])])
        elif k < 0.91 and ecalls:
            prog.append([MN["ecall"]])            # bare ecall: a7/a0 come from the presets or from far earlier code
        elif k < 0.97 and ecalls:
            code = rng.choice(ECALL_CODES) if rng.random() < 0.9 or not allow_fault else rng.choice([0, 3, 5, 100])
            prog.append([MN["addi"], 17, 0, code])
            if rng.random() < 0.5:
                if code == 4:
                    prog.append([MN["addi"], 10, 8 if rng.random() < 0.5 else 9, rng.randrange(0, 40)])
                else:
                    prog.append([MN["addi"], 10, small_reg(rng), rnd_imm12(rng)])
            for _ in range(rng.choice([0, 0, 1, 2])):
                prog.append(gen_alu(rng))
            prog.append([MN["ecall"]])
        elif k < 0.985 and ecalls:
            # itoa style: the program STORES characters into a buffer and prints it (the print must see the stored bytes,
            # whatever sits between the processor and the backing store)
            base, off = rng.choice([8, 9]), rng.randrange(0, 28)
            for j in range(rng.randrange(1, 4)):
                prog.append([MN["addi"], 6, 0, rng.choice([65, 66, 48, 0x7F, 33])])
                prog.append([MN["sb"], base, 6, off + j])
            if rng.random() < 0.7:
                prog.append([MN["sb"], base, 0, off + j + 1])      # terminator
            prog.append([MN["addi"], 10, base, off])
            prog.append([MN["addi"], 17, 0, 4])
            prog.append([MN["ecall"]])
        else:
            prog.append(gen_alu(rng))
    if rng.random() < 0.3:
        # hot locations: repeat an existing store (same base register and offset) at a few more places
        stores = [t for t in prog if t[0] in S_OPS]
        for _ in range(rng.randrange(1, 4)):
            if stores:
                t = list(rng.choice(stores))
                t[2] = small_reg(rng)
                prog.insert(rng.randrange(0, len(prog) + 1), t)
        # branch offsets were computed before the insertion; programs stay well-formed (targets may shift)
    return prog


def gen_state_spec(rng, prog, dcache=None, icache=None):
    return [prog, reg_preset(rng), mem_preset(rng), dcache or [], icache or []]


def gen_cache_cfg(rng, small=True):
    """[ibits, bbits, assoc, plru, wt, penalty]"""
    ib = rng.randrange(0, 3 if small else 4)
    bb = rng.randrange(0, 3 if small else 4)
    plru = rng.random() < 0.5
    assoc = rng.choice([1, 2, 4, 8]) if plru else rng.choice([1, 2, 3, 4, 5, 8])
    return [ib, bb, assoc, plru, rng.random() < 0.5, rng.choice([0, 0, 1, 3, 10])]


def program_text(prog):
    """human readable listing of a raw program (for evidence samples / replays)"""
    from common import make_instr
    out = []
    for t in prog:
        try:
            out.append(repr(make_instr(t)))
        except Exception:
            out.append(str(t))
    return out


# --------------------------------------------------------------------------- shrinking helpers

NOP = [MN["addi"], 0, 0, 0]


def shrink_spec(spec):
    """candidates for a smaller [program, regs, mem, dcache, icache] case"""
    prog, regs, mem, dc, ic = spec
    # drop the tail
    for cut in range(len(prog) - 1, 0, -1):
        yield [prog[:cut], regs, mem, dc, ic]
    # replace single instructions by nop (keeps addresses)
    for i in range(len(prog)):
        if prog[i] != NOP:
            yield [prog[:i] + [NOP] + prog[i + 1:], regs, mem, dc, ic]
    for i in range(len(regs)):
        yield [prog, regs[:i] + regs[i + 1:], mem, dc, ic]
    for i in range(len(mem)):
        yield [prog, regs, mem[:i] + mem[i + 1:], dc, ic]
    if dc:
        yield [prog, regs, mem, [], ic]
    if ic:
        yield [prog, regs, mem, dc, []]
