"""lex_corr.py — correspondence of the model's lexer (coq/theories/Model/Lex.v) with the REAL tokenizer
(pyparsing grammar of riscv_parser.py + Parser._sanitize/_tokenize).

real_line(line)   -> [0] (no entry: blank/comment line) | [1] (ParserSyntaxException) | [2, tokens]
                     tokens in the layout of rv_asm.tokens_of for that line, without the line number and with
                     label/variable names as code-point lists instead of interned numbers
real_text(lines)  -> rv_asm.tokens_of("\\n".join(lines)) as [0, lines] | [1, line number]
CoqLex(driver)    -> the same two functions evaluated by the extracted Lex.lex_line / Lex.lex_text
                     (private driver built from /tmp/lexwork/MainLex.v, see the comment at the end)
e2e               -> Lex.rv_load_text on source text against RiscvSimulation.load_program (errors, listing, data bytes)
main              -> the validation loop: rendered programs, the malformed streams of props/c15.py, token-soup
                     mutations; per class: lines, outcomes, disagreements.

Run:  cd /verif && PYTHONPATH=/repo:/verif/harness PYTHONHASHSEED=0 /venv/bin/python harness/lex_corr.py build        (once)
      ... harness/lex_corr.py [n] [seed]      |      ... harness/lex_corr.py e2e [texts] [seed]
"""
from __future__ import annotations
import os
import random
import subprocess
import sys
from collections import Counter

from common import sx_dump, sx_parse
from rv_asm import tokens_of, _body, _codes, STRS, ConvertError, gen_abs, render

LINEBREAKS = "\n\x0b\x0c\r\x1c\x1d\x1e\x85\u2028\u2029"


def in_domain(line: str) -> bool:
    """Lex.lex_domain: the line can be an element of str.splitlines()"""
    return not any(c in LINEBREAKS for c in line)


def _convert_named(t):
    """one ParseResults of _pattern_line -> model token line (names as code lists); mirrors rv_asm.tokens_of"""
    nid = _codes
    if not isinstance(t[0], str):
        g = t[0]
        if len(t) != 1:
            raise ConvertError("group line with several elements")
        if g.get("directive") in ("text", "data"):
            return [0, 0 if g.get("directive") == "text" else 1]
        if g.get("type") is not None and g.get("name") is not None:
            ty = g.get("type").get("type")
            if ty in ("byte", "half", "word"):
                return [1, nid(g.get("name")), ["byte", "half", "word"].index(ty), [_codes(v) for v in g.get("values")]]
            if ty == "string":
                return [2, nid(g.get("name")), _codes(g.get("string"))]
            if ty == "zero":
                return [3, nid(g.get("name")), _codes(g.get("value"))]
            raise ConvertError("unknown declaration type")
        if g.get("mnemonic") is not None:
            return [5, [], _body(g, nid)]
        raise ConvertError("unknown group " + g.dump())
    if len(t) == 1:
        if t[0] in STRS and t.get("mnemonic"):
            return [5, [], [0, STRS[t[0]]]]
        if t.get_name() == "label_declaration":
            return [4, nid(t[0])]
        raise ConvertError("unknown single token " + t.dump())
    if len(t) == 2:
        b = t[1]
        if isinstance(b, str):
            if b not in STRS:
                raise ConvertError("unknown string body " + b)
            return [5, [nid(t[0])], [0, STRS[b]]]
        return [5, [nid(t[0])], _body(b, nid)]
    raise ConvertError("unexpected token list length")


def real_line(line: str):
    from architecture_simulator.isa.riscv.riscv_parser import RiscvParser
    from architecture_simulator.isa.parser_exceptions import ParserSyntaxException
    assert in_domain(line), "line contains a line-break character"
    p = RiscvParser()
    p.program = line
    p._sanitize()
    if not p.sanitized_program:
        return [0]
    assert len(p.sanitized_program) == 1
    try:
        p._tokenize()
    except ParserSyntaxException:
        return [1]
    return [2, _convert_named(p.token_list[0][2])]


def real_text(lines):
    r = tokens_of("\n".join(lines))
    return [0, r[1]] if r[0] == "ok" else [1, r[1]]


class CoqLex:
    def __init__(self, driver=os.environ.get("LEX_DRIVER", "/tmp/lexwork/driver")):
        self.p = subprocess.Popen([driver], stdin=subprocess.PIPE, stdout=subprocess.PIPE, text=True, bufsize=1)

    def _call(self, req):
        self.p.stdin.write(sx_dump(req) + "\n")
        self.p.stdin.flush()
        ans = self.p.stdout.readline()
        if ans.startswith("!error") or not ans:
            raise RuntimeError("driver: " + ans)
        return sx_parse(ans)

    def lines(self, lines):
        out = []
        for k in range(0, len(lines), 200):
            out += self._call([0] + [_codes(l) for l in lines[k:k + 200]])
        return out

    def text(self, lines):
        return self._call([1] + [_codes(l) for l in lines])

    def load(self, lines):
        """Lex.rv_load_text on a fresh state without caches: [error?, image?, lower memory]"""
        return self._call([2] + [_codes(l) for l in lines])

    def close(self):
        self.p.stdin.close()
        self.p.wait()


# ----------------------------------------------------------------------------- generators

def gen_rendered(rng):
    """(a) lines of rendered well-formed programs, every spelling"""
    ap = gen_abs(rng, n_max=rng.choice([6, 14]))
    return render(rng, ap).splitlines()


def gen_c15(rng):
    """(b) the malformed streams of props/c15.py (fault injection, look-alikes, vocabulary soup, character soup)"""
    from props import c15
    r = rng.random()
    if r < 0.55:
        text = c15.inject(rng, render(rng, gen_abs(rng, n_max=8)), c15.RV_FAULTS)
    elif r < 0.85:
        text = c15.soup(rng, c15.RV_VOCAB)
    else:
        text = "".join(rng.choice(["\n", " ", "a", "0", "x", ":", ".", ",", "#", "\"", "é", " ", "(", "-", chr(rng.randrange(32, 0x250))])
                       for _ in range(rng.randrange(0, 60)))
    return text.splitlines()


SPECIAL = ["ı", "İ", "ſ", "K", "é", "\xa0", "\u2003", "\x1f", "\u3000", "ß", "ﬁ", "ŉ", "ǰ", "\U0001F600", "\x00", "\x7f"]
ALPHA = list(" \t,()[]\"'+-:.#x0b1_\\") + list("adilswxtz019AXF") + SPECIAL
PIECES = ["add", "ADD", "addi", "sub", "sll", "slli", "slt", "sltu", "sltiu", "or", "ori", "mul", "mulh", "mulhsu", "lb", "lbu", "lw", "LW", "sw", "sb",
          "jal", "jalr", "JALR", "beq", "bgeu", "lui", "auipc", "li", "LI", "lı", "la", "mv", "nop", "ecall", "ebreak", "ebreaK", "fence", "csrrw",
          "csrrwi", "csrrci", "x0", "x1", "x9", "x10", "x31", "x32", "x", "zero", "ra", "sp", "s1", "s10", "s11", "s12", "a0", "a7", "a8", "t6", "fp",
          "0", "7", "-1", "0x1F", "0xfg", "0X1", "0b101", "0b12", "-0x8", "--1", "-", "0x", "0b", "007", "foo", "_a1", "loop", "L1", "foo[2]", "foo[",
          "[2]", "foo[02]", "foo+0x4", "+", "+0x4", "+4", ",", ",", ",", "(", ")", ":", ":", ".", ".data", ".text", ".word", ".byte", ".half",
          ".string", ".zero", "\"ab\"", "'c d'", "\"a\"\"b\"", "\"a\\\"b\"", "\"\\x41\"", "\"\\xg\"", "\"", "'", "\"a\tb\"", "#", "# c", "4(x2)",
          "-4(sp)", "(x2)", "x1,", "a0,", "foo:", "foo :", "data", "text", "string", "word"]


def mutate(rng, line):
    s = list(line)
    for _ in range(rng.choice([1, 1, 1, 2, 3])):
        op = rng.random()
        k = rng.randrange(0, len(s) + 1)
        if op < 0.35:
            s.insert(k, rng.choice(ALPHA))
        elif op < 0.6 and s:
            del s[min(k, len(s) - 1)]
        elif op < 0.75 and s:
            k = min(k, len(s) - 1)
            s.insert(k, s[k])
        elif op < 0.9 and s:
            s[min(k, len(s) - 1)] = rng.choice(ALPHA)
        elif s:
            k = min(k, len(s) - 1)
            s[k] = s[k].swapcase()
    return "".join(s)


def gen_mut(rng):
    """(c) token-soup mutations: character edits of rendered lines, and random concatenations of token pieces"""
    out = []
    r = rng.random()
    if r < 0.55:
        for l in gen_rendered(rng):
            out.append(mutate(rng, l) if rng.random() < 0.8 else l)
    else:
        for _ in range(rng.randrange(3, 12)):
            seps = rng.choice([[" "], ["", " "], ["", " ", "\t", "  "], [" ", ", ", ","]])
            n = rng.randrange(1, 9)
            l = "".join(rng.choice(PIECES) + rng.choice(seps) for _ in range(n))
            out.append(mutate(rng, l) if rng.random() < 0.3 else l)
    return [l for p in out for l in (p.splitlines() or [""])]


def directed_lines():
    """(d) systematic enumeration: every mnemonic x operand shape x spelling (no blank, tab, upper case, capitalised, in-line
    label, label named like the mnemonic, characters that case-fold to ASCII letters), every register spelling incl. invalid
    ones, number spellings in every operand position, quoted strings (tabs at several columns, doubled and escaped quotes,
    \\x escapes, unterminated), directives, declarations and punctuation faults"""
    from common import MNEMONICS
    lines = []
    MN = MNEMONICS + ["li", "la", "mv", "nop"]
    SUB = {"i": ["ı", "İ", "I"], "s": ["ſ", "S"], "k": ["K", "K"], "l": ["L"], "a": ["A"], "e": ["E"]}
    OPS = ["x1, x2, x3", "x1, x2, 5", "x1, 4(x2)", "x1, foo", "x1, foo[1], x2", "x1, 5", "x1, x2", "x1, 0x300, x2", "x1, 0x300, 3", "x1, x2, foo+0x4", "x1, foo+0x8", "a0,a1,a2", ""]
    for m in MN:
        for ops in OPS:
            for sep in [" ", "", "\t"]:
                lines.append(m + sep + ops)
                lines.append(m.upper() + sep + ops)
                lines.append("lbl: " + m.capitalize() + sep + ops)
                lines.append(m + ": " + m + sep + ops)
            for k, c in enumerate(m):
                for r in SUB.get(c, []):
                    lines.append(m[:k] + r + m[k+1:] + " " + ops)
                    lines.append(m[:k].upper() + r + m[k+1:].upper() + " " + ops)
    # registers
    REGS = ["zero","ra","sp","gp","tp","fp"] + ["t%d"%i for i in range(8)] + ["s%d"%i for i in range(13)] + ["a%d"%i for i in range(9)] + ["x%d"%i for i in range(34)] + ["x 7", "x\t12", "x01", "X1", "A0", "x", "s", "x1x", "x1 0"]
    for r in REGS:
        lines += ["add %s, %s, %s" % (r, r, r), "add%s,%s,%s" % (r, r, r), "lw %s, 0(%s)" % (r, r), "mv %s,%s" % (r, r), "fence %s, %s" % (r, r), "li%s,1" % r, "jal%s,8" % r, "jalr%s,%s,8" % (r, r)]
    # numbers
    NUMS = ["0", "00", "007", "12", "-12", "- 12", "+12", "0x1f", "0X1f", "0x1G", "-0xAb", "0x", "0b", "0b102", "0b1", "-0b0", "0o7", "1_000", "1e3", "１２", "٣", "--1", "-", "0x-1", "0 x1", "0b 1", "12abc", "0xabcdefABCDEF0123456789"]
    for n in NUMS:
        lines += ["li x1, " + n, "addi x1, x2, " + n, "lw x1, %s(x2)" % n, "lw x1, %s (x2)" % n, "v: .word " + n, "v: .byte 1, %s, 2" % n, "v: .half %s,%s" % (n, n), "z: .zero " + n,
                  "csrrw x1, %s, x2" % n, "csrrwi x1, %s, %s" % (n, n), "jal x1, " + n, "beq x1, x2, " + n, "beq x1, x2, foo+" + n, "jal x1, foo +" + n, "la x1, foo[%s]" % n, "lui x1," + n]
    # strings with tabs at various columns, quotes, escapes
    for pre in ["m:", "m: ", "m:\t", "m :  ", "\tm:", "longer_name_1:"]:
        for d in [".string", ". string", ".string ", ".string\t", ".String", ".strings"]:
            for s in ['"a\tb"', '"\t"', '"a""b"', '"a"b"', "'a\tb'", "'it''s'", '"a\\"b"', '"a\\\\"', '"a\\"', '"\\x41\\x4g"', '"\\xg"', '"\\x"', '"x\\', '""', "''", '"', '"abc', '"a#b"', '"a" # c', '"a"\t', '"a" x', '"é\tΩ"', '"a\'b"', "'a\"b'", '"\\', '"a\\x4"1"']:
                lines.append(pre + d + s)
                lines.append(pre + d + " " + s)
    # directives / declarations
    for l in [".data", ".text", ". data", ".\ttext", ".Data", ".dataa", ".data .text", ".bss", ".", "..data", ".word 1", "a: .word", "a: .word 1 2", "a: .word 1,2,3", "a: .word 1 , 2 ,3", "a: .word 1,,2", "a: .word ,1", "a: .word 1,", "a:.word 1", "a : . word 1", "1a: .word 1", "a b: .word 1", "a: .wordx 1", "a: .word1", "a: .byte0x1,2", "a: .half-1", "a: .zero 3", "a: .zero3", "a: .zero -3", "a: .zero 3,4", "a: .zero", "a: .zero 3 4", "a::", "a:", "a :", ":a", "a", "_", "_:", "a1_:", "a: b:", "a: b: nop", "a: nop", "a:nop", "a: .data", "a: ecall x", "ecall ebreak", "ecallx", "nop:", "nop: nop", "x1: add x1,x1,x1", "text: .word 1", "é: nop", "aé: nop", "a\xa0: nop", "\xa0a: nop\xa0", "\u3000 nop \u2003# c", "nop\x1f", "\x1fnop", "nop\x1fnop", "nop \x00", "# c", " \t# c", "#", "", "   ", "\t", "\xa0", "nop#", "nop #\tc", "#nop", "a: .string \"x#y\"", "a: .word 1 # 2", "add x1,x2,x3,", "add x1,x2,x3 x4", "add ,x1,x2,x3", "add x1 x2 x3", "add x1,,x2,x3", "lw x1, 4(x2", "lw x1, 4 x2)", "lw x1, (x2)", "lw x1, 4()", "lw x1, 4((x2))", "lw x1, 4(x2))", "sw x1, foo[1],x2", "sw x1, foo [1], x2", "sw x1, foo[ 1], x2", "sw x1, foo[1 ], x2", "sw x1, foo[], x2", "sw x1, foo[1][2], x2", "sw x1, foo[1]", "la x1, foo[1]x", "la x1, 5", "la x1, x2, 3", "lw x1, x2, foo", "beq x1, x2, foo + 0x4", "beq x1, x2, foo +0x4", "beq x1, x2, foo+ 0x4", "beq x1, x2, foo+0x", "beq x1, x2, foo+0x4+0x4", "beq x1, x2, foo-0x4", "beq x1, x2, +0x4", "jal x1, foo[1]", "jal x1", "jal x1,", "jal ,8", "jal foo", "jal x1, -8", "jal x1, - 8", "j foo", "ret", "call foo", "not x1, x2", "li x1, foo", "lui x1, foo", "fence", "fence x1", "fence x1, x2, x3", "fence iorw, iorw", "csrrw x1, foo, x2", "csrrwi x1, 1, x2", "csrrw x1, 1, 2", "mv x1, 5", "mv x1, x2, x3"]:
        lines.append(l)
        lines.append("  " + l + "  ")
        lines.append("q: " + l)
    return [l for l in lines if in_domain(l)]


def gen_strings(rng):
    """(e) string declarations with tabs, quotes, backslashes, '#', non-ASCII at random columns"""
    out = []
    for _ in range(rng.randrange(2, 8)):
        q = rng.choice(['"', '"', "'"])
        body = "".join(rng.choice(["a", "b", " ", "\t", "\t", q, q + q, "\\", "\\" + q, "\\x4", "\\x", "\\n", "#", "é", "Ω", "'", '"', ",", "ı"])
                       for _ in range(rng.randrange(0, 9)))
        pre = rng.choice(["", " ", "\t", "  \t"]) + rng.choice(["m", "msg_1", "s"]) + rng.choice([":", ": ", ":\t", " :  "])
        post = rng.choice(["", "", " ", "\t", " # c", "#", " x", q])
        out.append(pre + rng.choice([".string", ".string ", ".string\t", ". string "]) + q + body + rng.choice([q, q, q, ""]) + post)
    return [l for p in out for l in (p.splitlines() or [""])]


GENS = [("rendered", gen_rendered), ("c15-malformed", gen_c15), ("mutations", gen_mut), ("strings", gen_strings)]


def main(n_lines=60000, seed=1):
    rng = random.Random(seed)
    coq = CoqLex()
    stats = {name: Counter() for name, _ in GENS}
    bad = []
    total = 0
    texts = 0
    stats["directed"] = Counter()
    dl = directed_lines()
    for l, m in zip(dl, coq.lines(dl)):
        try:
            w = real_line(l)
        except ConvertError as e:
            w = ["converr", str(e)]
        stats["directed"][("skip", "syntax", "ok")[w[0]] if isinstance(w[0], int) else "converr"] += 1
        if w != m:
            stats["directed"]["DISAGREE"] += 1
            bad.append(("directed", l, w, m))
    total += len(dl)
    while total < n_lines:
        name, g = GENS[rng.choices([0, 1, 2, 3], [6, 6, 8, 1])[0]]
        lines = [l for l in g(rng) if in_domain(l)]
        if not lines:
            continue
        want = []
        for l in lines:
            try:
                want.append(real_line(l))
            except ConvertError as e:
                want.append(["converr", str(e)])
        got = coq.lines(lines)
        for l, w, m in zip(lines, want, got):
            stats[name][("skip", "syntax", "ok")[w[0]] if isinstance(w[0], int) else "converr"] += 1
            if w != m:
                stats[name]["DISAGREE"] += 1
                bad.append((name, l, w, m))
        # whole-text pipeline (line numbers, interning, first error)
        try:
            wt = real_text(lines)
        except ConvertError:
            wt = None
        if wt is not None:
            texts += 1
            mt = coq.text(lines)
            if wt != mt:
                stats[name]["TEXT-DISAGREE"] += 1
                bad.append((name + "/text", "\n".join(lines), wt, mt))
        total += len(lines)
    coq.close()
    print("lines", total, "texts", texts)
    for name in stats:
        print(name, dict(stats[name]))
    print("disagreements", len(bad))
    for b in bad[:25]:
        print(repr(b[1]), "\n   real ", b[2], "\n   model", b[3])
    return len(bad)


def e2e(n_texts=3000, seed=5):
    """end to end: Lex.rv_load_text (tokenizer + assembler of the model, from SOURCE TEXT) against
    RiscvSimulation.load_program: error class and line, instruction listing (fields and repr), data bytes"""
    from rv_asm import impl_load, listing, lower_bytes
    from props import c15
    rng = random.Random(seed)
    coq = CoqLex()
    cnt = Counter()
    bad = []
    for _ in range(n_texts):
        r = rng.random()
        ap = gen_abs(rng, n_max=rng.choice([6, 14]))
        text = render(rng, ap)
        if r < 0.35:
            text = c15.inject(rng, text, c15.RV_FAULTS)
        elif r < 0.5:
            text = "\n".join(mutate(rng, l) if rng.random() < 0.15 else l for l in text.split("\n"))
        lines = text.splitlines()
        sim, err = impl_load(text)
        m = coq.load(lines)
        merr = m[0][0] if m[0] else None
        if err is not None:
            cnt["err:%d" % err[0]] += 1
            if merr is None or merr[:2] != err[:2]:
                if not (merr is not None and err[0] in (9, 10) and merr[0] in (9, 10)):
                    bad.append((text, err, merr))
            continue
        cnt["ok"] += 1
        if merr is not None:
            bad.append((text, None, merr))
            continue
        img = m[1][0]
        if [[list(f), list(rp)] for f, rp in img[0]] != listing(sim):
            bad.append((text, "listing", None))
        elif [list(p) for p in m[2]] != [list(p) for p in lower_bytes(sim)]:
            bad.append((text, "data bytes", None))
    coq.close()
    print("e2e texts", n_texts, dict(cnt), "disagreements", len(bad))
    for b in bad[:10]:
        print(repr(b[0]), b[1], b[2])
    return len(bad)


MAINLEX_V = r'''From Coq Require Import Extraction ExtrOcamlBasic.
From ArchSim Require Import Model.Base Model.Mem Model.Cache Model.Fmt Model.RV Model.Single Model.Toy Model.Asm Model.Sx Model.Lex.
Open Scope Z_scope.
Definition sx_reg (r : regtok) : sx := match r with RAbi s => Lx [Zx 0; sx_zs s] | RX d => Lx [Zx 1; sx_zs d] end.
Definition sx_ntok (i : ntok) : sx :=
  Lx [Zx (n_mn i); sx_opt sx_reg (n_rd i); sx_opt sx_reg (n_rs1 i); sx_opt sx_reg (n_rs2 i);
      sx_opt sx_reg (n_reg1 i); sx_opt sx_reg (n_reg2 i); sx_opt sx_reg (n_rs i);
      sx_opt sx_zs (n_imm i); sx_opt sx_zs (n_csr i); sx_opt sx_zs (n_uimm i); sx_opt sx_zs (n_offset i);
      sx_opt sx_zs (n_label i);
      sx_opt (fun v : str * option str => Lx [sx_zs (fst v); sx_opt sx_zs (snd v)]) (n_var i)].
Definition sx_nbody (b : nbody) : sx := match b with NStr k => Lx [Zx 0; Zx k] | NIns i => Lx [Zx 1; sx_ntok i] end.
Definition sx_nline (l : nline) : sx :=
  match l with
  | NDirective d => Lx [Zx 0; Zx d]
  | NVarDecl n ty v => Lx [Zx 1; sx_zs n; Zx ty; sx_list sx_zs v]
  | NStrDecl n s => Lx [Zx 2; sx_zs n; sx_zs s]
  | NZeroDecl n v => Lx [Zx 3; sx_zs n; sx_zs v]
  | NLabelDecl n => Lx [Zx 4; sx_zs n]
  | NInstr il b => Lx [Zx 5; sx_opt sx_zs il; sx_nbody b]
  end.
Definition sx_lexres (r : lexres) : sx :=
  match r with LexSkip => Lx [Zx 0] | LexSyntax => Lx [Zx 1] | LexOk l => Lx [Zx 2; sx_nline l] end.
(* interned form, the layout of tokens_of *)
Definition sx_itok (i : itok) : sx :=
  Lx [Zx (k_mn i); sx_opt sx_reg (k_rd i); sx_opt sx_reg (k_rs1 i); sx_opt sx_reg (k_rs2 i);
      sx_opt sx_reg (k_reg1 i); sx_opt sx_reg (k_reg2 i); sx_opt sx_reg (k_rs i);
      sx_opt sx_zs (k_imm i); sx_opt sx_zs (k_csr i); sx_opt sx_zs (k_uimm i); sx_opt sx_zs (k_offset i);
      sx_opt Zx (k_label i);
      sx_opt (fun v : Z * option str => Lx [Zx (fst v); sx_opt sx_zs (snd v)]) (k_var i)].
Definition sx_tbody (b : tbody) : sx :=
  match b with BStr k => Lx [Zx 0; Zx k] | BIns i => Lx [Zx 1; sx_itok i] | BOther => Lx [Zx 2] end.
Definition sx_rline (p : Z * rline) : sx :=
  let ln := Zx (fst p) in
  match snd p with
  | RDirective d => Lx [ln; Zx 0; Zx d]
  | RVarDecl n ty v => Lx [ln; Zx 1; Zx n; Zx ty; sx_list sx_zs v]
  | RStrDecl n s => Lx [ln; Zx 2; Zx n; sx_zs s]
  | RZeroDecl n v => Lx [ln; Zx 3; Zx n; sx_zs v]
  | RLabelDecl n => Lx [ln; Zx 4; Zx n]
  | RInstr il b => Lx [ln; Zx 5; sx_opt Zx il; sx_tbody b]
  end.
Definition sx_ltres (r : ltres) : sx :=
  match r with LTOk l => Lx [Zx 0; sx_list sx_rline l] | LTSyntax ln => Lx [Zx 1; Zx ln] end.
(* request: (0 line line ...) -> per-line results;  (1 line line ...) -> lex_text *)
Definition dispatch_all (req : sx) : sx :=
  match dl req with
  | Zx 0 :: ls => Lx (map (fun l => sx_lexres (lex_line (dzs l))) ls)
  | Zx 1 :: ls => sx_ltres (lex_text (map dzs ls))
  | Zx 2 :: ls =>
      let s0 := init_st [] (dmemsys (Lx []) []) (dicache (Lx [])) in
      let '(s1, e, img) := rv_load_text s0 (map dzs ls) in
      Lx [sx_opt sx_perr e; sx_opt sx_image img; sx_zmap_sorted (ms_lower (ms s1))]
  | _ => Lx []
  end.
Extraction Language OCaml.
Extraction "model.ml" dispatch_all.
'''


def build_driver(workdir="/tmp/lexwork"):
    """(re)build the private extracted driver: MainLex.v -> model.ml, linked with a copy of /verif/ocaml/driver.ml"""
    import os
    import shutil
    os.makedirs(workdir, exist_ok=True)
    with open(os.path.join(workdir, "MainLex.v"), "w") as f:
        f.write(MAINLEX_V)
    w = "-notation-overridden,-deprecated-hint-without-locality,-deprecated-instance-without-locality,-extraction"
    subprocess.check_call(["coqc", "-Q", "/verif/coq/theories", "ArchSim", "-w", w, "MainLex.v"], cwd=workdir)
    shutil.copy("/verif/ocaml/driver.ml", os.path.join(workdir, "driver.ml"))
    subprocess.check_call(["ocamlfind", "ocamlopt", "-w", "-a", "-package", "str", "model.mli", "model.ml", "driver.ml", "-o", "driver"],
                          cwd=workdir)
    return os.path.join(workdir, "driver")


if __name__ == "__main__":
    if len(sys.argv) > 1 and sys.argv[1] == "build":
        print(build_driver())
        sys.exit(0)
    if len(sys.argv) > 1 and sys.argv[1] == "e2e":
        sys.exit(1 if e2e(int(sys.argv[2]) if len(sys.argv) > 2 else 3000, int(sys.argv[3]) if len(sys.argv) > 3 else 5) else 0)
    n = int(sys.argv[1]) if len(sys.argv) > 1 else 60000
    sd = int(sys.argv[2]) if len(sys.argv) > 2 else 1
    sys.exit(1 if main(n, sd) else 0)

# The private driver: /tmp/lexwork/MainLex.v (sx encoders of Lex.lexres / Lex.ltres + `Extraction "model.ml" dispatch_all`),
# compiled with  coqc -Q /verif/coq/theories ArchSim MainLex.v  and linked with a copy of /verif/ocaml/driver.ml.
# Request (0 line ...) -> per-line Lex.lex_line results, (1 line ...) -> Lex.lex_text.
