"""toy_asm.py — TOY assembler: source generators, fail-closed token converter (real tokenizer ->
model token lines), implementation loader."""
from __future__ import annotations
from common import map_exc

ADDR_MN = ["STO", "LDA", "BRZ", "ADD", "SUB", "OR", "AND", "XOR"]
NOADDR_MN = ["NOT", "INC", "DEC", "ZRO", "NOP"]
OPC = {m: i for i, m in enumerate(ADDR_MN + NOADDR_MN)}


class ConvertError(Exception):
    pass


def tokens_of(text):
    """run the real sanitiser + tokeniser; returns ('ok', model token lines) or ('syntax', line)"""
    from architecture_simulator.isa.toy.toy_parser import ToyParser
    from architecture_simulator.isa.parser_exceptions import ParserSyntaxException
    p = ToyParser()
    p.program = text
    p._sanitize()
    try:
        p._tokenize()
    except ParserSyntaxException as e:
        return ("syntax", e.line_number)
    names = {}

    def nid(s):
        return names.setdefault(s, len(names) + 1)

    out = []
    for ln, line, t in p.token_list:
        if not isinstance(t[0], str):
            g = t[0]
            if g.get("directive") in ("text", "data"):
                out.append([ln, 0, 0 if g.get("directive") == "text" else 1])
            elif g.get("name") is not None and g.get("values") is not None:
                out.append([ln, 1, nid(g.get("name")), [[ord(c) for c in v] for v in g.get("values")]])
            else:
                raise ConvertError(f"unknown group token {t.dump()}")
        elif t.mnemonic:
            mn = t.mnemonic.upper()
            if mn not in OPC:
                raise ConvertError(mn)
            inl = [nid(t.in_line_label[0])] if t.in_line_label else []
            if mn in ADDR_MN:
                if t.address:
                    opnd = [0, [ord(c) for c in t.address]]
                elif t.label:
                    opnd = [1, nid(t.label)]
                else:
                    raise ConvertError("address instruction without operand")
            else:
                opnd = []
            out.append([ln, 2, inl, OPC[mn], opnd])
        elif t.get_name() == "label_declaration":
            out.append([ln, 3, nid(t.label)])
        else:
            raise ConvertError(f"unknown token line {t.dump()}")
    return ("ok", out)


PERR = {"ParserSyntaxException": 1, "ParserLabelException": 2, "ParserOddImmediateException": 3,
        "DuplicateLabelException": 4, "ParserDirectiveException": 5, "ParserDataSyntaxException": 6,
        "ParserDataDuplicateException": 7, "ParserVariableException": 8}


def map_load_exc(e):
    """implementation load failure -> the model's perr layout"""
    n = type(e).__name__
    if n in PERR:
        return [PERR[n], e.line_number]
    if n == "MemorySizeException":
        return [9, e.size_in_words]
    if n == "MemoryAddressError":
        return [10, e.address]
    return [11, -1, n + ": " + str(e)[:120]]


# ----------------------------------------------------------------------------- source generator

def gen_source(rng, malformed=False):
    """returns (text, meta) — a mostly valid TOY program in random spelling"""
    nvars = rng.randrange(0, 4)
    names = ["x", "y", "arr", "tmp", "n", "res"]
    rng.shuffle(names)
    variables = []
    for k in range(nvars):
        variables.append((names[k], [rng.choice([0, 1, 7, 65535, 65536, 70000, rng.randrange(0, 70000)])
                                     for _ in range(rng.randrange(1, 4))]))
    nins = rng.randrange(0, 10)
    labels = ["loop", "end", "l1", "L_2", "start"]
    rng.shuffle(labels)
    lines = []
    used_labels = []
    for i in range(nins):
        inl = ""
        if rng.random() < 0.25 and len(used_labels) < len(labels):
            lab = labels[len(used_labels)]
            used_labels.append(lab)
            if rng.random() < 0.5:
                lines.append(lab + ":")
            else:
                inl = lab + ": "
        lines.append((inl, i))
    # pending instructions get operands now that labels are known
    text_lines = []
    targets = used_labels + [v[0] for v in variables]
    for item in lines:
        if isinstance(item, str):
            text_lines.append(item)
            continue
        inl, i = item
        if rng.random() < 0.7:
            mn = rng.choice(ADDR_MN)
            r = rng.random()
            if r < 0.5 and targets:
                opnd = rng.choice(targets)
            elif r < 0.75:
                opnd = "0x%X" % rng.choice([0, 1, 15, 0xFFF, 0x1000, 0xFFFF, rng.randrange(4096)])
                if rng.random() < 0.3:
                    opnd = opnd.lower().replace("0X", "0x")
            else:
                opnd = str(rng.choice([0, 7, 4095, 4096, 10000, rng.randrange(4096)]))
                if rng.random() < 0.1:
                    opnd = "00" + opnd
            line = f"{mn} {opnd}"
        else:
            line = rng.choice(NOADDR_MN)
        if rng.random() < 0.4:
            line = line.lower() if rng.random() < 0.5 else line.capitalize()
        text_lines.append(inl + line)
    if rng.random() < 0.15 and len(used_labels) < len(labels):
        text_lines.append(labels[len(used_labels)] + ":")       # label at the end of the program
    data_lines = [f"{n}: .word " + ", ".join(("0x%X" % v if rng.random() < 0.4 else str(v)) for v in vals)
                  for n, vals in variables]
    order = rng.choice(["data-first", "text-first", "plain"]) if data_lines else rng.choice(["plain", "text-only", "text-first"])
    if order == "data-first":
        src = [".data"] + data_lines + [".text"] + text_lines
    elif order == "text-first":
        src = [".text"] + text_lines + ([".data"] + data_lines if data_lines or rng.random() < 0.3 else [])
    elif order == "text-only":
        src = [".text"] + text_lines
    else:
        src = text_lines
    # spelling noise: blank lines, comments, indentation
    out = []
    for l in src:
        if rng.random() < 0.15:
            out.append(rng.choice(["", "   ", "# a comment", "\t# x: .word 3"]))
        pre = rng.choice(["", "", "  ", "\t"])
        post = rng.choice(["", "", "  ", " # trailing comment", "#c"])
        out.append(pre + l + post)
    meta = {"order": order, "nins": nins, "nvars": nvars}
    if malformed:
        k = rng.random()
        idx = rng.randrange(0, len(out)) if out else 0
        faults = ["a_very_long_label_name_that_goes_on_and_on_and_on_0123456789_abcdefgh: LDA 1 ' # c", " " * 64 + 'NOP " # x',
                  "BRZ nowhere", "foo: .word", ".data", ".text", "LDA", "INC 3", "x: .word 1", "loop:", "ADD 0x", "bogus 1",
                  "LDA " + "9" * 4400, "LDA 12ab", ".word 3", "x: .byte 1", "ADD 1 2", "é: NOP", "STO 0x" + "F" * 40,
                  "v: .word " + "1" * 4301]
        out.insert(idx, rng.choice(faults))
        meta["malformed"] = True
    return "\n".join(out) + ("\n" if rng.random() < 0.5 else ""), meta
