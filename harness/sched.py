"""sched.py — reference schedules evaluated on the implementation's own single-cycle trace:
  * schedule(): the documented timing recurrence of the hazard-detecting pipeline (C07),
  * delayed_wb(): the interlock-free machine as an interpreter with delayed register visibility (C08).
Both use the implementation's single-cycle semantics as the per-instruction oracle, so the checks that
use them isolate the pipeline's timing / register-visibility rules."""
from __future__ import annotations
from common import make_sim, obs_state, lower_memory


def isa_regs(t):
    """(rs1, rs2, rd) of a raw instruction tuple by the ISA's formats — independent of the implementation's own
    access_register_file / get_write_register (a decode stage that reads the wrong register must show up as a timing difference)"""
    from common import fmt_kind
    k = fmt_kind(t[0])
    if k == "R":
        return t[2], t[3], t[1]
    if k in ("I", "L"):
        return t[2], None, t[1]
    if k == "S":
        return t[1], t[2], None
    if k == "B":
        return t[1], t[2], None
    if k in ("U", "J"):
        return None, None, t[1]
    return None, None, None           # ecall, ebreak, fence, csr (outside the property)


def single_dynamic_trace(spec, maxsteps=400):
    """dynamic instruction stream of the single-cycle run: addr, sources, destination, redirect, ecall.
    Returns None if the run faults or does not finish."""
    from architecture_simulator.isa.riscv.rv32i_instructions import ECALL
    sim = make_sim(spec, "single_stage_pipeline")
    st = sim.state
    tr = []
    n = 0
    while not sim.is_done() and n < maxsteps:
        pc = st.program_counter
        ins = st.instruction_memory.read_instruction(pc)
        bc0 = st.performance_metrics.branch_count
        a1, a2, dst = isa_regs(spec[0][pc // 4])
        try:
            sim.step()
        except Exception:
            return None
        n += 1
        srcs = {x for x in (a1, a2) if x}          # None and x0 dropped
        redirect = (st.performance_metrics.branch_count != bc0) or ins.mnemonic in ("jal", "jalr") or st.exit_code is not None
        tr.append({"addr": pc, "srcs": srcs, "dst": dst, "redirect": redirect,
                   "ecall": isinstance(ins, ECALL)})
    if not sim.is_done():
        return None
    return tr


def schedule(tr, hazards=True):
    """write-back cycle of every dynamic instruction (DESIGN.md section 7, C07)"""
    D, X, M, W = [], [], [], []
    for k, i in enumerate(tr):
        if k == 0:
            d0 = 2
        else:
            d0 = M[k - 1] + 2 if tr[k - 1]["redirect"] else D[k - 1] + 1
        d1 = max(d0, X[k - 1]) if k > 0 else d0
        haz = hazards and any(tr[j]["dst"] and tr[j]["dst"] in i["srcs"] and (X[j] == d1 or M[j] == d1) for j in range(k))
        d = d1 + 2 if haz else d1
        x0 = d + 1
        x = x0 + 2 if (i["ecall"] and any(M[j] == x0 or W[j] == x0 for j in range(k))) else x0
        D.append(d); X.append(x); M.append(x + 1); W.append(x + 2)
    return W


def pipe_retire(spec, hazards=True, maxsteps=4000, by_steps=False):
    """(retire list [(addr, cycle)], total cycles, stalls-by-ID seen) of the five-stage implementation; None on fault/hang"""
    sim = make_sim(spec, "five_stage_pipeline", hazards)
    out = []
    n = 0
    id_stall = False
    while not sim.is_done() and n < maxsteps:
        try:
            sim.step()
        except Exception:
            return None
        n += 1
        p = sim.state.pipeline
        if p.stalled is not None and p.stalled[0] == 1:
            id_stall = True
        a = p.pipeline_registers[4].address_of_instruction
        if a is not None:
            out.append((a, n if by_steps else sim.state.performance_metrics.cycles))
    if not sim.is_done():
        return None
    return out, sim.state.performance_metrics.cycles, id_stall, sim


def delayed_wb(spec, maxn=400):
    """interlock-free reference: in-order interpretation, a register write becomes visible at the
    producer's write-back cycle W_j, instruction k reads its sources at its decode cycle D_k
    (an ecall reads a7/a0 at its execute cycle)."""
    import fixedint
    from architecture_simulator.isa.riscv.rv32i_instructions import ECALL
    sim = make_sim(spec, "single_stage_pipeline")
    st = sim.state
    committed = [int(r) for r in st.register_file.registers]
    pending = []
    D, X, M, W, red = [], [], [], [], []
    pc = 0
    out = []
    n = 0
    while st.instruction_memory.instruction_at_address(pc) and st.exit_code is None and n < maxn:
        ins = st.instruction_memory.read_instruction(pc)
        k = n
        if k == 0:
            d0 = 2
        else:
            d0 = M[k - 1] + 2 if red[k - 1] else D[k - 1] + 1
        d = max(d0, X[k - 1]) if k > 0 else d0
        x0 = d + 1
        is_ecall = isinstance(ins, ECALL)
        x = x0 + 2 if (is_ecall and any(M[j] == x0 or W[j] == x0 for j in range(k))) else x0
        t = x if is_ecall else d
        rv = list(committed)
        for (w, dst, val) in sorted(pending):
            if w <= t and dst:
                rv[dst] = val
        for i in range(32):
            st.register_file.registers[i] = fixedint.UInt32(rv[i])
        st.program_counter = pc
        bc0 = st.performance_metrics.branch_count
        try:
            st.pipeline.step()
        except Exception:
            return None
        after = [int(v) for v in st.register_file.registers]
        dst = ins.get_write_register()
        red.append((st.performance_metrics.branch_count != bc0) or ins.mnemonic in ("jal", "jalr") or st.exit_code is not None)
        D.append(d); X.append(x); M.append(x + 1); W.append(x + 2)
        if dst:
            pending.append((x + 2, dst, after[dst]))
        out.append((pc, x + 2))
        pc = st.program_counter
        n += 1
    if n >= maxn:
        return None
    final = list(committed)
    for (w, dst, val) in sorted(pending):
        final[dst] = val
    low = lower_memory(st)
    return {"ret": out, "regs": final, "out": st.output, "exit": st.exit_code,
            "mem": sorted([a, int(v)] for a, v in low.memory_file.items()), "cyc": (out[-1][1] if out else 0)}
