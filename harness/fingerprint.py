"""fingerprint.py — changed-code escalation (never an alarm): hashes the normalised Python AST of the
files each property is anchored in; when a hash differs from the baseline recorded on the unchanged
tree, the quick run of that property spends a larger budget on its slices."""
from __future__ import annotations
import ast, hashlib, json, sys
from pathlib import Path

REPO = Path("/repo")
BASELINE = Path("/verif/fingerprints.json")
PROPS = Path("/verif/properties.jsonl")


def file_hash(path: Path) -> str:
    try:
        tree = ast.parse(path.read_text(encoding="utf-8"))
        return hashlib.sha256(ast.dump(tree, include_attributes=False).encode()).hexdigest()[:16]
    except Exception:
        return "unparsable"


def anchors() -> dict:
    out = {}
    for l in PROPS.read_text().splitlines():
        p = json.loads(l)
        out[p["id"]] = [f for f in p["anchors"]["files"] if f.endswith(".py")]
    return out


def current() -> dict:
    files = sorted({f for fs in anchors().values() for f in fs})
    return {f: file_hash(REPO / f) for f in files}


def head_hash(rel: str) -> str:
    """AST hash of the file as committed at /repo's HEAD"""
    import subprocess
    try:
        r = subprocess.run(["git", "-C", str(REPO), "show", "HEAD:" + rel], capture_output=True, text=True, timeout=20)
        if r.returncode != 0:
            return "absent"
        return hashlib.sha256(ast.dump(ast.parse(r.stdout), include_attributes=False).encode()).hexdigest()[:16]
    except Exception:
        return "unparsable"


def changed_files(prop: str) -> list:
    """anchored files whose working-tree AST differs from the recorded baseline or from /repo's HEAD"""
    base = json.loads(BASELINE.read_text()) if BASELINE.exists() else {}
    out = []
    for f in anchors().get(prop, []):
        h = file_hash(REPO / f)
        if (f in base and base[f] != h) or head_hash(f) != h:
            out.append(f)
    return out


if __name__ == "__main__":
    if len(sys.argv) > 1 and sys.argv[1] == "--record":
        BASELINE.write_text(json.dumps(current(), indent=1))
        print("recorded", len(current()), "files")
    else:
        print({p: changed_files(p) for p in anchors() if changed_files(p)})
