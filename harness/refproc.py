"""refproc.py — runs in a FRESH Python process: executes a run of the implementation and reports, after every
operation, the canonical results of ALL zero-argument inspection functions.  Used by the C16 check as the clean-process
reference once it has seen an inspection call change process-global state of the simulator package: the same probe is
evaluated in the (possibly polluted) checking process and here, and the two reports must be equal.
stdin: one JSON object {"kind": "toy"|"rv", ...}; stdout: one JSON list."""
import json, sys


def probe(req):
    from props import c16
    import toy_exec as T
    from common import make_sim
    out = []
    if req["kind"] == "toy":
        sim = T.make_toy(req["spec"])
        names = c16.getters_of(sim, False)
        out.append(c16.call_all(sim, names))
        for op in req["ops"]:
            try:
                T.apply_impl(sim, op)
            except Exception as e:
                out.append(["exception", type(e).__name__])
                break
            out.append(c16.call_all(sim, names))
    else:
        five = req["five"]
        sim = make_sim(req["spec"], "five_stage_pipeline" if five else "single_stage_pipeline", req["hz"])
        names = c16.getters_of(sim, five)
        out.append(c16.call_all(sim, names))
        for _ in range(req["steps"]):
            if sim.is_done():
                break
            try:
                sim.step()
            except Exception as e:
                out.append(["exception", type(e).__name__])
                break
            out.append(c16.call_all(sim, names))
    return json.loads(json.dumps(out, default=str))


# fixed probes: behaviours that a random case may not contain
def standard_probes():
    enc = lambda op, a: ((op & 15) << 12) | (a & 4095)
    # accu = 0: BRZ taken; then INC, BRZ not taken; single cycles so that every half-cycle state is inspected
    prog = [enc(2, 2), enc(12, 0), enc(9, 0), enc(2, 0), enc(9, 0), enc(2, 6), enc(12, 0)]
    toy = {"kind": "toy", "spec": [4096, [[i, w] for i, w in enumerate(prog)], 0, 1, [prog[0]], [len(prog) - 1]], "ops": [3] * 14}
    return [toy]


if __name__ == "__main__":
    reqs = json.loads(sys.stdin.read())
    print(json.dumps([probe(r) for r in reqs]))
