"""main.py — entry point behind /verif/check:  check <Cxx> [--thorough] [--replay file]"""
from __future__ import annotations
import sys, os, json, time, importlib, hashlib, random, traceback
from pathlib import Path

sys.path.insert(0, str(Path(__file__).parent))
sys.setrecursionlimit(100000)
import common, runner
from common import Model, VERIF, EVIDENCE_DIR, CORPUS_DIR

ESCALATION = 5

TRUSTED_BASE = [
    "T1 Coq 8.16.1 kernel (coqc; coqchk in thorough runs); vm_compute in Examples/finite reflections; no native_compute",
    "T2 axioms: see print_assumptions in this file (verbatim Print Assumptions output of every property theorem)",
    "T3 extraction: ExtrOcamlBasic only (Extract Inductive bool/option/unit/prod/list/sumbool), no Extract Constant, Z/positive/nat inductive; OCaml driver ocaml/driver.ml (sx reader/printer, int<->Z conversion) is trusted glue",
    "T4 correspondence harness (generators, implementation drivers, canonicalisation) — sampled differential testing of model vs /repo, not proof",
    "T5 Python/fixedint semantics as modelled in Model/Base.v (arbitrary-precision ints as Z; int(a/b) on 32-bit operands as truncating division)",
    "T6 oracles: float rendering of ecall 2 (harness computes str(float32)); chr() on 0..127",
    "T7 hand-written specifications in coq/theories/Spec/*.v",
]


def fingerprint(case) -> str:
    return hashlib.sha256(json.dumps(case, sort_keys=True, default=str).encode()).hexdigest()[:16]


def main(argv):
    if len(argv) < 2:
        print("usage: check <Cxx> [--thorough] [--replay file]")
        return 2
    prop = argv[1]
    tier = "thorough" if ("--thorough" in argv or os.environ.get("VERIF_TIER") == "thorough") else "quick"
    seed = int(os.environ.get("VERIF_SEED", "20260926"))
    procs = int(os.environ.get("VERIF_PROCS", "8" if tier == "quick" else "16"))
    replay = argv[argv.index("--replay") + 1] if "--replay" in argv else None
    t0 = time.time()
    mod = importlib.import_module("props." + prop.lower())

    ok_build, build_log = runner.build_leg()
    if not ok_build:
        # broken proof leg: the development no longer compiles
        payload = {"property": prop, "kind": "proof-obligation", "slice_or_theorem": "coq build",
                   "log_tail": build_log, "how_to_run": f"./check {prop}"}
        p = runner.write_replay(prop, payload)
        write_evidence(prop, tier, seed, mod, None, [], {}, 1, t0, note="Coq build failed")
        print(f"VIOLATION property={prop} replay={p} no-failing-input-found")
        return 1
    pinfo = runner.proof_leg(prop)
    # translator tier (DESIGN 4.2): generated definitions = hand model, regenerated from /repo on every run
    try:
        import genleg
        g = genleg.run_gen_leg()
    except Exception as e:          # the tier is additive: its absence is a loss of strength, not an alarm
        g = {"error": f"{type(e).__name__}: {e}", "failed": [], "unavailable": []}
    mine = [f for f in g.get("failed", []) if prop in f.get("properties", [])]
    pinfo["gen"] = {"obligations_total": g.get("obligations"), "discharged_total": g.get("discharged"),
                    "translated_functions": g.get("translated") if not isinstance(g.get("translated"), list) else len(g.get("translated")),
                    "unavailable": g.get("unavailable") if not isinstance(g.get("unavailable"), list) else [u.get("name") for u in g.get("unavailable")][:20],
                    "failed_for_this_property": [{"lemma": f.get("lemma"), "python": f.get("python")} for f in mine],
                    "error": g.get("error"), "wall_s": g.get("wall_s")}
    if mine:
        pinfo["ok"] = False
        pinfo["problems"].append("generated-definition equality lemma(s) no longer hold (the Python source of a translated leaf "
                                 "function changed its meaning): " + ", ".join(f"{f.get('lemma')} [{f.get('python')}]" for f in mine[:6]))
        pinfo["gen_failed"] = mine
    if tier == "thorough" and not replay and pinfo.get("ok"):
        pinfo["coqchk"] = runner.coqchk_leg(prop)
        if not pinfo["coqchk"]["ok"]:
            pinfo["ok"] = False
            pinfo["problems"].append("coqchk did not confirm the compiled closure axiom-free: " + pinfo["coqchk"]["summary"][-300:])

    if replay:
        return do_replay(prop, mod, replay)

    slices = mod.slices()
    budget = dict(mod.BUDGET[tier])
    # changed-code escalation: if a file this property is anchored in differs from the recorded baseline,
    # the quick run spends a larger budget (never an alarm by itself)
    import fingerprint as fpmod
    changed = fpmod.changed_files(prop)
    CHANGED_FILES[:] = changed
    if changed and tier == "quick":
        for k, v in list(budget.items()):
            if isinstance(v, int):
                budget[k] = v * ESCALATION
    known = [k for k in runner.load_known() if k.get("property") == prop and k.get("status") == "open"]
    all_findings = []
    slice_reports = {}
    for sl in slices:
        # corpus first
        corpus = []
        cdir = CORPUS_DIR / prop
        if cdir.exists():
            for f in sorted(cdir.glob("*.json")):
                d = json.loads(f.read_text())
                if d.get("slice") == sl.name:
                    corpus.append(d["case"])
        rep = {"evals": 0, "distinct": 0, "nontrivial": 0, "classes": {}, "samples": [], "exhaustive": False}
        parts = []
        if corpus:
            parts.append(runner.run_slice(sl, seed, 0, tier, 2, cases=corpus))
        ex = getattr(sl, "exhaustive", None)
        b = budget.get(sl.name, 0)
        extra_random = 0
        if isinstance(b, (list, tuple)):         # ("exhaustive", n): the enumeration plus n random cases
            extra_random = b[1]
            b = b[0]
        if ex is not None and b == "exhaustive":
            try:
                cases = list(ex(tier) or [])
            except Exception as e:      # an enumeration that reads implementation internals must not crash the check
                cases = []
                all_findings.append((sl, "disagreement", {"enumeration": sl.name},
                                     "harness exception while enumerating the cases: " + "".join(traceback.format_exception_only(type(e), e))[-400:]))
            parts.append(runner.run_slice(sl, seed, 0, tier, procs, cases=cases))
            rep["exhaustive"] = extra_random == 0
            if extra_random:
                parts.append(runner.run_slice(sl, seed, extra_random, tier, procs))
        elif isinstance(b, int) and b > 0:
            parts.append(runner.run_slice(sl, seed, b, tier, procs))
        keys, ntk = set(), set()
        for p in parts:
            rep["evals"] += p["evals"]
            keys |= p["keys"]
            ntk |= p["nontrivial_keys"]
            for c, v in p["classes"].items():
                rep["classes"][c] = rep["classes"].get(c, 0) + v
            rep["samples"].extend(p["samples"])
            for kind, case, detail in p["findings"]:
                all_findings.append((sl, kind, case, detail))
        rep["distinct"] = len(keys)
        rep["nontrivial"] = len(ntk)
        rep["samples"] = rep["samples"][:2]
        # coverage floors: a slice that did not exercise its required classes is itself broken
        missing = [c for c in getattr(sl, "required_classes", lambda tier: [])(tier) if rep["classes"].get(c, 0) == 0]
        rep["missing_classes"] = missing
        slice_reports[sl.name] = rep

    # verdicts
    violations = 0
    lines = []
    model = Model()
    seen_keys = set()
    try:
        # proof leg problems
        if not pinfo["ok"]:
            payload = {"property": prop, "kind": "proof-obligation", "slice_or_theorem": pinfo["file"],
                       "problems": pinfo["problems"], "broken_generated_lemmas": pinfo.get("gen_failed", []),
                       "how_to_run": f"./check {prop}"}
            proof_replay = runner.write_replay(prop, payload)
        else:
            proof_replay = None
        def harness_side(d):
            # trouble of the checking machinery itself (an exception in the harness, the model driver, a time-out under load):
            # never a concrete witness against the implementation, whatever the slice
            return str(d).startswith(("harness exception", "model error", "case timed out", "worker process died"))
        def promoted(sl, k, d):
            return k == "violation" or (k == "disagreement" and sl.promote_disagreement and not harness_side(d))
        viol = [(sl, k, c, d) for sl, k, c, d in all_findings if promoted(sl, k, d)]
        disag = [(sl, k, c, d) for sl, k, c, d in all_findings if not promoted(sl, k, d)]
        reported = 0
        for sl, kind, case, detail in viol:
            if reported >= 3:
                break
            uninterruptible = "did not terminate" in str(detail) or "worker process died" in str(detail)
            # a case that hangs or kills its process must never be re-run inside this process
            small = case if uninterruptible else runner.shrink_case(sl, case, kind, model)
            key = getattr(sl, "finding_key", lambda c: fingerprint(c))(small)
            if key in seen_keys:
                continue
            seen_keys.add(key)
            kf = [k for k in known if k.get("fingerprint") == key]
            if uninterruptible:
                det = detail
            else:
                findings, _ = runner._run_case(sl, small, model)
                det = next((d for k, d in findings if k == kind), detail)
            if kf:
                lines.append(f"KNOWN-FINDING: property={prop} {kf[0].get('what', '')}")
                continue
            payload = {"property": prop, "kind": "property-violation" if kind == "violation" else "correspondence (implementation deviates from the proved reference)",
                       "slice_or_theorem": sl.name, "seed": seed, "input": small, "original_input": case,
                       "detail": det, "fingerprint": key,
                       "readable": getattr(sl, "describe", lambda c: None)(small),
                       "how_to_run": f"./check {prop} --replay <this file>"}
            p = runner.write_replay(prop, payload)
            lines.append(f"VIOLATION property={prop} replay={p}")
            violations += 1
            reported += 1
        if proof_replay is not None and violations == 0:
            # a broken proof obligation and no NEW concrete violation reported above (a listed known finding does not count):
            # the property is no longer shown to hold
            lines.append(f"VIOLATION property={prop} replay={proof_replay} no-failing-input-found")
            violations += 1
            proof_reported = True
        else:
            proof_reported = False
        if disag and violations == 0 and not proof_reported and not any(l.startswith("KNOWN-FINDING") for l in lines):
            sl, kind, case, detail = disag[0]
            small = case if ("did not terminate" in str(detail) or "worker process died" in str(detail)) else runner.shrink_case(sl, case, kind, model)
            payload = {"property": prop, "kind": "correspondence", "slice_or_theorem": "corr:" + sl.name,
                       "seed": seed, "input": small, "detail": detail,
                       "note": "model and implementation disagree; no input violating the property itself was found",
                       "readable": getattr(sl, "describe", lambda c: None)(small),
                       "how_to_run": f"./check {prop} --replay <this file>"}
            p = runner.write_replay(prop, payload)
            lines.append(f"VIOLATION property={prop} replay={p} no-failing-input-found")
            violations += 1
        for name, rep in slice_reports.items():
            if rep["missing_classes"]:
                payload = {"property": prop, "kind": "coverage-gate", "slice_or_theorem": name,
                           "missing_classes": rep["missing_classes"],
                           "note": "the slice did not exercise its required input classes; the run proves nothing"}
                p = runner.write_replay(prop, payload)
                lines.append(f"VIOLATION property={prop} replay={p} no-failing-input-found")
                violations += 1
    finally:
        model.close()

    write_evidence(prop, tier, seed, mod, pinfo, slices, slice_reports, violations, t0)
    for l in lines:
        print(l)
    if violations == 0:
        tot = sum(r["evals"] for r in slice_reports.values())
        print(f"OK property={prop} tier={tier} theorems={pinfo['obligations']} evaluations={tot} wall={time.time() - t0:.1f}s")
    return 1 if violations else 0


CHANGED_FILES = []


def write_evidence(prop, tier, seed, mod, pinfo, slices, slice_reports, violations, t0, note=None):
    EVIDENCE_DIR.mkdir(exist_ok=True)
    evals = sum(r["evals"] for r in slice_reports.values())
    distinct = sum(r["nontrivial"] for r in slice_reports.values())
    samples = []
    for name, r in slice_reports.items():
        for s in r["samples"][:2]:
            samples.append({"slice": name, "case": s})
    cov = {
        "obligations": (pinfo or {}).get("obligations", 0),
        "discharged": (pinfo or {}).get("discharged", 0),
        "checker_cmd": "cd /verif/coq && coq_makefile -f _CoqProject -o Makefile && make -j16  (full .vo build; then coqc of Props/%s.v to capture Print Assumptions)" % prop,
        "trusted_base": TRUSTED_BASE + getattr(mod, "EXTRA_TRUST", []),
        "theorems": (pinfo or {}).get("theorems", []),
        "print_assumptions": (pinfo or {}).get("assumptions", "")[-6000:],
        "proof_leg_problems": (pinfo or {}).get("problems", []),
        "translator_tier": (pinfo or {}).get("gen", {}),
        "coqchk": (pinfo or {}).get("coqchk", {"ran": False, "note": "coqchk runs in the thorough tier only"}),
        "evaluations": evals,
        "distinct_nontrivial": distinct,
        "rule": getattr(mod, "RULE", ""),
        "samples": samples[:6] if samples else [{"note": note or "no cases run"}],
        "slices": {n: {k: v for k, v in r.items() if k != "samples"} for n, r in slice_reports.items()},
        "exhaustive": all(r.get("exhaustive") for r in slice_reports.values()) if slice_reports else False,
        "disagreements_checked": evals,
        "modelled_not_verified": getattr(mod, "MODELLED", ""),
        "anchor_files_changed_since_baseline": CHANGED_FILES,
    }
    ev = {
        "property_id": prop, "tier": tier, "seed": seed, "level": "proof",
        "coverage": cov,
        "assumptions": getattr(mod, "ASSUMPTIONS", []),
        "wall_s": round(time.time() - t0, 2),
        "violations": violations,
    }
    (EVIDENCE_DIR / f"{prop}.json").write_text(json.dumps(ev, indent=1, default=str))


def do_replay(prop, mod, path):
    d = json.loads(Path(path).read_text())
    sl = next((s for s in mod.slices() if s.name == d.get("slice_or_theorem", "").replace("corr:", "")), None)
    if sl is None or "input" not in d:
        print("replay file names no re-runnable input:", d.get("kind"), d.get("slice_or_theorem"))
        return 1
    model = Model()
    try:
        findings, classes = runner._run_case(sl, d["input"], model)
    finally:
        model.close()
    print(json.dumps({"input": d["input"], "readable": getattr(sl, "describe", lambda c: None)(d["input"]),
                      "findings": findings}, indent=1, default=str))
    if findings:
        print(f"VIOLATION property={prop} replay={path}")
        return 1
    print("replay: no finding on the current tree")
    return 0


if __name__ == "__main__":
    sys.exit(main(sys.argv))
