"""C09 — data-cache hit/miss accounting and miss penalties match a reference cache.
Props/C09.v proves the modelled cache's tag directory and counters against a tag-only reference cache
(Spec/RefCache.v); here the implementation's counters and penalties are compared after every operation
with the model AND with an independent reference cache written in the harness, and the counters of
single-cycle and five-stage runs of the same program are compared."""
from __future__ import annotations
from runner import Slice
from props import c03
import gen_rv
from rv_exec import impl_trace, view

RULE = ("histories as for C03; after every accepted operation (hits, accesses, last_hit, cycle penalty) are compared with a tag-only "
        "reference cache (write-back: write-allocate; write-through: no-write-allocate; reference LRU / tree PLRU); uncounted reads "
        "and direct writes must leave the counters untouched. mode-counters: random aligned programs with a data cache run in "
        "single-cycle and five-stage mode must end with identical data-cache counters, equal to the number of executed loads and "
        "stores. Non-trivial = at least one hit and one miss.")
ASSUMPTIONS = c03.ASSUMPTIONS + ["accesses rejected for crossing a word or leaving the range are outside the accounting claim"]
MODELLED = c03.MODELLED


class DCache(c03.DCache):
    tag = "C09"

    def nontrivial(self, classes):
        return ("read-hit" in classes or "write-hit" in classes) and ("read-miss" in classes or "write-miss" in classes)


class DCacheSmall(c03.DCacheSmall):
    tag = "C09"


class ModeCounters(Slice):
    name = "mode-counters"

    def gen(self, rng, index, tier):
        prog = gen_rv.gen_program(rng, maxlen=20, aligned_only=True, allow_fault=False)
        return {"spec": gen_rv.gen_state_spec(rng, prog, dcache=gen_rv.gen_cache_cfg(rng)), "steps": 400}

    def run(self, case, model):
        spec = case["spec"]
        a = impl_trace(spec, case["steps"], mode="single_stage_pipeline")
        b = impl_trace(spec, case["steps"] * 6, mode="five_stage_pipeline")
        findings, cl = [], set()
        if a[-1][0] == 0 and b[-1][0] == 0:
            sa, sb = a[-2], b[-2]
            if sa[6] != sb[6]:
                findings.append(("violation", f"data-cache counters differ: single-cycle {sa[6]} five-stage {sb[6]}"))
            # each executed load/store counted exactly once: replay the single-cycle run and count
            from common import make_sim
            sim = make_sim(spec)
            n = 0
            while not sim.is_done():
                ins = sim.state.instruction_memory.read_instruction(sim.state.program_counter)
                if ins.mnemonic in ("lb", "lh", "lw", "lbu", "lhu", "sb", "sh", "sw"):
                    n += 1
                sim.step()
            if sa[6] and sa[6][1] != n:
                findings.append(("violation", f"accesses counter {sa[6][1]} != executed loads/stores {n}"))
            cl.add("done")
            if sa[6] and sa[6][1] > 0:
                cl.add("accesses")
        return findings, cl

    def nontrivial(self, classes):
        return "accesses" in classes

    def shrink(self, case):
        for s in gen_rv.shrink_spec(case["spec"]):
            if s[3]:
                yield dict(case, spec=s)

    def describe(self, case):
        return {"program": gen_rv.program_text(case["spec"][0]), "regs": case["spec"][1], "mem": case["spec"][2], "dcache": case["spec"][3]}

    def required_classes(self, tier):
        return ["done", "accesses"]


def slices():
    return [DCache(), DCacheSmall(), ModeCounters()]


BUDGET = {"quick": {"dcache": 1500, "dcache-small": 0, "mode-counters": 300},
          "thorough": {"dcache": 40000, "dcache-small": "exhaustive", "mode-counters": 6000}}
