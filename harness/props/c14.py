"""C14 — printed instruction text re-assembles to the same instruction.
Props/C14.v proves for the model that the printed form of every encodable instruction, tokenised as
the grammar does, instantiates at the same address to the same instruction.  This file ties the model's
printer to __repr__ and checks the round trip through the REAL tokenizer and assembler."""
from __future__ import annotations
from runner import Slice
from common import MN, MNEMONICS, fmt_kind, make_instr, instr_fields
import rv_asm as RA

RULE = ("repr: every mnemonic of the instruction map except FENCE x random/boundary register numbers x boundary and random encodable "
        "immediates (12-bit signed, shift amounts 0-31, even 13-bit branch offsets, signed 20-bit U-type, even 21-bit jal offsets, "
        "CSR numbers 0-4095, uimm 0-31) x instruction addresses 0..4000: (1) repr(instr) equals the model's printer; (2) the printed "
        "text, loaded with load_program at the same address (preceded by nops), yields an instruction with identical fields and "
        "identical printed form; (3) the model's re-assembly of the printed tokens agrees. listing: the printed listing of a random "
        "loaded program re-assembles to the same listing. Non-trivial = immediate != 0 or pc-relative form at address != 0.")
ASSUMPTIONS = ["FENCE excluded (no operand syntax implemented)"]
MODELLED = "model↔code link is differential; tokenisation of the printed text is done by the real tokenizer"

ALL = [n for n in range(54) if n != MN["fence"]]


def rnd_instr(rng, n):
    k = fmt_kind(n)
    reg = lambda: rng.choice([0, 1, 2, 9, 10, 15, 16, 30, 31, rng.randrange(32)])
    i12 = lambda: rng.choice([-2048, -2047, -1, 0, 1, 2046, 2047, rng.randrange(-2048, 2048)])
    if k == "R":
        return [n, reg(), reg(), reg()]
    if n in (24, 25, 26):
        return [n, reg(), reg(), rng.choice([0, 1, 15, 31, rng.randrange(32)])]
    if k in ("I", "L"):
        return [n, reg(), reg(), i12()]
    if k in ("E", "EB"):
        return [n]
    if k == "S":
        return [n, reg(), reg(), i12()]
    if k == "B":
        return [n, reg(), reg(), 2 * rng.choice([-2048, -1, 0, 1, 2047, rng.randrange(-2048, 2048)])]
    if k == "U":
        return [n, reg(), rng.choice([-(1 << 19), -1, 0, 1, (1 << 19) - 1, rng.randrange(-(1 << 19), 1 << 19)])]
    if k == "J":
        imm = 2 * rng.choice([-(1 << 19), -1, 0, 1, (1 << 19) - 1, rng.randrange(-(1 << 19), 1 << 19)])
        return [n, reg(), imm, None]
    if k == "C":
        return [n, reg(), rng.choice([0, 1, 0x300, 0xC00, 4095, rng.randrange(4096)]), reg()]
    if k == "CI":
        return [n, reg(), rng.choice([0, 0x300, 4095, rng.randrange(4096)]), rng.choice([0, 1, 31, rng.randrange(32)])]
    raise ValueError(n)


class Repr(Slice):
    name = "repr"

    def gen(self, rng, index, tier):
        n = ALL[index % len(ALL)]
        addr = 4 * rng.choice([0, 0, 1, 2, 7, 100, rng.randrange(0, 100)] + ([1000, rng.randrange(0, 1000)] if tier == "thorough" else []))
        t = rnd_instr(rng, n)
        if fmt_kind(n) == "J":
            t[3] = t[2] + addr
        return {"instr": t, "addr": addr}

    def run(self, case, model):
        t, addr = case["instr"], case["addr"]
        ins = make_instr(t)
        text = repr(ins)
        findings, cl = [], set()
        m = model.call([62, t, addr])
        if m[0] != [ord(c) for c in text]:
            findings.append(("disagreement", f"printed form {text!r} != model {''.join(map(chr, m[0]))!r}"))
        src = "\n".join(["nop"] * (addr // 4) + [text])
        sim, err = RA.impl_load(src)
        if err is not None:
            findings.append(("violation", f"printed text {text!r} of {t} does not assemble: {err}"))
        else:
            back = sim.state.instruction_memory.read_instruction(addr)
            if instr_fields(back) != instr_fields(ins) or repr(back) != text or type(back) is not type(ins):
                findings.append(("violation", f"{text!r} at address {addr} re-assembles to {instr_fields(back)} ({back!r}), original {instr_fields(ins)}"))
            if m[1][0] != 0 or list(m[1][1]) != instr_fields(back):
                findings.append(("disagreement", f"model re-assembly of {text!r}: {m[1]} vs implementation {instr_fields(back)}"))
        cl.add("mn:" + MNEMONICS[t[0]])
        if any(isinstance(x, int) and x not in (0,) for x in t[3:4]) or addr:
            cl.add("nontrivial")
        return findings, cl

    def nontrivial(self, classes):
        return "nontrivial" in classes

    def required_classes(self, tier):
        return ["mn:" + MNEMONICS[n] for n in ALL]


class ListingFixpoint(Slice):
    name = "listing"

    def gen(self, rng, index, tier):
        return {"seed": rng.getrandbits(48)}

    def run(self, case, model):
        import random
        rng = random.Random(case["seed"])
        ap = RA.gen_abs(rng)
        text = RA.render(rng, ap)
        sim, err = RA.impl_load(text)
        if err is not None:
            return [], {"skipped"}
        lst = sim.get_instruction_memory_entries()
        if any("fence" in e[1] for e in lst):
            return [], {"skipped"}
        printed = "\n".join(e[1] for e in lst)
        sim2, err2 = RA.impl_load(printed)
        f = []
        if err2 is not None:
            f.append(("violation", f"printed listing does not re-assemble: {err2}"))
        elif sim2.get_instruction_memory_entries() != lst or RA.listing(sim2) != RA.listing(sim):
            f.append(("violation", "re-assembling the printed listing gives a different listing"))
        return f, {"ok", "n>3" if len(lst) > 3 else "short"}

    def nontrivial(self, classes):
        return "n>3" in classes

    def required_classes(self, tier):
        return ["ok", "n>3"]


def slices():
    return [Repr(), ListingFixpoint()]


BUDGET = {"quick": {"repr": 2120, "listing": 300}, "thorough": {"repr": 106000, "listing": 10000}}
