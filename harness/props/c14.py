"""C14 — printed instruction text re-assembles to the same instruction.
Props/C14.v proves for the model that the printed form of every encodable instruction, tokenised as
the grammar does, instantiates at the same address to the same instruction.  This file ties the model's
printer to __repr__ and checks the round trip through the REAL tokenizer and assembler."""
from __future__ import annotations
from runner import Slice
from common import MN, MNEMONICS, fmt_kind, make_instr, instr_fields
import rv_asm as RA

RULE = ("repr: every mnemonic of the instruction map except FENCE x random/boundary register numbers x boundary and random encodable "
        "immediates (12-bit signed, shift amounts 0-31, even 13-bit branch offsets, signed 20-bit U-type, even 21-bit jal offsets, "
        "CSR numbers 0-4095, uimm 0-31) x instruction addresses 0..4000: (1) repr(instr) equals the model's printer; (2) the printed "
        "text, loaded with load_program at the same address (preceded by nops), yields an instruction with identical fields and "
        "identical printed form; (3) the model's re-assembly of the printed tokens agrees. listing: the printed listing of a random "
        "loaded program re-assembles to the same listing. Non-trivial = immediate != 0 or pc-relative form at address != 0.")
ASSUMPTIONS = ["FENCE excluded (no operand syntax implemented)"]
MODELLED = "model↔code link is differential; tokenisation of the printed text is done by the real tokenizer"

ALL = [n for n in range(54) if n != MN["fence"]]


def rnd_instr(rng, n):
    k = fmt_kind(n)
    reg = lambda: rng.choice([0, 1, 2, 9, 10, 15, 16, 30, 31, rng.randrange(32)])
    i12 = lambda: rng.choice([-2048, -2047, -1, 0, 1, 2046, 2047, rng.randrange(-2048, 2048)])
    if k == "R":
        return [n, reg(), reg(), reg()]
    if n in (24, 25, 26):
        return [n, reg(), reg(), rng.choice([0, 1, 15, 31, rng.randrange(32)])]
    if k in ("I", "L"):
        return [n, reg(), reg(), i12()]
    if k in ("E", "EB"):
        return [n]
    if k == "S":
        return [n, reg(), reg(), i12()]
    if k == "B":
        return [n, reg(), reg(), 2 * rng.choice([-2048, -1, 0, 1, 2047, rng.randrange(-2048, 2048)])]
    if k == "U":
        return [n, reg(), rng.choice([-(1 << 19), -1, 0, 1, (1 << 19) - 1, rng.randrange(-(1 << 19), 1 << 19)])]
    if k == "J":
        imm = 2 * rng.choice([-(1 << 19), -1, 0, 1, (1 << 19) - 1, rng.randrange(-(1 << 19), 1 << 19)])
        return [n, reg(), imm, None]
    if k == "C":
        return [n, reg(), rng.choice([0, 1, 0x300, 0xC00, 4095, rng.randrange(4096)]), reg()]
    if k == "CI":
        return [n, reg(), rng.choice([0, 0x300, 4095, rng.randrange(4096)]), rng.choice([0, 1, 31, rng.randrange(32)])]
    raise ValueError(n)


def _cli():
    import warnings
    try:
        with warnings.catch_warnings():
            warnings.simplefilter("ignore")
            from architecture_simulator.cli import cli
        return cli
    except Exception:
        return None


def texts_at(sim, addr):
    """every place the simulator prints the instruction stored at addr -> {surface: text}"""
    out = {}
    im = sim.state.instruction_memory
    out["get_representation"] = dict(im.get_representation()).get(addr)
    for (a, _), text, _stage in sim.get_instruction_memory_entries():
        if a == addr:
            out["instruction-memory-entries"] = text
    cli = _cli()
    if cli is None:
        return out
    for line in cli.instr_mem_repr(sim).splitlines():
        if line.startswith(f"{addr:08X}"):
            out["cli-listing"] = line[8:].strip()
    return out


def pipeline_texts(src, addr):
    """the pipeline view and the CLI status line for the instruction at addr (five-stage mode)"""
    from architecture_simulator.simulation.riscv_simulation import RiscvSimulation
    out = {}
    sim = RiscvSimulation(mode="five_stage_pipeline")
    sim.load_program(src)
    cli = _cli()
    for _ in range(addr // 4):
        sim.step()
    if cli is not None and sim.state.program_counter == addr:
        for line in cli.display(sim, "hex").splitlines():
            if "Instruction at PC:" in line:
                out["cli-instruction-at-pc"] = line.split("Instruction at PC:", 1)[1].strip()
    try:
        sim.step()
    except Exception:
        return out
    reg = sim.state.pipeline.pipeline_registers[0]
    if reg.address_of_instruction == addr:
        out["pipeline-register"] = str(reg.instruction)
        if cli is not None:
            for line in cli.five_stage_pipeline_repr(sim.state.pipeline.pipeline_registers).splitlines():
                if line.startswith("IF:"):
                    out["cli-pipeline-view"] = line[3:].strip()
    return out


def denotes(text, addr, fields, cache):
    """does the printed text (possibly followed by further columns) assemble at addr to the instruction with these
    fields?  Tries the text as it stands, then without its last one / two blank-separated columns."""
    if text is None:
        return False
    toks = text.split()
    for drop in (0, 1, 2):
        if drop >= len(toks):
            break
        cand = " ".join(toks[:len(toks) - drop])
        if cand not in cache:
            sim, err = RA.impl_load("\n".join(["nop"] * (addr // 4) + [cand]))
            cache[cand] = None if err is not None else instr_fields(sim.state.instruction_memory.read_instruction(addr))
        if cache[cand] == fields:
            return True
    return False


class Repr(Slice):
    name = "repr"

    def gen(self, rng, index, tier):
        n = ALL[index % len(ALL)]
        addr = 4 * rng.choice([0, 0, 1, 2, 7, 100, rng.randrange(0, 100)])
        if tier == "thorough" and rng.random() < 0.04:      # far addresses are expensive (1 ms per preceding nop and load)
            addr = 4 * rng.choice([1000, rng.randrange(0, 1000)])
        t = rnd_instr(rng, n)
        if fmt_kind(n) == "J":
            t[3] = t[2] + addr
        alt = rnd_instr(rng, n)             # same mnemonic, other operands: patched in afterwards
        if fmt_kind(n) == "J":
            alt[3] = alt[2] + addr
        return {"instr": t, "addr": addr, "alt": alt}

    def run(self, case, model):
        t, addr = case["instr"], case["addr"]
        ins = make_instr(t)
        text = repr(ins)
        findings, cl = [], set()
        m = model.call([62, t, addr])
        if m[0] != [ord(c) for c in text]:
            findings.append(("disagreement", f"printed form {text!r} != model {''.join(map(chr, m[0]))!r}"))
        src = "\n".join(["nop"] * (addr // 4) + [text])
        sim, err = RA.impl_load(src)
        if err is not None:
            findings.append(("violation", f"printed text {text!r} of {t} does not assemble: {err}"))
        else:
            back = sim.state.instruction_memory.read_instruction(addr)
            if instr_fields(back) != instr_fields(ins) or repr(back) != text or type(back) is not type(ins):
                findings.append(("violation", f"{text!r} at address {addr} re-assembles to {instr_fields(back)} ({back!r}), original {instr_fields(ins)}"))
            if m[1][0] != 0 or list(m[1][1]) != instr_fields(back):
                findings.append(("disagreement", f"model re-assembly of {text!r}: {m[1]} vs implementation {instr_fields(back)}"))
            # every OTHER place that prints the stored instruction must denote it too
            cache = {text: instr_fields(back)}
            surf = texts_at(sim, addr)
            if addr <= 200:
                surf.update(pipeline_texts(src, addr))
            for name, tx in surf.items():
                cl.add("surface:" + name)
                if tx != text and not denotes(tx, addr, instr_fields(ins), cache):
                    findings.append(("violation", f"{name} prints {tx!r} for the instruction {text!r} at address {addr}"))
            # ... and still does after the instruction at that address has been replaced
            if case.get("alt"):
                alt = make_instr(case["alt"])
                sim.state.instruction_memory.write_instruction(addr, alt)
                cache2 = {}
                for name, tx in texts_at(sim, addr).items():
                    if tx != repr(alt) and not denotes(tx, addr, instr_fields(alt), cache2):
                        findings.append(("violation", f"after write_instruction({addr}, {alt!r}) {name} prints {tx!r}"))
                if case["alt"] != t:
                    cl.add("patched")
        cl.add("mn:" + MNEMONICS[t[0]])
        if any(isinstance(x, int) and x not in (0,) for x in t[3:4]) or addr:
            cl.add("nontrivial")
        return findings, cl

    def nontrivial(self, classes):
        return "nontrivial" in classes

    def required_classes(self, tier):
        return ["mn:" + MNEMONICS[n] for n in ALL] + ["patched", "surface:get_representation", "surface:instruction-memory-entries",
                                                    "surface:pipeline-register"]


class ListingFixpoint(Slice):
    name = "listing"

    def gen(self, rng, index, tier):
        return {"seed": rng.getrandbits(48)}

    def run(self, case, model):
        import random
        rng = random.Random(case["seed"])
        ap = RA.gen_abs(rng)
        text = RA.render(rng, ap)
        sim, err = RA.impl_load(text)
        if err is not None:
            return [], {"skipped"}
        lst = sim.get_instruction_memory_entries()
        if any("fence" in e[1] for e in lst):
            return [], {"skipped"}
        printed = "\n".join(e[1] for e in lst)
        sim2, err2 = RA.impl_load(printed)
        f = []
        if err2 is not None:
            f.append(("violation", f"printed listing does not re-assemble: {err2}"))
        elif sim2.get_instruction_memory_entries() != lst or RA.listing(sim2) != RA.listing(sim):
            f.append(("violation", "re-assembling the printed listing gives a different listing"))
        return f, {"ok", "n>3" if len(lst) > 3 else "short"}

    def nontrivial(self, classes):
        return "n>3" in classes

    def required_classes(self, tier):
        return ["ok", "n>3"]


def slices():
    return [Repr(), ListingFixpoint()]


BUDGET = {"quick": {"repr": 2120, "listing": 300}, "thorough": {"repr": 106000, "listing": 10000}}
