"""C11 — the instruction cache is transparent and its fetch accounting matches a reference.
Props/C11.v proves transparency, counters and reset for the modelled instruction cache (RV.im_read);
this file ties it to instruction_memory_cache_system.py inside whole-program runs of both modes and
checks the property directly (with/without cache, reference cache on the fetch sequence, reload)."""
from __future__ import annotations
from runner import Slice
import gen_rv, cache_exec
from rv_exec import impl_trace, model_trace, compare_traces, trace_classes, pipe_extra, final_state, view
from common import make_sim, MN, cache_options
import rv_asm as RA

RULE = ("icache (model vs implementation): random programs with loops smaller and larger than the cache, branches into the middle "
        "of a block, in single-cycle and five-stage mode, random geometries (index_bits 0-3, block_bits 0-3, assoc 1-8, LRU/PLRU, "
        "penalties 0-10); compared after every step: registers, memory, output, pc, instruction-cache hits/accesses/last_hit, cycles. "
        "Direct (implementation): results with the cache equal results without it; accesses = number of fetches (single-cycle: one "
        "per executed instruction); hits = reference cache fed the same fetch addresses; every miss costs the penalty; after "
        "load_program no block and no counter of the previous program remains. Non-trivial = at least one hit and one miss.")
ASSUMPTIONS = []
MODELLED = "model↔code link is differential (sampled programs and geometries)"


def gen_loop_program(rng):
    """a counted loop (body 1-12 instructions) plus some straight code; terminates"""
    body = rng.randrange(1, 13)
    prog = [[MN["addi"], 5, 0, rng.randrange(1, 5)]]
    start = len(prog)
    for _ in range(body):
        prog.append(gen_rv.gen_alu(rng))
        if prog[-1][1] == 5:
            prog[-1][1] = 6
    if rng.random() < 0.4:      # forward branch into the middle of a later block
        prog.append([MN["beq"], 0, 0, 4 * rng.randrange(1, 4)])
        prog += [gen_rv.gen_alu(rng) for _ in range(3)]
        for p in prog[-3:]:
            if p[1] == 5:
                p[1] = 6
    prog.append([MN["addi"], 5, 5, -1])
    prog.append([MN["bne"], 5, 0, 4 * (start - len(prog))])
    prog += [gen_rv.gen_alu(rng) for _ in range(rng.randrange(0, 4))]
    return prog


def gen_threaded(rng, ic):
    """threaded code: every block ends with a table-driven jump, so the fetch-block sequence is an
    arbitrary chosen sequence (re-visits during warm-up, conflicts in one set, ...).
    Returns (program, register presets, memory presets)"""
    ib, bb = ic[0], ic[1]
    blk = (1 << bb) * 4                    # bytes per cache block
    nblocks = rng.randrange(3, 8)
    spacing_blocks = rng.choice([1, 1 << ib, 1 << ib, 2])      # same set when spacing = number of sets
    starts = [k * spacing_blocks * blk for k in range(nblocks)]
    # dispatch: lw x5,0(x6); addi x6,x6,4; jalr x0,x5,0   (needs 12 bytes; blocks are at least that far apart?)
    step = max(spacing_blocks * blk, 16)
    starts = [k * step for k in range(nblocks)]
    end = nblocks * step
    prog = [[MN["addi"], 0, 0, 0]] * (end // 4)
    prog = [list(x) for x in prog]
    for st in starts:
        i = st // 4
        prog[i] = [MN["lw"], 5, 6, 0]
        prog[i + 1] = [MN["addi"], 6, 6, 4]
        prog[i + 2] = [MN["jalr"], 0, 5, 0]
        prog[i + 3] = [MN["addi"], 7, 7, 1]           # never executed on path (wrong-path fetch in five-stage)
    seq = [rng.randrange(nblocks) for _ in range(rng.randrange(4, 14))]
    table = [starts[k] for k in seq[1:]] + [end]
    mem = []
    for j, a in enumerate(table):
        for b in range(4):
            mem.append([0x4000 + 4 * j + b, (a >> (8 * b)) & 255])
    # entry: jump to the first block of the sequence
    prog[0:0] = []
    regs = [[6, 0x4000]]
    first = starts[seq[0]]
    if first != 0:
        # block 0 is at address 0: start by dispatching through the table instead
        table = [starts[k] for k in seq] + [end]
        mem = []
        for j, a in enumerate(table):
            for b in range(4):
                mem.append([0x4000 + 4 * j + b, (a >> (8 * b)) & 255])
    return prog, regs, mem


class ICache(Slice):
    name = "icache"

    def gen(self, rng, index, tier):
        ic = gen_rv.gen_cache_cfg(rng, small=False)
        r = rng.random()
        if r < 0.4:
            if rng.random() < 0.6:
                ic[0], ic[1] = rng.choice([0, 0, 1]), rng.choice([0, 1, 2])     # few sets: conflicts
            prog, regs, mem = gen_threaded(rng, ic)
            return {"spec": [prog, regs, mem, [], ic], "five": rng.random() < 0.5, "steps": 500}
        prog = gen_loop_program(rng) if r < 0.75 else gen_rv.gen_program(rng, maxlen=20, allow_fault=rng.random() < 0.4)
        return {"spec": gen_rv.gen_state_spec(rng, prog, [], ic), "five": rng.random() < 0.5, "steps": 500}

    def run(self, case, model):
        spec, five = case["spec"], case["five"]
        mode = "five_stage_pipeline" if five else "single_stage_pipeline"
        it = impl_trace(spec, case["steps"], mode=mode, extra=pipe_extra if five else None)
        mt = model_trace(model, 2 if five else 1, spec, case["steps"], *([1] if five else []))
        names = ["regs", "mem", "out", "exit", "pc", "istats", "cycles", "icount"]
        d = compare_traces(it, mt, names, fault_names=["regs", "mem", "out", "cycles", "istats"])
        findings = [("disagreement", d)] if d else []
        cl = {"five" if five else "single"}
        st, term = final_state(it)
        # direct: without cache
        off = impl_trace([spec[0], spec[1], spec[2], spec[3], []], case["steps"], mode=mode, extra=pipe_extra if five else None)
        so, to = final_state(off)
        if term[0] != to[0] or view(st, ["regs", "mem", "out", "exit", "icount"]) != view(so, ["regs", "mem", "out", "exit", "icount"]):
            findings.append(("violation", "results differ with the instruction cache on vs off"))
        # direct: reference cache on the fetch-address sequence
        cfg = spec[4]
        rc = cache_exec.RefCache(cfg)
        pen = cfg[5]
        states = [o for o in it if len(o) >= 8]
        if it[-1][0] == 1:
            states.append(it[-1][2])            # the state left behind by a faulting step
            cl.add("fault")
        ok = True
        faulted = it[-1][0] == 1
        for k, (a, b) in enumerate(zip(states, states[1:])):
            da = b[7][1] - a[7][1]
            if b[5][3] - a[5][3] != 1 + pen * (da - (b[7][0] - a[7][0])):
                findings.append(("violation", f"cycle counter advanced by {b[5][3] - a[5][3]} in a step with {da - (b[7][0] - a[7][0])} fetch miss(es) and penalty {pen}"))
                break
            if faulted and k == len(states) - 2:
                break           # the latches of a faulting step do not tell the fetch address; only the penalty law is checked there
            if da not in (0, 1):
                findings.append(("violation", f"instruction-cache accesses advanced by {da} in one step"))
                break
            if da == 1:
                # the fetch address: single-cycle = pc before the step; five-stage = address now in latch IF
                addr = a[0] if not five else (b[8][0][0] if b[8][0] else None)
                if addr is None:
                    ok = False
                    break
                hit = rc.touch(addr, True)
                rc.counted(hit)
                want = [rc.hits, rc.accesses, rc.last]
                if b[7] != want:
                    findings.append(("violation", f"fetch at {addr}: (hits, accesses, last_hit) = {b[7]}, reference cache {want}"))
                    break
                cl.add("hit" if hit else "miss")
            if not five and b[5][0] - a[5][0] != da:
                findings.append(("violation", "single-cycle mode: fetches != executed instructions"))
                break
        return findings[:3], cl

    def nontrivial(self, classes):
        return "hit" in classes and "miss" in classes

    def shrink(self, case):
        for s in gen_rv.shrink_spec(case["spec"]):
            if s[4]:
                yield dict(case, spec=s)

    def describe(self, case):
        return {"program": gen_rv.program_text(case["spec"][0]), "regs": case["spec"][1], "icache": case["spec"][4],
                "mode": "five" if case["five"] else "single"}

    def required_classes(self, tier):
        return ["five", "single", "hit", "miss", "fault"]


class Reload(Slice):
    """after load_program neither cached instructions nor counters of the previous program remain"""
    name = "icache-reload"

    def gen(self, rng, index, tier):
        return {"seed": rng.getrandbits(40), "ic": gen_rv.gen_cache_cfg(rng), "five": rng.random() < 0.5}

    def run(self, case, model):
        import random
        from architecture_simulator.simulation.riscv_simulation import RiscvSimulation
        rng = random.Random(case["seed"])
        from props.c13 import gen_text
        t1, _ = gen_text(rng, "falloff")
        t2, _ = gen_text(rng, rng.choice(["falloff", "exit"]))
        mode = "five_stage_pipeline" if case["five"] else "single_stage_pipeline"
        mk = lambda: RiscvSimulation(mode=mode, instruction_cache=cache_options(case["ic"]))
        a = mk()
        a.load_program(t1)
        n = 0
        while not a.is_done() and n < 300:
            a.step()
            n += 1
        findings = []
        used = a.state.instruction_memory.get_cache_stats()
        a.load_program(t2)
        b = mk()
        b.load_program(t2)
        sa, sb = a.state.instruction_memory, b.state.instruction_memory
        if sa.get_cache_stats() != sb.get_cache_stats():
            findings.append(("violation", f"after reload the instruction-cache counters are {sa.get_cache_stats()}, fresh {sb.get_cache_stats()}"))
        da = [[(blk.valid_bit, [repr(x) for x in blk.values] if blk.valid_bit else None) for blk in s.blocks] for s in sa.cache.sets]
        db = [[(blk.valid_bit, [repr(x) for x in blk.values] if blk.valid_bit else None) for blk in s.blocks] for s in sb.cache.sets]
        if da != db:
            findings.append(("violation", "after reload the instruction cache still holds blocks of the previous program"))
        # fetches after the reload return the new program's instructions
        pc = 0
        while sa.instruction_at_address(pc) and pc < 64:
            if repr(sa.read_instruction(pc)) != repr(sb.read_instruction(pc)):
                findings.append(("violation", f"fetch at {pc} after reload returns a stale instruction"))
                break
            pc += 4
        return findings, {"used"} if int(used["accesses"]) > 0 else set()

    def nontrivial(self, classes):
        return "used" in classes

    def required_classes(self, tier):
        return ["used"]


class ICacheHistory(Slice):
    """fetch histories on the instruction memory system itself, with reset()+reload between programs:
    returned instruction, penalty and counters after every operation vs the model and vs a FRESH cache
    fed only the fetches since the last reset"""
    name = "icache-history"

    def gen(self, rng, index, tier):
        ic = gen_rv.gen_cache_cfg(rng, small=True)
        if rng.random() < 0.5:
            ic[0] = rng.choice([0, 0, 1])
        progs = [[gen_rv.gen_alu(rng) for _ in range(rng.randrange(1, 40))] for _ in range(rng.randrange(1, 4))]
        ops = []
        cur = 0
        for _ in range(rng.randrange(5, 70)):
            if rng.random() < 0.07 and len(progs) > 1:
                cur = rng.randrange(len(progs))
                ops.append([1, cur])
            else:
                n = len(progs[cur])
                hot = [4 * rng.randrange(0, n) for _ in range(4)]
                ops.append([0, rng.choice(hot) if rng.random() < 0.6 else 4 * rng.randrange(0, n)])
        return {"ic": ic, "progs": progs, "ops": ops}

    def mk(self, ic, prog):
        from architecture_simulator.uarch.memory.instruction_memory import InstructionMemory
        from architecture_simulator.uarch.memory.instruction_memory_cache_system import InstructionMemoryCacheSystem
        from architecture_simulator.uarch.riscv.riscv_performance_metrics import RiscvPerformanceMetrics
        from common import make_instr
        pm = RiscvPerformanceMetrics()
        im = InstructionMemoryCacheSystem(instruction_memory=InstructionMemory(), num_index_bits=ic[0], num_block_bits=ic[1],
                                          associativity=ic[2], performance_metrics=pm,
                                          replacement_strategy="plru" if ic[3] else "lru", miss_penality=ic[5])
        im.write_instructions([make_instr(t) for t in prog])
        return im, pm

    def run(self, case, model):
        from common import make_instr, instr_fields, stats_of
        ic, progs, ops = case["ic"], case["progs"], case["ops"]
        im, pm = self.mk(ic, progs[0])
        fresh, fpm = self.mk(ic, progs[0])
        it, findings, cl = [], [], set()
        cur = 0
        for k, op in enumerate(ops):
            c0 = pm.cycles
            if op[0] == 0:
                ins = im.read_instruction(op[1])
                fc0 = fpm.cycles
                fins = fresh.read_instruction(op[1])
                it.append([[instr_fields(ins)] if ins.mnemonic != "Empty" else [], pm.cycles - c0, stats_of(im.get_cache_stats())])
                want = progs[cur][op[1] // 4]
                if instr_fields(ins) != instr_fields(make_instr(want)):
                    findings.append(("violation", f"op {k}: fetch at {op[1]} returns {ins!r}, instruction memory holds {make_instr(want)!r}"))
                    break
                if [stats_of(im.get_cache_stats()), pm.cycles - c0] != [stats_of(fresh.get_cache_stats()), fpm.cycles - fc0]:
                    findings.append(("violation", f"op {k}: counters/penalty {stats_of(im.get_cache_stats())}/{pm.cycles - c0} differ from a fresh "
                                                  f"cache fed the fetches since the last reset {stats_of(fresh.get_cache_stats())}/{fpm.cycles - fc0}"))
                    break
                cl.add("hit" if im.get_cache_stats()["last_hit"] else "miss")
            else:
                cur = op[1]
                im.reset()
                im.write_instructions([make_instr(t) for t in progs[cur]])
                fresh, fpm = self.mk(ic, progs[cur])
                it.append([[], 0, stats_of(im.get_cache_stats())])
                cl.add("reset")
        if not findings:
            mt = model.call([51, ic, progs, ops])
            mt = [[ [list(x) for x in a], b, [c[0], c[1], bool(c[2])] if c else []] for a, b, c in mt]
            if mt != it:
                k = next((j for j in range(min(len(it), len(mt))) if it[j] != mt[j]), -1)
                findings.append(("disagreement", f"op {k} {ops[k] if k >= 0 else ''}: impl {it[k] if k >= 0 else len(it)} model {mt[k] if k >= 0 else len(mt)}"))
        cl.add("plru" if ic[3] else "lru")
        return findings[:2], cl

    def nontrivial(self, classes):
        return "hit" in classes and "miss" in classes

    def required_classes(self, tier):
        return ["hit", "miss", "reset", "plru", "lru"]

    def shrink(self, case):
        ops = case["ops"]
        for i in range(len(ops) - 1, -1, -1):
            yield dict(case, ops=ops[:i] + ops[i + 1:])


class ICacheImages(Slice):
    """direct, implementation only: images that are NOT the ordinary 'program from address 0' — an instruction memory whose first
    address is not block-aligned, and images with gaps inside a block (written with write_instruction); every fetch through the
    cache must return what the uncached instruction memory returns (same instruction object, or the same error)"""
    name = "icache-images"

    def gen(self, rng, index, tier):
        base = rng.choice([0, 0, 4, 8, 12, 16, 20, 40])
        n = rng.randrange(1, 24)
        present = [k for k in range(n) if rng.random() < (1.0 if rng.random() < 0.5 else 0.75)] or [0]
        seq = [rng.choice(present + [rng.randrange(0, n + 3)]) for _ in range(rng.randrange(1, 40))]
        return {"base": base, "present": present, "seq": seq, "cfg": gen_rv.gen_cache_cfg(rng), "rewrite": rng.random() < 0.3}

    def run(self, case, model):
        from architecture_simulator.uarch.memory.instruction_memory import InstructionMemory
        from architecture_simulator.uarch.memory.instruction_memory_cache_system import InstructionMemoryCacheSystem
        from architecture_simulator.uarch.riscv.riscv_performance_metrics import RiscvPerformanceMetrics
        from architecture_simulator.isa.riscv.rv32i_instructions import ADDI
        base, cfg = case["base"], case["cfg"]
        imem = InstructionMemory(address_range=range(base, 2 ** 14))
        cs = InstructionMemoryCacheSystem(imem, cfg[0], cfg[1], cfg[2], RiscvPerformanceMetrics(), cfg[5], "plru" if cfg[3] else "lru")
        for k in case["present"]:
            cs.write_instruction(base + 4 * k, ADDI(rd=1, rs1=0, imm=k))
        findings, cl = [], {"base!=0" if base % (4 << cfg[1]) else "aligned", "gaps" if len(case["present"]) <= max(case["present"]) else "dense"}

        def get(obj, a):
            try:
                return ("ok", obj.read_instruction(a))
            except Exception as e:
                return ("err", type(e).__name__)
        for j, k in enumerate(case["seq"]):
            a = base + 4 * k
            if cs.instruction_at_address(a) != imem.instruction_at_address(a):
                findings.append(("violation", f"instruction_at_address({a}) differs with the cache"))
                break
            if not imem.instruction_at_address(a):
                continue        # the fetch stage never reads where no instruction is stored (the cache answers such a read with an empty slot)
            u, c = get(imem, a), get(cs, a)
            if u[0] != c[0] or (u[0] == "ok" and (repr(u[1]) != repr(c[1]) or type(u[1]) is not type(c[1]))) or (u[0] == "err" and u[1] != c[1]):
                findings.append(("violation", f"fetch #{j} at address {a} (memory starts at {base}, instructions at words {case['present']}): uncached {u}, through the cache {c}"))
                break
            if cs.instruction_at_address(a) != imem.instruction_at_address(a):
                findings.append(("violation", f"instruction_at_address({a}) differs with the cache"))
                break
            if case["rewrite"] and j == len(case["seq"]) // 2:
                # a new image, loaded the way load_program does it (reset, then write): everything cached so far must be forgotten
                cs.reset()
                cs.write_instructions([ADDI(rd=2, rs1=0, imm=100 + i) for i in range(len(case["present"]))])
                cl.add("rewritten")
        return findings, cl

    def nontrivial(self, classes):
        return "base!=0" in classes or "gaps" in classes

    def required_classes(self, tier):
        return ["base!=0", "aligned", "gaps", "dense", "rewritten"]

    def shrink(self, case):
        for i in range(len(case["seq"]) - 1, -1, -1):
            yield dict(case, seq=case["seq"][:i] + case["seq"][i + 1:])


def slices():
    return [ICache(), Reload(), ICacheHistory(), ICacheImages()]


BUDGET = {"quick": {"icache": 600, "icache-reload": 200, "icache-history": 600, "icache-images": 800},
          "thorough": {"icache": 20000, "icache-reload": 5000, "icache-history": 20000, "icache-images": 30000}}
