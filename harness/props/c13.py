"""C13 — lifecycle: done is stable, run equals stepping, reload equals a fresh load.
Props/C13.v proves these for the three modelled machines (single-cycle, five-stage, TOY) over every
state / program / load history; this file ties the models' load/step/run/is_done to the
implementation on random interleavings and evaluates the property directly on the implementation."""
from __future__ import annotations
import random, copy
from runner import Slice
import rv_asm as RA, toy_asm as TA, toy_exec as T, gen_rv, cache_exec
from common import obs_state, cache_options, first_diff, map_exc
from rv_exec import pipe_extra, view

RULE = ("lifecycle-rv: terminating programs (fall off the end, exit ecall with younger instructions already fetched, jump outside the "
        "program, run-time fault, empty text) x mode (single-cycle / five-stage) x optional caches x a load history of 1-3 loads "
        "(successful and failing) before the start x an interleaving of step / run / extra steps and runs after done; compared with "
        "the model after every call: outcome (step's return value, fault), full state observation, is_done. Direct (implementation): "
        "extra step/run after done change nothing and step returns False; run() ends in the same state as step() until done; step() "
        "returns not is_done(); an empty program is done at once; loading after earlier loads gives the state a fresh simulation "
        "gets (incl. cache directory, counters, latches). lifecycle-toy: the same for ToySimulation. Non-trivial = >= 3 steps.")
ASSUMPTIONS = ["loads happen before the simulation has started (the property's premise)"]
MODELLED = "model↔code link is differential (sampled interleavings)"

BAD_LINES = ["beq x1, x2, nowhere", "addi x1, x0, 01", "la x1, novar", "bogus", ".text", "x: .word 1", "jal x0, 3"]


def gen_text(rng, kind=None):
    kind = kind or rng.choice(["falloff", "exit", "jump-out", "fault", "empty", "exit", "falloff"])
    if kind == "empty":
        return rng.choice(["", "# nothing", ".data\nv: .word 1\n.text", "lab:"]), kind
    n = rng.randrange(1, 10)
    lines = []
    data = rng.random() < 0.4
    for i in range(n):
        r = rng.random()
        if r < 0.35:
            lines.append(f"addi x{rng.randrange(1, 8)}, x{rng.randrange(0, 8)}, {rng.randrange(-20, 20)}")
        elif r < 0.5:
            lines.append(f"add x{rng.randrange(1, 8)}, x{rng.randrange(0, 8)}, x{rng.randrange(0, 8)}")
        elif r < 0.6:
            lines.append(f"li x{rng.randrange(1, 8)}, {rng.choice([5, 70000, -3, 0x4000])}")
        elif r < 0.72:
            lines.append(f"beq x{rng.randrange(0, 4)}, x{rng.randrange(0, 4)}, end")
        elif r < 0.8 and data:
            lines.append(rng.choice(["lw x5, v", "sw x3, v, x6", "la x7, v[1]"]))
        elif r < 0.9:
            lines += [f"li a7, {rng.choice([1, 11, 34, 36])}", f"li a0, {rng.choice([65, 7, 66])}", "ecall"]
        else:
            lines.append(f"sll x{rng.randrange(1, 8)}, x{rng.randrange(0, 8)}, x{rng.randrange(0, 8)}")
    k = rng.randrange(0, len(lines) + 1)
    if kind == "exit":
        lines[k:k] = [f"li a7, {rng.choice([10, 93])}", "li a0, 3", "ecall"]
    elif kind == "jump-out":
        lines.insert(k, f"jal x0, {rng.choice([4000, 8000, 16000])}")
    elif kind == "fault":
        lines.insert(k, rng.choice(["lw x1, 0(x0)", "sw x1, 4(x0)", "li a7, 5\necall"]))
    lines.append("end:")
    if rng.random() < 0.5:
        lines.append("addi x9, x9, 1")
    if data:
        d = ["v: .word 7, 8, 9"]
        for _ in range(rng.randrange(0, 3)):
            d.append(rng.choice(['s%d: .string "ab%s"' % (len(d), "cd" * rng.randrange(0, 3)), "b%d: .byte 1, 2, 3" % len(d),
                                 "h%d: .half 0x1234, 5" % len(d), "z%d: .zero %d" % (len(d), rng.randrange(0, 3))]))
        rng.shuffle(d)
        return "\n".join([".data"] + d + [".text"] + lines) if rng.random() < 0.5 else "\n".join([".text"] + lines + [".data"] + d), kind
    return "\n".join(lines), kind


def full_snapshot(sim, five):
    o = obs_state(sim) + (pipe_extra(sim) if five else [])
    ms = sim.state.memory
    if hasattr(ms, "cache"):
        o.append(cache_exec.directory(ms))
    im = sim.state.instruction_memory
    if hasattr(im, "cache"):
        o.append([[[1 if b.valid_bit else 0, b.decoded_address.tag if b.valid_bit else 0] for b in s.blocks] + [[int(x) for x in s.replacement_strategy.get_repr()]]
                  for s in im.cache.sets])
    o.append(sim.has_started)
    o.append(sim.state.previous_program_counter if hasattr(sim.state, "previous_program_counter") else 0)
    return o


def new_sim(case):
    from architecture_simulator.simulation.riscv_simulation import RiscvSimulation
    return RiscvSimulation(mode="five_stage_pipeline" if case["five"] else "single_stage_pipeline",
                           detect_data_hazards=case.get("haz", True),
                           data_cache=cache_options(case["dc"]), instruction_cache=cache_options(case["ic"]))


def impl_apply(sim, op, five):
    """returns the outcome record in the model's layout"""
    from architecture_simulator.simulation.runtime_errors import InstructionExecutionException
    if isinstance(op, list) and op[0] == 0:
        try:
            sim.load_program(op[1])
            return [0, []]
        except Exception as e:
            return [0, [TA.map_load_exc(e)]]
    try:
        if op == 1:
            r = sim.step()
            return [1, 1 if r else 0, []]
        sim.run()
        return [2, [0]]
    except InstructionExecutionException as e:
        f = [e.address, e.instruction_repr, map_exc(e.__context__)]
        return [1, 0, [f]] if op == 1 else [2, [1, f]]


class LifecycleRv(Slice):
    name = "lifecycle-rv"

    def gen(self, rng, index, tier):
        five = rng.random() < 0.5
        texts = []
        for _ in range(rng.choice([1, 1, 2, 3])):
            t, kind = gen_text(rng)
            if rng.random() < 0.25:
                ls = t.split("\n")
                ls.insert(rng.randrange(0, len(ls) + 1), rng.choice(BAD_LINES))
                t = "\n".join(ls)
            texts.append(t)
        t, kind = gen_text(rng)
        texts.append(t)                     # the last load is well-formed
        ops = [[0, x] for x in texts]
        for _ in range(rng.randrange(0, 12)):
            ops.append(1)
        if rng.random() < 0.25:
            # a reload in mid-run (instructions still in flight in five-stage mode), then on with the new program
            t2, kind = gen_text(rng)
            ops.append([0, t2])
            for _ in range(rng.randrange(0, 8)):
                ops.append(1)
        ops.append([2, 3000] if rng.random() < 0.7 else 1)
        for _ in range(rng.randrange(0, 4)):
            ops.append(rng.choice([1, [2, 3000]]))
        return {"five": five, "haz": rng.random() < 0.75, "dc": gen_rv.gen_cache_cfg(rng) if rng.random() < 0.3 else [],
                "ic": gen_rv.gen_cache_cfg(rng) if rng.random() < 0.3 else [],
                "regs": [[r, rng.choice([0, 1, 5, 0x4000])] for r in (1, 2, 3)], "ops": ops, "kind": kind}

    def run(self, case, model):
        import fixedint
        five = case["five"]
        findings, cl = [], {"kind:" + case.get("kind", "?"), "five" if five else "single"}
        sim = new_sim(case)
        for r, v in case["regs"]:
            sim.state.register_file.registers[r] = fixedint.UInt32(v)
        it = [[[], obs_state(sim) + (pipe_extra(sim) if five else []), 1 if sim.is_done() else 0]]
        mops = []
        convertible = True
        steps = 0
        for op in case["ops"]:
            was_done = sim.is_done()
            before = full_snapshot(sim, five)
            o = impl_apply(sim, op if not (isinstance(op, list) and op[0] == 2) else 2, five)
            after = full_snapshot(sim, five)
            it.append([o, obs_state(sim) + (pipe_extra(sim) if five else []), 1 if sim.is_done() else 0])
            faulted = (o[0] == 1 and o[2]) or (o[0] == 2 and o[1][0] == 1)
            if isinstance(op, list) and op[0] == 0:
                tk = RA.tokens_of(op[1])
                if tk[0] != "ok":
                    convertible = False
                if steps and not o[1]:
                    cl.add("reload-mid-run")
                    if five and not case.get("haz", True):
                        cl.add("reload-mid-run-nohaz")
                mops.append([0, tk[1] if tk[0] == "ok" else []])
                if o[1]:
                    cl.add("failed-load")
            else:
                mops.append(op)
                if op == 1:
                    steps += 1
                    if not faulted and o[1] != (0 if sim.is_done() else 1):
                        findings.append(("violation", f"step() returned {bool(o[1])} but is_done() is {sim.is_done()} afterwards"))
                if was_done:
                    cl.add("after-done")
                    if after != before:
                        d = first_diff(before, after, "snapshot")
                        findings.append(("violation", f"{'step' if op == 1 else 'run'}() on a finished simulation changed the state: {d}"))
                    if op == 1 and o[1] != 0:
                        findings.append(("violation", "step() on a finished simulation returned True"))
            if faulted:
                cl.add("fault")
                break
        if steps >= 3:
            cl.add("steps>=3")
        if convertible:
            mt = model.call([70, 1 if five else 0, 1 if case.get("haz", True) else 0, case["dc"], case["ic"], case["regs"], mops])
            from common import norm_model_state
            from common import make_instr
            for k, (a, b) in enumerate(zip(it, mt)):
                bo = list(b[0])
                # fault records: print the model's instruction with the implementation's printer
                def fix(f):
                    return [f[0], repr(make_instr(f[1])), f[2]]
                if bo and bo[0] == 1 and bo[2]:
                    bo = [1, bo[1], [fix(bo[2][0])]]
                if bo and bo[0] == 2 and bo[1][0] == 1:
                    bo = [2, [1, fix(bo[1][1])]]
                bs = norm_model_state(b[1][:8]) + list(b[1][8:])
                names = ["regs", "mem", "out", "exit", "icount", "bcount", "pcount", "cycles", "stalls", "flushes", "dstats", "istats", "pc"]
                failed_load = bool(a[0]) and a[0][0] == 0 and bool(a[0][1])
                faulting = bool(a[0]) and ((a[0][0] == 1 and bool(a[0][2])) or (a[0][0] == 2 and a[0][1][0] == 1))
                d = first_diff(a[0], bo, f"op{k}.outcome")
                if d is None and not failed_load:
                    # a failing load leaves partially written data memory behind (the next load resets it);
                    # the model returns the state after the resets, so only the outcome is compared there
                    d = first_diff(view(a[1], names), view(bs, names), f"op{k}.state") \
                        or (None if a[2] == b[2] else f"op{k}: is_done impl {a[2]} model {b[2]}")
                if d is None and five and a[1][8] != bs[8] and not faulting and not failed_load:
                    d = f"op{k}: latches impl {a[1][8]} model {bs[8]}"
                if d:
                    findings.append(("disagreement", d))
                    break
        # direct: run() == step() until done; reload == fresh
        loads = [op for op in case["ops"] if isinstance(op, list) and op[0] == 0]
        a, b = new_sim(case), new_sim(case)
        ok = True
        for s_ in (a, b):
            for r, v in case["regs"]:
                s_.state.register_file.registers[r] = fixedint.UInt32(v)
        for op in loads:
            impl_apply(a, op, five)
        ob = impl_apply(b, loads[-1], five)
        if full_snapshot(a, five) != full_snapshot(b, five):
            findings.append(("violation", "loading after earlier loads differs from loading into a fresh simulation: "
                             + str(first_diff(full_snapshot(a, five), full_snapshot(b, five), "snapshot"))))
        if not ob[1]:
            if case.get("kind") == "empty" and not b.is_done():
                findings.append(("violation", "a program without instructions is not done immediately"))
            try:
                n = 0
                while not a.is_done() and n < 5000:
                    a.step()
                    n += 1
                b.run()
                if full_snapshot(a, five)[:-2] != full_snapshot(b, five)[:-2]:
                    findings.append(("violation", "run() ends in a different state than step() until done: "
                                     + str(first_diff(full_snapshot(a, five), full_snapshot(b, five), "snapshot"))))
            except Exception:
                pass
        return findings[:3], cl

    def nontrivial(self, classes):
        return "steps>=3" in classes

    def shrink(self, case):
        ops = case["ops"]
        for i in range(len(ops) - 1, -1, -1):
            if not (isinstance(ops[i], list) and ops[i][0] == 0 and sum(1 for o in ops if isinstance(o, list) and o[0] == 0) == 1):
                yield dict(case, ops=ops[:i] + ops[i + 1:])
        if case["dc"]:
            yield dict(case, dc=[])
        if case["ic"]:
            yield dict(case, ic=[])

    def describe(self, case):
        return {"mode": "five-stage" if case["five"] else "single-cycle", "dcache": case["dc"], "icache": case["ic"],
                "ops": [("load: " + o[1].replace("\n", " | ")) if isinstance(o, list) and o[0] == 0 else ("step" if o == 1 else "run") for o in case["ops"]]}

    def required_classes(self, tier):
        return ["five", "single", "after-done", "failed-load", "fault", "kind:exit", "kind:jump-out", "kind:empty", "kind:falloff", "steps>=3", "reload-mid-run", "reload-mid-run-nohaz"]


def gen_toy_text(rng):
    n = rng.randrange(0, 8)
    lines = []
    for i in range(n):
        r = rng.random()
        if r < 0.4:
            lines.append(rng.choice(["LDA", "ADD", "SUB", "STO", "OR", "AND", "XOR"]) + " " + rng.choice(["x", "y", "0x010", "7"]))
        elif r < 0.6:
            lines.append(rng.choice(["INC", "DEC", "NOT", "ZRO", "NOP"]))
        elif r < 0.8:
            lines.append("BRZ end")
        else:
            lines.append("STO %d" % rng.randrange(0, n + 1))       # self-modification
    lines.append("end:")
    data = ["x: .word %d" % rng.randrange(0, 9), "y: .word " + ", ".join(str(rng.randrange(0, 70000)) for _ in range(rng.randrange(1, 4)))]
    for k in range(rng.randrange(0, 3)):
        data.append("w%d: .word %s" % (k, ", ".join(str(rng.randrange(1, 99)) for _ in range(rng.randrange(1, 5)))))
    if rng.random() < 0.15:
        return "\n".join([".data"] + data)                     # a program without instructions
    return "\n".join(lines + [".data"] + data) if rng.random() < 0.6 else "\n".join([".data"] + data + [".text"] + lines)


class LifecycleToy(Slice):
    name = "lifecycle-toy"

    def gen(self, rng, index, tier):
        texts = [gen_toy_text(rng) for _ in range(rng.choice([1, 2, 2, 3]))]
        for k in range(len(texts) - 1):
            if rng.random() < 0.5:
                # a load that fails late (after the data segment was written): undefined label in the text segment
                ls = texts[k].split("\n")
                pos = ls.index(".data") if ".data" in ls and ls[0] != ".data" else len(ls)
                ls.insert(pos, "BRZ nowhere")
                texts[k] = "\n".join(ls)
        ops = [[5, t] for t in texts] + [0] * rng.randrange(0, 10) + [[4, 500]] + [rng.choice([0, [4, 500]]) for _ in range(rng.randrange(0, 3))]
        size = None
        if rng.random() < 0.3:
            # a small memory: operands / branch targets / the end of the program may lie outside it, so runs can FAULT
            size = rng.choice([8, 12, 16])
            small = []
            for _ in range(rng.randrange(1, 6)):
                if rng.random() < 0.6:
                    mn = rng.choice(["LDA", "ADD", "STO", "BRZ", "SUB"])
                    tgt = rng.choice([0, 1, size - 1, size, size + 3, 100, 4095])
                    if mn == "BRZ" and tgt <= len(small):
                        tgt = rng.choice([size - 1, size, 100])       # forward only: every run terminates
                    if mn == "STO" and tgt < 6:
                        tgt = size - 1                                # no self-modification into a backward branch
                    small.append(f"{mn} {tgt}")
                else:
                    small.append(rng.choice(["INC", "DEC", "NOP", "ZRO"]))
            texts = ["\n".join(small)] + ([gen_toy_text(rng)] if rng.random() < 0.3 else [])
            ops = [[5, t] for t in texts] + [0] * rng.randrange(0, 6) + [[4, 500]] + [rng.choice([0, [4, 500]]) for _ in range(rng.randrange(0, 3))]
        if rng.random() < 0.35:
            # load / step interleavings: whole steps, half steps and single cycles BEFORE a further load (a reload in the
            # middle of an instruction included)
            ops = []
            for t in texts:
                ops.append([5, t])
                for _ in range(rng.randrange(0, 5)):
                    ops.append(rng.choice([0, 0, 1, 2, 3, 3]))
            ops += [rng.choice([0, 3, [4, 500]]) for _ in range(rng.randrange(0, 4))]
        return {"ops": ops, "size": size}

    def run(self, case, model):
        from architecture_simulator.simulation.toy_simulation import ToySimulation
        findings, cl = [], set()
        size = case.get("size")
        sim = ToySimulation(unified_memory_size=size)
        it = [[[], T.obs_toy(sim, False)]]
        mops = []
        steps = 0
        tainted = False
        for op in case["ops"]:
            is_load = isinstance(op, list) and op[0] == 5
            if tainted and not is_load:
                continue          # after a FAILED load the state is partial (outside the model): nothing is run until the next load
            before = T.obs_toy(sim, True)
            was_done = sim.is_done()
            if is_load:
                from props.c19 import impl_load
                try:
                    sim.load_program(op[1])
                    o = [[]]
                    tainted = False
                    if not sim.has_started:
                        # a simulation that says it has not started IS a fresh simulation with this program
                        fresh = ToySimulation(unified_memory_size=size)
                        fresh.load_program(op[1])
                        if T.obs_toy(sim, True) != T.obs_toy(fresh, True):
                            d0 = T.first_diff(T.obs_toy(sim, True), T.obs_toy(fresh, True), "state")
                            findings.append(("violation", f"TOY: has_started is False after this load but the state differs from a fresh simulation with the same program ({d0})"))
                        cl.add("load-not-started")
                    if steps:
                        cl.add("load-after-steps")
                except Exception as e:
                    o = [[TA.map_load_exc(e)]]
                    cl.add("failed-load")
                    tainted = True
                tk = TA.tokens_of(op[1])
                mops.append([5, tk[1] if tk[0] == "ok" else []])
            else:
                o = T.apply_impl(sim, op)
                mops.append(op)
                steps += 1
                if op == 0 and o[0] == [0] and o[1] != (0 if sim.is_done() else 1):
                    findings.append(("violation", "step() return value != not is_done()"))
                if was_done and sim.has_instructions() is not None:
                    cl.add("after-done")
                    if T.obs_toy(sim, True) != before:
                        findings.append(("violation", "step/run on a finished TOY simulation changed the state"))
            it.append([o, T.obs_toy(sim, False)])
        mt = T.norm_model_toy(model.call([10, [size or 4096, [], 0, 1, [], []], mops]), getters=False)
        # the initial TOY state of a fresh simulation has no max_pc; align the first observation
        it2, mt2 = [], []
        for a, b in zip(it[1:], mt[1:]):
            if a[0] and a[0][0] and isinstance(a[0][0][0], list):
                # failed load: compare the outcome only
                it2.append([a[0], []]); mt2.append([b[0], []])
            else:
                it2.append(a); mt2.append(b)
        d = T.compare_toy(it2, mt2)
        if d:
            findings.append(("disagreement", d))
        if steps >= 3:
            cl.add("steps>=3")
        # direct: reload == fresh, run == steps
        loads = [op for op in case["ops"] if isinstance(op, list) and op[0] == 5]
        a, b = ToySimulation(unified_memory_size=size), ToySimulation(unified_memory_size=size)
        try:
            for op in loads[:-1]:
                try:
                    a.load_program(op[1])
                except Exception:
                    pass
            a.load_program(loads[-1][1])
            b.load_program(loads[-1][1])
        except Exception:
            return findings[:3], cl
        if T.obs_toy(a, True) != T.obs_toy(b, True):
            findings.append(("violation", "TOY: loading after earlier loads differs from a fresh load"))
        ea = eb = None
        n = 0
        try:
            while not a.is_done() and n < 2000:
                a.step()
                n += 1
        except Exception as e:
            ea = type(e).__name__
            cl.add("run-faults")
        try:
            b.run()
        except Exception as e:
            eb = type(e).__name__
        if ea != eb or T.obs_toy(a, True) != T.obs_toy(b, True):
            d0 = T.first_diff(T.obs_toy(a, True), T.obs_toy(b, True), "state")
            findings.append(("violation", f"TOY: run() (ends with {eb}) differs from step() until done (ends with {ea}): {d0}"))
        return findings[:3], cl

    def nontrivial(self, classes):
        return "steps>=3" in classes

    def required_classes(self, tier):
        return ["after-done", "failed-load", "steps>=3", "load-not-started", "load-after-steps", "run-faults"]


def slices():
    return [LifecycleRv(), LifecycleToy(), LongRun()]


class LongRun(Slice):
    """run() is 'step until done' however long that takes: a program of more than a million cycles
    (nothing in the property bounds the length of a run)"""
    name = "long-run"
    case_timeout = 150

    def exhaustive(self, tier):
        yield {"iterations": 340000, "mode": "single_stage_pipeline"}
        if tier == "thorough":
            yield {"iterations": 210000, "mode": "five_stage_pipeline"}

    def gen(self, rng, index, tier):
        return {"iterations": 340000, "mode": "single_stage_pipeline"}

    def run(self, case, model):
        from architecture_simulator.simulation.riscv_simulation import RiscvSimulation
        n = case["iterations"]
        sim = RiscvSimulation(mode=case["mode"])
        sim.load_program(f"li t0, {n}\nloop:\naddi t0, t0, -1\naddi t1, t1, 1\nbne t0, zero, loop\nli a7, 93\nli a0, 42\necall")
        sim.run()
        f = []
        got = (sim.is_done(), sim.state.exit_code, int(sim.state.register_file.registers[6]), int(sim.state.register_file.registers[5]))
        want = (True, 42, n, 0)
        if got != want:
            f.append(("violation", f"run() of a {3 * n + 5}-instruction countdown returned with (done, exit code, t1, t0) = {got}, "
                                   f"stepping until done gives {want}"))
        return f, {"million-cycles" if 3 * n + 5 > 1000000 or case["mode"] != "single_stage_pipeline" else "short"}

    def required_classes(self, tier):
        return ["million-cycles"]


BUDGET = {"quick": {"lifecycle-rv": 700, "lifecycle-toy": 500, "long-run": "exhaustive"},
          "thorough": {"lifecycle-rv": 20000, "lifecycle-toy": 15000, "long-run": "exhaustive"}}
