"""C20 — TOY two-phase stepping: whole steps, half-cycle steps and single-cycle steps are equivalent.
Props/C20.v proves it for the model over every state and interleaving; this file ties the model's
first_half/second_half/step/single to toy_simulation.py and checks the property on the implementation."""
from __future__ import annotations
import copy
from runner import Slice
import toy_exec as T

RULE = ("toy-phases: random TOY memory images x random interleavings of step / first_cycle_step / second_cycle_step / single_step "
        "(15% of the calls deliberately out of order); after every call the full state snapshot incl. register representations and "
        "memory-table rows/markers is compared with the model. Direct (implementation only): the same program is also run with "
        "whole steps only and at every instruction boundary snapshot, get_memory_table_entries() and get_toy_svg_update_values() "
        "must be identical; an out-of-order call must raise StepSequenceError and leave the snapshot unchanged; calls after the end "
        "change nothing. Non-trivial = at least two completed instructions and one half-step call.")
ASSUMPTIONS = ["memory size 4096 (no memory-address errors inside behavior)"]
MODELLED = "model↔code link is differential (sampled interleavings); SVG payloads are compared implementation-vs-implementation only"


def snapshot(sim):
    return [T.obs_toy(sim, getters=True), sim.get_toy_svg_update_values()]


class ToyPhases(Slice):
    name = "toy-phases"

    def gen(self, rng, index, tier):
        spec = T.gen_toy_image(rng, maxlen=8)
        ops = []
        phase = 1
        n = rng.randrange(2, 40)
        for _ in range(n):
            r = rng.random()
            if r < 0.15:
                op = rng.choice([0, 1, 2])          # possibly illegal
            elif phase == 1:
                op = rng.choice([0, 1, 3, 3])
            else:
                op = rng.choice([2, 3, 3])
            ops.append(op)
            # track the phase assuming the program is not done (the harness reads the real one)
            if op == 0 and phase == 1:
                pass
            elif op == 1 and phase == 1:
                phase = 2
            elif op == 2 and phase == 2:
                phase = 1
            elif op == 3:
                phase = 3 - phase
        return {"spec": spec, "ops": ops}

    def run(self, case, model):
        spec, ops = case["spec"], case["ops"]
        findings, cl = [], set()
        it = T.impl_toy_trace(spec, ops, getters=True)
        mt = T.norm_model_toy(model.call([10, spec, ops]), getters=True)
        d = T.compare_toy(it, mt)
        if d:
            findings.append(("disagreement", d))
        # direct: against a whole-step run of the implementation
        sim = T.make_toy(spec)
        ref = T.make_toy(spec)
        ref_snaps = {0: snapshot(ref)}
        from architecture_simulator.simulation.runtime_errors import StepSequenceError
        for k, op in enumerate(ops):
            before = snapshot(sim)
            was_done = sim.is_done()
            nc = sim.next_cycle
            legal = {0: nc == 1, 1: nc == 1 or was_done, 2: nc == 2 or was_done, 3: True}[op]
            try:
                [sim.step, sim.first_cycle_step, sim.second_cycle_step, sim.single_step][op]()
                raised = False
            except StepSequenceError:
                raised = True
            after = snapshot(sim)
            if was_done:
                # "all of these are no-ops once the program is done": whether a call that is ALSO out of order then raises
                # the sequencing error or silently does nothing is not fixed by the property; the state must not change
                cl.add("after-done")
                if after != before:
                    findings.append(("violation", f"call {k} (op {op}) after the program was done changed the state"))
            elif raised == legal:
                findings.append(("violation", f"call {k} (op {op}, next_cycle {nc}, done {was_done}): "
                                 + ("raised StepSequenceError although in order" if raised else "out of order but no StepSequenceError")))
            if was_done:
                pass
            elif not legal:
                cl.add("illegal")
                if after != before:
                    findings.append(("violation", f"call {k} (op {op}) out of order changed the state"))
            else:
                if op != 0:
                    cl.add("half")
            # at instruction boundaries compare with the whole-step reference
            if sim.next_cycle == 1:
                n = sim.state.performance_metrics.instruction_count
                while max(ref_snaps) < n and not ref.is_done():
                    ref.step()
                    ref_snaps[ref.state.performance_metrics.instruction_count] = snapshot(ref)
                if n in ref_snaps and ref_snaps[n] != after:
                    diff = T.first_diff(ref_snaps[n][0], after[0], "state") or "svg update values differ"
                    findings.append(("violation", f"after {n} instructions the interleaved run differs from whole steps: {diff}"))
                if n >= 2:
                    cl.add("n>=2")
        return findings[:3], cl

    def nontrivial(self, classes):
        return "n>=2" in classes and "half" in classes

    def required_classes(self, tier):
        return ["illegal", "after-done", "half", "n>=2"]

    def shrink(self, case):
        ops = case["ops"]
        for i in range(len(ops) - 1, -1, -1):
            yield dict(case, ops=ops[:i] + ops[i + 1:])


def slices():
    return [ToyPhases()]


BUDGET = {"quick": {"toy-phases": 1200}, "thorough": {"toy-phases": 40000}}
