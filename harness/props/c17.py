"""C17 — displayed values are faithful in all four number representations.
Props/C17.v proves the model formatter (Model/Fmt.v) and table builder (Mem.mem_repr) against reading
functions (Spec/Numerals.v); this file ties them to integer_representations.py, register_file.py,
memory.py and the simulation getters, and checks the denotation directly on the implementation's strings."""
from __future__ import annotations
from runner import Slice
import gen_rv, toy_exec as T
from common import make_sim, lower_memory, cache_options

RULE = ("format: get_n_bit_representations(v, n) for widths 12/16 (every value in the thorough tier), 32 (boundary + random), "
        "odd widths 1..40, negative and over-wide v; compared with the model and read back directly (binary/hex/decimal "
        "strings must denote v mod 2^n resp. its two's-complement value, grouping 8/2 from the right). rv-tables: register "
        "and data-memory tables after random programs; toy-tables: TOY register representations and memory table along "
        "random runs. Non-trivial = value != 0 (format) / a memory row exists (tables).")
ASSUMPTIONS = []
MODELLED = "model↔code link is differential (exhaustive for widths 12 and 16 in the thorough tier, sampled otherwise)"


def codes(s):
    return [ord(c) for c in s]


def read_back(n, v, reprs):
    """direct check of the four strings (implementation only)"""
    b, ud, h, sd = reprs
    u = v % (1 << n)
    s = u - (1 << n) if u >= (1 << (n - 1)) else u
    errs = []
    try:
        if int(b.replace(" ", ""), 2) != u or len(b.replace(" ", "")) != n:
            errs.append("binary")
        if int(h.replace(" ", ""), 16) != u or len(h.replace(" ", "")) != -(-n // 4):
            errs.append("hex")
        if int(ud) != u or ud != str(u):
            errs.append("udec")
        if int(sd) != s or sd != str(s):
            errs.append("sdec")
        for string, g in ((b, 8), (h, 2)):
            parts = string.split(" ")
            if any(len(p) != g for p in parts[1:]) or not (1 <= len(parts[0]) <= g):
                errs.append("grouping")
    except ValueError:
        errs.append("unparsable")
    return errs


class Format(Slice):
    name = "format"
    promote_disagreement = True

    def exhaustive(self, tier):
        if tier != "thorough":
            return None
        for n in (12, 16):
            for base in range(0, 1 << n, 256):
                yield {"n": n, "vs": list(range(base, base + 256))}

    def gen(self, rng, index, tier):
        r = rng.random()
        if r < 0.3:
            n = 32
        elif r < 0.5:
            n = rng.choice([12, 16])
        else:
            n = rng.randrange(1, 41)
        vs = []
        for _ in range(20):
            k = rng.random()
            if k < 0.4:
                vs.append(rng.choice([0, 1, -1, (1 << (n - 1)) - 1, 1 << (n - 1), (1 << n) - 1, 1 << n, -(1 << (n - 1)), -(1 << n), (1 << n) + 5]))
            elif k < 0.8:
                vs.append(rng.getrandbits(n))
            else:
                vs.append(rng.randrange(-(1 << (n + 3)), 1 << (n + 3)))
        return {"n": n, "vs": vs}

    def run(self, case, model):
        from architecture_simulator.util.integer_representations import get_n_bit_representations
        findings, cl = [], set()
        n = case["n"]
        for v in case["vs"]:
            r = get_n_bit_representations(v, n)
            m = model.call([20, n, v])
            if [codes(x) for x in r] != m:
                findings.append(("disagreement", f"n={n} v={v}: impl {r} != model {[''.join(map(chr, x)) for x in m]}"))
            e = read_back(n, v, r)
            if e:
                findings.append(("violation", f"n={n} v={v}: {r} does not denote the value: {e}"))
            if v % (1 << n):
                cl.add("nonzero")
            if v < 0:
                cl.add("negative")
            if v >= (1 << n):
                cl.add("overwide")
        cl.add("n=%d" % n if n in (12, 16, 32) else "n=other")
        return findings[:3], cl

    def nontrivial(self, classes):
        return "nonzero" in classes

    def required_classes(self, tier):
        return ["n=12", "n=16", "n=32", "n=other", "negative", "overwide"]

    def shrink(self, case):
        for v in case["vs"]:
            yield {"n": case["n"], "vs": [v]}


class RvTables(Slice):
    name = "rv-tables"
    promote_disagreement = True

    def gen(self, rng, index, tier):
        prog = gen_rv.gen_program(rng, maxlen=15, allow_fault=False)
        return {"spec": gen_rv.gen_state_spec(rng, prog), "steps": rng.choice([0, 3, 40])}

    def run(self, case, model):
        from architecture_simulator.simulation.runtime_errors import InstructionExecutionException
        sim = make_sim(case["spec"])
        try:
            for _ in range(case["steps"]):
                if sim.is_done():
                    break
                sim.step()
        except InstructionExecutionException:
            return [], ["faulted"]
        regs = [[codes(x) for x in t] for t in sim.get_register_entries()]
        rows = [[a[0], codes(a[1]), [codes(x) for x in vals]] for a, vals in sim.get_data_memory_entries()]
        m = model.call([21, case["spec"], case["steps"]])
        findings = []
        if regs != m[0]:
            findings.append(("disagreement", "register table differs from the model"))
        if m[1][0] != 0 or rows != m[1][1]:
            findings.append(("disagreement", f"data memory table differs: impl rows {[(r[0]) for r in rows]} model {m[1]!r:.300}"))
        # direct: rows = exactly the aligned words containing a written byte, ascending, true values
        low = lower_memory(sim.state)
        want = sorted({a - a % 4 for a in low.memory_file})
        if [r[0] for r in rows] != want:
            findings.append(("violation", f"memory table rows {[r[0] for r in rows]} != words containing a written byte {want}"))
        for a, vals in sim.get_data_memory_entries():
            word = sum(int(low.memory_file.get(a[0] + i, 0)) << (8 * i) for i in range(4))
            if read_back(32, word, vals) or int(str(a[1]), 16) != a[0]:
                findings.append(("violation", f"row {a} shows {vals} for word {word:#x}"))
        for i, t in enumerate(sim.get_register_entries()):
            if read_back(32, int(sim.state.register_file.registers[i]), t):
                findings.append(("violation", f"register x{i} shows {t}"))
        return findings[:3], (["rows"] if rows else ["norows"])

    def nontrivial(self, classes):
        return "rows" in classes

    def required_classes(self, tier):
        return ["rows"]

    def shrink(self, case):
        for s in gen_rv.shrink_spec(case["spec"]):
            yield {"spec": s, "steps": case["steps"]}


class ToyTables(Slice):
    name = "toy-tables"
    promote_disagreement = True

    def gen(self, rng, index, tier):
        return {"spec": T.gen_toy_image(rng, maxlen=8), "ops": [rng.choice([0, 3]) for _ in range(rng.randrange(1, 12))]}

    def run(self, case, model):
        it = T.impl_toy_trace(case["spec"], case["ops"], getters=True)
        mt = T.norm_model_toy(model.call([10, case["spec"], case["ops"]]), getters=True)
        d = T.compare_toy(it, mt, fields=[13, 14])
        findings = [("disagreement", d)] if d else []
        # direct read-back of the last observation
        last = it[-1][1]
        vals = {"accu": (16, last[1]), "pc": (12, last[0])}
        for k, (n, v) in zip((0, 1), vals.values()):
            strs = ["".join(map(chr, x)) for x in last[13][k]]
            if any(strs) and read_back(n, v, strs):
                findings.append(("violation", f"TOY register repr {strs} does not denote {v}"))
        if last[14][0] == 0:
            memd = dict(map(tuple, last[2]))
            rows = last[14][1]
            if [r[0] for r in rows] != sorted(memd):
                findings.append(("violation", "TOY memory table rows are not exactly the written cells, ascending"))
            for r in rows:
                strs = ["".join(map(chr, x)) for x in r[2]]
                if read_back(16, memd.get(r[0], 0), strs):
                    findings.append(("violation", f"TOY memory row {r[0]} shows {strs} for {memd.get(r[0])}"))
        return findings[:3], ["rows"]

    def required_classes(self, tier):
        return ["rows"]


class TablesHistory(Slice):
    """the tables must show the CURRENT backing store at every point of a load / step / inspect history"""
    name = "tables-history"

    def gen(self, rng, index, tier):
        from props.c13 import gen_text
        ops = []
        for _ in range(rng.choice([1, 2, 3])):
            t, kind = gen_text(rng, rng.choice(["falloff", "exit", "falloff", "empty"]))
            if rng.random() < 0.5 and ".data" not in t:
                t = t + "\nsw x1, 0(x4)" if kind != "empty" else t
            ops.append(["load", t])
            for _ in range(rng.randrange(0, 14)):
                ops.append(rng.choice(["step", "step", "inspect"]))
            ops.append("inspect")
        import gen_rv
        return {"ops": ops, "five": rng.random() < 0.4, "toy": False,
                "dcfg": gen_rv.gen_cache_cfg(rng) if rng.random() < 0.5 else []}

    def run(self, case, model):
        import fixedint
        from architecture_simulator.simulation.riscv_simulation import RiscvSimulation
        import rv_asm as RA
        sim = RiscvSimulation(mode="five_stage_pipeline" if case["five"] else "single_stage_pipeline",
                              data_cache=cache_options(case.get("dcfg") or []))
        sim.state.register_file.registers[4] = fixedint.UInt32(0x4000 + 64)
        findings, cl = [], set()
        if case.get("dcfg"):
            cl.add("wb-cache" if not case["dcfg"][4] else "wt-cache")
        for k, op in enumerate(case["ops"]):
            try:
                if isinstance(op, list):
                    sim.load_program(op[1])
                    cl.add("load")
                elif op == "step":
                    sim.step()
                else:
                    low = lower_memory(sim.state)
                    rows = sim.get_data_memory_entries()
                    want = sorted({a - a % 4 for a in low.memory_file})
                    if [r[0][0] for r in rows] != want:
                        findings.append(("violation", f"op {k}: memory table rows {[r[0][0] for r in rows]} but the backing store holds written words at {want}"))
                        break
                    for a, vals in rows:
                        word = sum(int(low.memory_file.get(a[0] + i, 0)) << (8 * i) for i in range(4))
                        if read_back(32, word, vals):
                            findings.append(("violation", f"op {k}: row {a[0]:#x} shows {vals}, the backing store holds {word:#x}"))
                            break
                    regs = sim.get_register_entries()
                    for i, t in enumerate(regs):
                        if read_back(32, int(sim.state.register_file.registers[i]), t):
                            findings.append(("violation", f"op {k}: register x{i} shows {t}"))
                            break
                    if want:
                        cl.add("rows")
                    cl.add("inspect")
            except Exception as e:
                cl.add("exc")
        return findings[:2], cl

    def nontrivial(self, classes):
        return "rows" in classes

    def required_classes(self, tier):
        return ["rows", "load", "inspect", "wb-cache", "wt-cache"]

    def shrink(self, case):
        ops = case["ops"]
        for i in range(len(ops) - 1, 0, -1):
            yield dict(case, ops=ops[:i] + ops[i + 1:])


def slices():
    return [Format(), RvTables(), ToyTables(), TablesHistory()]


BUDGET = {
    "quick": {"format": 1500, "rv-tables": 300, "toy-tables": 300, "tables-history": 300},
    "thorough": {"format": ("exhaustive", 20000), "rv-tables": 5000, "toy-tables": 5000, "tables-history": 8000},
}


EXTRA_TRUST = globals().get("EXTRA_TRUST", []) + [
    "T2 (this property): the theorems of Props/C17FloatCeil.v (math.ceil(n / g) = exact integer ceiling) depend on the standard-library "
    "axioms ClassicalDedekindReals.sig_forall_dec, ClassicalDedekindReals.sig_not_dec, FunctionalExtensionality."
    "functional_extensionality_dep and Classical_Prop.classic (real numbers; Flocq's `round`); all other theorems are closed"]
