"""C02 — five-stage pipeline with hazard detection is equivalent to single-cycle mode.
Props/C02.v: data-path theorem (the four-phase split agrees with behavior() for every instruction and
operand) and control-path laws of the modelled pipeline; this file ties Model/Pipe.v to pipeline.py /
stages.py cycle by cycle and evaluates the property on the implementation alone (five-stage vs
single-cycle), exhaustively over a hazard-complete alphabet and randomly for longer programs."""
from __future__ import annotations
import itertools
from runner import Slice
from common import MN
import gen_rv
from rv_exec import impl_trace, model_trace, compare_traces, trace_classes, pipe_extra, retired, final_state, view

RULE = ("pipe (model vs implementation, five-stage): random structured programs (<=30 instructions: RAW/WAW at all distances, "
        "loads/stores, forward/backward branches, jal/jalr incl. wrapping targets, printing/exiting/invalid ecalls, faulting "
        "accesses), compared after EVERY cycle: registers, data memory, output, exit code, address in latch W, instruction/branch/"
        "procedure counters, done flag, fault fields. modes (implementation five-stage vs implementation single-cycle): exhaustive "
        "over all sequences up to length 3 (quick) / 4 (thorough) from an 18-instruction hazard-complete alphabet x 2 register presets, "
        "plus random programs up to 40 instructions; compared: final registers, memory, output, exit code, retired-instruction "
        "order and count, branch and call counts, termination; at a fault: address, registers, memory, output. "
        "Non-trivial = at least 3 instructions retired.")
ASSUMPTIONS = ["CSR/FENCE/EBREAK excluded (documented as unimplemented in five-stage mode)"]
MODELLED = "model↔code link is differential (cycle-by-cycle on sampled programs)"

PIPE_NAMES = ["regs", "mem", "out", "exit", "icount", "bcount", "pcount"]


def wlatch(o):
    return o[8][4] if len(o) >= 10 else None


class Pipe(Slice):
    """correspondence of Model/Pipe.v with the implementation, hazard detection on"""
    name = "pipe"
    hazards = True
    names = PIPE_NAMES

    def gen(self, rng, index, tier):
        prog = gen_rv.gen_program(rng, maxlen=12 if rng.random() < 0.6 else 30)
        dc = gen_rv.gen_cache_cfg(rng) if self.with_caches(rng) else []
        ic = gen_rv.gen_cache_cfg(rng) if self.with_caches(rng) else []
        case = {"spec": gen_rv.gen_state_spec(rng, prog, dc, ic), "steps": 600}
        if rng.random() < 0.15:     # a second live simulation (either mode) stepped in between
            case["other"] = [gen_rv.gen_state_spec(rng, gen_rv.gen_program(rng, maxlen=12)),
                             rng.choice(["single_stage_pipeline", "five_stage_pipeline"])]
        return case

    def with_caches(self, rng):
        return False

    def run(self, case, model):
        it = impl_trace(case["spec"], case["steps"], mode="five_stage_pipeline", hazards=self.hazards, extra=pipe_extra,
                        other=case.get("other"))
        mt = model_trace(model, 2, case["spec"], case["steps"], 1 if self.hazards else 0)
        d = compare_traces(it, mt, self.names, fault_names=["regs", "mem", "out"])
        if d is None:
            for k in range(min(len(it), len(mt))):
                if len(it[k]) >= 10 and len(mt[k]) >= 10 and it[k][8][4] != mt[k][8][4]:
                    d = f"step {k}: latch W holds {it[k][8][4]} (impl) vs {mt[k][8][4]} (model)"
                    break
        cl = trace_classes(case["spec"][0], it)
        st, _ = final_state(it)
        if st[5][4]:
            cl.add("stalled")
        if st[5][5]:
            cl.add("flushed")
        if st[5][0] >= 3:
            cl.add("retired>=3")
        return ([("disagreement", d)] if d else []), cl

    def nontrivial(self, classes):
        return "retired>=3" in classes

    def shrink(self, case):
        for s in gen_rv.shrink_spec(case["spec"]):
            yield dict(case, spec=s)

    def describe(self, case):
        return {"program": gen_rv.program_text(case["spec"][0]), "regs": case["spec"][1], "mem": case["spec"][2],
                "dcache": case["spec"][3], "icache": case["spec"][4]}

    def required_classes(self, tier):
        return ["end:done", "end:fault", "stalled", "flushed", "prints", "exit-ecall", "taken-branch", "jal", "op:jalr"]


# hazard-complete alphabet (x1..x3 data, x5 data base, x10/x17 ecall registers)
def alphabet():
    A = MN
    return [
        [A["addi"], 1, 0, 5],           # producer
        [A["add"], 2, 1, 0],            # consumer on rs1
        [A["add"], 2, 0, 1],            # consumer on rs2
        [A["add"], 3, 1, 2],            # consumer on both
        [A["add"], 1, 2, 1],            # self-dependent
        [A["lw"], 1, 5, 0],             # load
        [A["sw"], 5, 1, 0],             # store (data dependent)
        [A["sw"], 1, 2, 0],             # store (address dependent; faults unless x1 is an address)
        [A["beq"], 1, 0, 8],            # forward branch, taken iff x1 == 0
        [A["bne"], 1, 0, 8],            # forward branch, taken iff x1 != 0
        [A["beq"], 0, 0, -4],           # backward branch (always taken)
        [A["jal"], 1, 8, 0],            # jal
        [A["jalr"], 2, 1, 4],           # jalr through x1
        [A["addi"], 17, 0, 1],          # a7 producer (print int)
        [A["addi"], 17, 0, 93],         # a7 producer (exit)
        [A["addi"], 10, 1, 3],          # a0 producer
        [A["ecall"]],
        [A["addi"], 0, 0, 0],           # the canonical nop
    ]


def compare_modes(spec, steps, hazards=True):
    """the property evaluated on the implementation alone; returns (finding or None, classes)"""
    a = impl_trace(spec, steps, mode="single_stage_pipeline")
    b = impl_trace(spec, steps * 8 + 16, mode="five_stage_pipeline", hazards=hazards, extra=pipe_extra)
    sa, ta = final_state(a)
    sb, tb = final_state(b)
    cl = set()
    if ta[0] == 2:
        return None, {"single-bound"}          # single-cycle did not terminate within the bound: no claim
    if ta[0] == 9 or tb[0] == 9:
        return f"foreign exception: {ta if ta[0] == 9 else tb}", cl
    if tb[0] == 2:
        return f"single-cycle terminates after {len(a) - 2} steps but five-stage mode is still running after {steps * 8 + 16} cycles", cl
    if ta[0] != tb[0]:
        return f"single-cycle ends with {'fault' if ta[0] == 1 else 'done'} {ta[1] if ta[0] == 1 else ''}, five-stage with {'fault' if tb[0] == 1 else 'done'} {tb[1] if tb[0] == 1 else ''}", cl
    if ta[0] == 1:
        cl.add("fault")
        if ta[1][0] != tb[1][0]:
            return f"faulting instruction address {ta[1][0]} (single) vs {tb[1][0]} (five-stage)", cl
        names = ["regs", "mem", "out"]
        if view(sa, names) != view(sb, names):
            return "registers/memory/output at the fault differ between the modes", cl
        return None, cl
    cl.add("done")
    names = ["regs", "mem", "out", "exit", "icount", "bcount", "pcount"]
    va, vb = view(sa, names), view(sb, names)
    if va != vb:
        k = next(i for i in range(len(names)) if va[i] != vb[i])
        return f"final {names[k]} differ: single-cycle {str(va[k])[:160]} five-stage {str(vb[k])[:160]}", cl
    # retire order: single-cycle executes at previous pc of each step
    order_a = [a[k][0] for k in range(len(a) - 2)]
    order_b = [x for x, _ in retired(b)]
    if order_a != order_b:
        return f"retire order differs: single-cycle {order_a[:12]} five-stage {order_b[:12]}", cl
    if len(order_a) >= 3:
        cl.add("retired>=3")
    if sb[5][4]:
        cl.add("stalled")
    if sb[5][5]:
        cl.add("flushed")
    return None, cl


class ModesExhaustive(Slice):
    name = "modes-exhaustive"

    def exhaustive(self, tier):
        alpha = alphabet()
        L = 3 if tier == "quick" else 4
        presets = [[[1, 0], [2, 7], [5, 0x4000], [10, 65], [17, 11]],
                   [[1, 0x4000], [2, 3], [3, 9], [5, 0x4004], [10, 0x4000], [17, 93]]]
        for n in range(1, L + 1):
            for seq in itertools.product(range(len(alpha)), repeat=n):
                for pi, regs in enumerate(presets):
                    yield {"spec": [[alpha[i] for i in seq], regs, [[0x4000, 4], [0x4004, 8]], [], []], "steps": 60}

    def gen(self, rng, index, tier):
        return None

    def run(self, case, model):
        d, cl = compare_modes(case["spec"], case["steps"])
        return ([("violation", d)] if d else []), cl

    def nontrivial(self, classes):
        return "retired>=3" in classes

    def shrink(self, case):
        for s in gen_rv.shrink_spec(case["spec"]):
            yield dict(case, spec=s)

    def describe(self, case):
        return {"program": gen_rv.program_text(case["spec"][0]), "regs": case["spec"][1], "mem": case["spec"][2]}

    def required_classes(self, tier):
        return ["done", "fault", "stalled", "flushed"]


class ModesRandom(ModesExhaustive):
    name = "modes-random"

    def exhaustive(self, tier):
        return None

    def gen(self, rng, index, tier):
        prog = gen_rv.gen_program(rng, maxlen=40 if rng.random() < 0.3 else 14, aligned_only=rng.random() < 0.5)
        # the equivalence holds for every configuration: a third of the cases run with data / instruction caches
        spec = gen_rv.gen_state_spec(rng, prog, gen_rv.gen_cache_cfg(rng) if rng.random() < 0.3 else [],
                                     gen_rv.gen_cache_cfg(rng) if rng.random() < 0.2 else [])
        if rng.random() < 0.25:      # jalr whose target wraps around 2^32 (x31 is not written by generated code)
            base = rng.choice([0xFFFFFFFC, 0xFFFFFFF8, 0xFFFFFFFE, 0xFFFFFFF0])
            k = rng.randrange(0, len(prog) + 1)
            tgt = 4 * rng.randrange(0, len(prog) + 2)
            imm = (tgt - base) % (1 << 32)
            if imm < 2048:
                prog.insert(k, [MN["jalr"], rng.choice([0, 1, 2]), 31, imm])
                spec[1] = sorted([rv for rv in spec[1] if rv[0] != 31] + [[31, base]])
        return {"spec": spec, "steps": 400}


def slices():
    return [Pipe(), ModesExhaustive(), ModesRandom()]


BUDGET = {
    "quick": {"pipe": 1200, "modes-exhaustive": "exhaustive", "modes-random": 800},
    "thorough": {"pipe": 30000, "modes-exhaustive": "exhaustive", "modes-random": 30000},
}
