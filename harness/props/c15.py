"""C15 — errors are well-typed: parser errors carry the line, run-time errors the address.
Props/C15.v proves for the assembler models (after tokenisation) that every outcome is a parser error
with the line number of an input line, a memory-size/address error, or success — never an uncaught
exception — and that every run-time fault of the single-cycle and five-stage models carries the address
and instruction of the faulting slot.  pyparsing itself is outside the model: that part of the claim
is carried by the malformed-input streams below."""
from __future__ import annotations
import random
from runner import Slice
import rv_asm as RA, toy_asm as TA, gen_rv
from props import c01, c02
from rv_exec import impl_trace, model_trace, compare_traces, trace_classes, pipe_extra
from common import make_instr

RULE = ("rv-errors / toy-errors: grammar-derived programs with injected lexical and structural faults (leading-zero, empty-prefix, "
        "oversized, non-ASCII digits; unknown labels, variables, directives; duplicated or misplaced segments; odd immediates; "
        "declarations in the text segment and instructions in the data segment), random token soups and byte soups (incl. Unicode "
        "line separators); checked on the implementation: load_program terminates and either succeeds or raises a ParserException "
        "subclass whose line_number is the 1-based number of a line of text.splitlines(), or MemorySizeException / "
        "MemoryAddressError; where the real tokenizer accepts the text the error class and line are also compared with the model. "
        "rt-faults: random faulting programs in both pipeline modes: the exception is InstructionExecutionException whose address and "
        "printed instruction are those of the faulting instruction (compared with the model). Non-trivial = an error was raised.")
ASSUMPTIONS = ["pyparsing raising only ParseException on arbitrary text is established by sampling, not proved"]
MODELLED = "tokenisation is not modelled; post-tokenisation outcomes are proved for the model and compared"

ALLOWED = {"ParserSyntaxException", "ParserLabelException", "ParserOddImmediateException", "DuplicateLabelException",
           "ParserDirectiveException", "ParserDataSyntaxException", "ParserDataDuplicateException", "ParserVariableException"}
SIZE_OK = {"MemorySizeException", "MemoryAddressError"}

LONG = "very_long_label_name_that_goes_on_and_on_and_on_0123456789_abcdefghij"
RV_FAULTS = [LONG + ': .string "abc # never closed', " " * 60 + 'm: .string "a\\" # c', LONG + ": addi x1, x0, 1 ' # q",
             "msg: .string \"Grüße\"", "m2: .string \"日本\"", "b3: .byte 1, 2", "addi x1, x0, 01", "addi x1, x0, 007", "li x1, 0x", "li x1, 0b", "lw x1, -00(x2)", "beq x1, x2, nowhere", "jal x1, nowhere+0x4",
             "beq x1, x2, 3", "jal x1, 7", "la x1, novar", "lw x1, novar[2]", "sw x1, novar, x2", ".data", ".text", ".bss", "x: .word 1",
             "x: .byte 0400, 08", "z: .zero 09", "z: .zero " + "9" * 4400, "li x1, " + "7" * 4400, "addi x1, x0, ٣", "addi x1, x0, １２",
             "add x1, x2", "addi x1, x2, x3", "foo: foo: nop", "loop:", "loop: nop", "ecall 5", "lui x1, -", "s: .string \"abc", "s: .string 'a#b'",
             "csrrw x1, 0x, x2", "csrrwi x1, 01, 2", "lw x32, 0(x1)", "lw x1, 0(x-1)", "a: .word", "b: .half 1,,2", "mv x1", "nop nop",
             "lw x1, v[" + "3" * 4400 + "]", "beq x0, x0, main+0x" + "f" * 300, "jal x0, " + "2" * 4305, "\x0b", " addi x1, x0, 01",
             # literals in bases without a digit limit, long enough for a DERIVED decimal text to pass the limit
             "li x1, 0x" + "f" * 3600, "li x2, -0x" + "7" * 3700, "li x3, 0b" + "10" * 7300, "addi x1, x0, 0x" + "0" * 5000 + "7",
             "w: .word 0x" + "f" * 3600, "lw x1, v[0x" + "1" * 3600 + "]", "la x4, v[0b" + "1" * 14500 + "]"]


def is_parser_exception(e):
    """any subclass of the package's ParserException counts (a NEW subclass is a legitimate parser error, too)"""
    try:
        from architecture_simulator.isa.parser_exceptions import ParserException
        return isinstance(e, ParserException)
    except Exception:
        return False


def check_load_outcome(load, text):
    """returns (finding or None, class)"""
    try:
        load(text)
        return None, "ok"
    except Exception as e:
        n = type(e).__name__
        if n in ALLOWED or is_parser_exception(e):
            nlines = len(text.splitlines())
            ln = getattr(e, "line_number", None)
            if not isinstance(ln, int) or not (1 <= ln <= nlines):
                return f"{n} carries line_number {ln!r}, text has {nlines} lines", "err"
            return None, "err:" + n
        if n in SIZE_OK:
            return None, "err:size"
        return f"load_program raised {n}: {str(e)[:120]}", "err"


LOOKALIKE = {"s": "ſ", "i": "ı", "I": "İ", "k": "K", "K": "K", "S": "ſ", "a": "а", "e": "е", "o": "ο", "x": "х", "l": "ℓ"}


def lookalike(rng, text):
    """replace one ASCII letter by a Unicode character that case-folds to / looks like it"""
    idx = [k for k, c in enumerate(text) if c in LOOKALIKE]
    if not idx:
        return text
    k = rng.choice(idx)
    return text[:k] + LOOKALIKE[text[k]] + text[k + 1:]


def inject(rng, text, faults):
    lines = text.split("\n")
    for _ in range(rng.choice([1, 1, 2])):
        lines.insert(rng.randrange(0, len(lines) + 1), rng.choice(faults))
    text = "\n".join(lines)
    if rng.random() < 0.35:
        text = lookalike(rng, text)
    return text


def soup(rng, vocab):
    seps = ["\n", "\n", "\n", "\r\n", "\x0b", "\x0c", "\x85", " ", "\x1c"]
    out = []
    for _ in range(rng.randrange(1, 8)):
        out.append(" ".join(rng.choice(vocab) for _ in range(rng.randrange(0, 6))))
        out.append(rng.choice(seps))
    return "".join(out)


RV_VOCAB = ["add", "addi", "li", "la", "lw", "sw", "beq", "jal", "jalr", "ecall", "nop", ".data", ".text", "x1", "a0", "x31,", "x0,", "zero,",
            "foo", "foo:", "0x10", "-5", "01", "0b2", "addı", "ſub", "ADDİ", "ſw", "(", ")", "[", "]", "4(x2)", "v[1]", ".word", ".string", "\"s\"", "#", ",", ":", "+0x4",
            "é", "１", "\t", "mv", ".zero", "-", "0x", "LUI", "x1,"]
TOY_VOCAB = ["ſto", "ıNC", "LDA", "STO", "BRZ", "ADD", "NOP", "INC", "lda", ".data", ".text", ".word", "x", "x:", "loop:", "0x10", "12", "0x", "1,", "2", ",",
             ":", "#", "é", "-1", "007", "0xZZ", "y: .word", "NOT 3"]


class RvErrors(Slice):
    name = "rv-errors"
    hang_is_violation = True          # "loading always terminates" is part of the property
    _persistent = None

    def gen(self, rng, index, tier):
        r = rng.random()
        if r < 0.6:
            ap = RA.gen_abs(rng, n_max=8)
            text = inject(rng, RA.render(rng, ap), RV_FAULTS)
        elif r < 0.85:
            text = soup(rng, RV_VOCAB)
        else:
            text = "".join(rng.choice(["\n", " ", "a", "0", "x", ":", ".", ",", "#", "\"", "é", " ", "(", "-", chr(rng.randrange(32, 0x250))])
                           for _ in range(rng.randrange(0, 60)))
        case = {"text": text}
        if rng.random() < 0.3:
            ls = text.split("\n")
            pad = ["addi x1, x0, 1"] * rng.randrange(1, 6)
            case["prev"] = "\n".join(pad + ls)         # the same lines further down in an earlier load
        return case

    def load(self, text):
        from architecture_simulator.simulation.riscv_simulation import RiscvSimulation
        RiscvSimulation().load_program(text)

    def load_persistent(self, text):
        """the web front end loads every edit into ONE simulation object"""
        from architecture_simulator.simulation.riscv_simulation import RiscvSimulation
        if type(self)._persistent is None:
            type(self)._persistent = RiscvSimulation()
        type(self)._persistent.load_program(text)

    def run(self, case, model):
        text = case["text"]
        d, cls = check_load_outcome(self.load, text)
        findings = [("violation", d)] if d else []
        cl = {cls}
        # the same text on a long-lived simulation object that has seen other (failing) loads before
        prev = case.get("prev")
        if prev is not None:
            try:
                self.load_persistent(prev)
            except Exception:
                pass
        d2, cls2 = check_load_outcome(self.load_persistent, text)
        if d2:
            findings.append(("violation", "on a simulation object that loaded other programs before: " + d2))
        elif cls2 != cls:
            findings.append(("violation", f"outcome on a reused simulation object ({cls2}) differs from a fresh one ({cls})"))
        # post-tokenisation comparison with the model
        try:
            tk = self.tokens(text)
        except Exception as e:
            tk = None
            if type(e).__name__ == "ConvertError":
                findings.append(("disagreement", f"token converter met an unknown token shape: {e}"))
        if tk is not None and tk[0] == "ok":
            merr = self.model_outcome(model, tk[1])
            ierr = self.impl_outcome(text)
            if (ierr is None) != (merr is None) or (ierr is not None and ierr[:2] != merr[:2] and not (ierr[0] in (9, 10) and merr[0] in (9, 10))):
                findings.append(("disagreement", f"load outcome: impl {ierr} model {merr}"))
            if merr is not None and merr[0] == 11:
                cl.add("model-uncaught")
        # whole-text comparison with the model's own lexer + assembler (where the model has one): ANY text, also
        # texts the real tokenizer rejects
        tm = self.text_model_outcome(model, text)
        if tm is not NotImplemented:
            ierr = self.impl_outcome(text)
            if (ierr is None) != (tm is None) or (ierr is not None and ierr[:2] != tm[:2] and not (ierr[0] in (9, 10, 11) and tm[0] in (9, 10, 11))):
                findings.append(("disagreement", f"load outcome on the source text: impl {ierr} model lexer+assembler {tm}"))
            cl.add("text-level")
        return findings, cl

    def text_model_outcome(self, model, text):
        r = model.call([94, [], [], [ord(c) for c in text]])      # the whole text; the model splits the lines itself
        return r[0][0] if r[0] else None

    def tokens(self, text):
        return RA.tokens_of(text)

    def model_outcome(self, model, toks):
        r = model.call([60, [], [], toks])
        return r[0][0] if r[0] else None

    def impl_outcome(self, text):
        return RA.impl_load(text)[1]

    def nontrivial(self, classes):
        return any(c.startswith("err") for c in classes)

    def shrink(self, case):
        lines = case["text"].split("\n")
        for i in range(len(lines)):
            yield {"text": "\n".join(lines[:i] + lines[i + 1:])}

    def describe(self, case):
        return {"text": case["text"][:2000]}

    def required_classes(self, tier):
        return ["ok", "err:ParserSyntaxException", "err:ParserLabelException", "err:ParserVariableException",
                "err:ParserDirectiveException", "err:ParserOddImmediateException", "err:DuplicateLabelException"]


class ToyErrors(RvErrors):
    name = "toy-errors"

    def gen(self, rng, index, tier):
        r = rng.random()
        if r < 0.6:
            text, _ = TA.gen_source(rng, malformed=True)
            if rng.random() < 0.35:
                text = lookalike(rng, text)
        elif r < 0.85:
            text = soup(rng, TOY_VOCAB)
        else:
            text = "".join(rng.choice(["\n", " ", "A", "0", "x", ":", ".", ",", "#", "é", " ", chr(rng.randrange(32, 0x250))])
                           for _ in range(rng.randrange(0, 50)))
        return {"text": text, "size": rng.choice([None, None, 8])}

    def run(self, case, model):
        self.size = case.get("size")
        return super().run(case, model)

    def load(self, text):
        from architecture_simulator.simulation.toy_simulation import ToySimulation
        ToySimulation(unified_memory_size=self.size).load_program(text)

    def load_persistent(self, text):
        from architecture_simulator.simulation.toy_simulation import ToySimulation
        key = "_p%s" % self.size
        if getattr(type(self), key, None) is None:
            setattr(type(self), key, ToySimulation(unified_memory_size=self.size))
        getattr(type(self), key).load_program(text)

    def tokens(self, text):
        return TA.tokens_of(text)

    def model_outcome(self, model, toks):
        r = model.call([10, [self.size or 4096, [], 0, 1, [], []], [[5, toks]]])
        o = r[1][0]
        return o[0][0] if o and o[0] else None

    def impl_outcome(self, text):
        from props.c19 import impl_load
        return impl_load(text, self.size)[1]

    def text_model_outcome(self, model, text):
        r = model.call([91, [self.size or 4096, [], 0, 1, [], []], [ord(c) for c in text]])
        return r[0][0] if r[0] else None

    def required_classes(self, tier):
        return ["ok", "err:ParserSyntaxException", "err:ParserLabelException", "err:ParserDirectiveException",
                "err:ParserDataSyntaxException", "err:size"]


class RtFaults(Slice):
    name = "rt-faults"

    def gen(self, rng, index, tier):
        prog = gen_rv.gen_program(rng, maxlen=10)
        # force a fault somewhere: bad address or invalid ecall code
        k = rng.randrange(0, len(prog) + 1)
        r = rng.random()
        if r < 0.35:
            prog.insert(k, [gen_rv.MN[rng.choice(["lw", "sb", "lh"])], rng.choice([1, 2, 3]), 0, rng.choice([0, 4, 100, 2047])])
        elif r < 0.55:
            # a store to an unmapped address through x0 (S-type: base, data, offset), aligned and unaligned
            prog.insert(k, [gen_rv.MN[rng.choice(["sw", "sw", "sh", "sb"])], 0, rng.choice([1, 2, 3]), rng.choice([0, 4, 8, 100, 2044, 2047])])
        else:
            prog[k:k] = [[gen_rv.MN["addi"], 17, 0, rng.choice([0, 3, 5, 99])], [gen_rv.MN["ecall"]]]
        dc = gen_rv.gen_cache_cfg(rng) if rng.random() < 0.45 else []
        return {"spec": gen_rv.gen_state_spec(rng, prog, dc), "mode": rng.choice(["single_stage_pipeline", "five_stage_pipeline"])}

    def run(self, case, model):
        spec, mode = case["spec"], case["mode"]
        five = mode == "five_stage_pipeline"
        it = impl_trace(spec, 600, mode=mode, extra=pipe_extra if five else None)
        mt = model_trace(model, 2 if five else 1, spec, 600, *([1] if five else []))
        f, cl = [], set()
        t = it[-1]
        if t[0] == 9:
            f.append(("violation", f"a foreign exception escaped step(): {t[1]}"))
        elif t[0] == 1:
            cl.add("fault")
            addr, rep, err = t[1]
            # the faulting instruction is the one stored at that address
            try:
                want = repr(make_instr(spec[0][addr // 4])) if addr is not None and 0 <= addr < 4 * len(spec[0]) and addr % 4 == 0 else None
            except Exception:
                want = None
            if want is None or rep != want:
                f.append(("violation", f"fault reports address {addr} / {rep!r}; instruction at that address is {want!r}"))
            if err[0] not in (1, 2, 3):
                f.append(("violation", f"unexpected run-time error kind {err}"))
        d = compare_traces(it[-1:], mt[-1:], ["regs"], fault_names=["regs", "mem", "out"]) if (it[-1][0] == 1 or mt[-1][0] == 1) else None
        if d:
            f.append(("disagreement", "fault record: " + d))
        cl.add("mode:" + mode[:4])
        if spec[3]:
            # with a data cache the SAME instruction must be blamed as without (a cache may only add its own rejection of a
            # word-crossing access, earlier)
            cl.add("dcache")
            flat = impl_trace([spec[0], spec[1], spec[2], [], spec[4]], 600, mode=mode, extra=pipe_extra if five else None)[-1]
            if flat[0] == 1 and flat[1][2][0] in (1, 3) and not (t[0] == 1 and t[1][2][0] == 2):
                if t[0] != 1 or t[1][0] != flat[1][0] or t[1][2][0] != flat[1][2][0]:
                    f.append(("violation", f"without data cache the run faults at address {flat[1][0]} ({flat[1][1]}, error {flat[1][2]}); with the cache "
                                           f"{'it faults at ' + str(t[1][0]) + ' (' + str(t[1][1]) + ', error ' + str(t[1][2]) + ')' if t[0] == 1 else 'no fault is reported'}"))
        return f, cl

    def nontrivial(self, classes):
        return "fault" in classes

    def shrink(self, case):
        for s in gen_rv.shrink_spec(case["spec"]):
            yield dict(case, spec=s)

    def describe(self, case):
        return {"program": gen_rv.program_text(case["spec"][0]), "regs": case["spec"][1], "mode": case["mode"]}

    def required_classes(self, tier):
        return ["fault", "mode:sing", "mode:five", "dcache"]


def slices():
    return [RvErrors(), ToyErrors(), RtFaults()]


BUDGET = {"quick": {"rv-errors": 1500, "toy-errors": 1000, "rt-faults": 400},
          "thorough": {"rv-errors": 60000, "toy-errors": 30000, "rt-faults": 10000}}
