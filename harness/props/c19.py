"""C19 — TOY encoding round-trips and the TOY assembler places code, data and labels.
Props/C19.v proves decode/encode laws for all words and the assembler layout after tokenisation;
this file ties Toy.v to toy_instructions.py (all 2^16 words) and toy_parser.py (generated sources
through the REAL tokenizer, converted fail-closed to the model's token lines)."""
from __future__ import annotations
from runner import Slice
import toy_exec as T
import toy_asm as A

RULE = ("toy-decode: every 16-bit word (exhaustive, in blocks of 256): from_integer(w) fields, int(), repr, opcode/address section "
        "values vs the model, and decode(encode) round trip on the implementation. toy-asm: grammar-generated TOY sources (labels "
        "stand-alone / in-line / at the end, data before or after text or absent, arrays, decimal/hex/leading-zero/over-wide "
        "operands, forward references, random case, blank lines, comments, indentation), 25% with an injected fault; loaded with "
        "ToySimulation.load_program and by the model on the real tokenizer's output; compared: error class and line, or the complete "
        "state. Direct (implementation only): instruction i at address i, variables downward from 4095 in declaration order, "
        "elements ascending, every label operand resolved, max_pc; swapping the segment order gives identical memory. "
        "Non-trivial = at least one instruction and one label or variable reference.")
ASSUMPTIONS = ["pyparsing tokenisation is outside the model; tokens come from the real tokenizer"]
MODELLED = "model↔code link is differential; decode table exhaustive over all 65536 words"


class ToyDecode(Slice):
    name = "toy-decode"
    promote_disagreement = True

    def exhaustive(self, tier):
        for base in range(0, 65536, 256):
            yield {"base": base}

    def gen(self, rng, index, tier):
        return None

    def run(self, case, model):
        from architecture_simulator.isa.toy.toy_instructions import ToyInstruction
        findings, cl = [], set()
        for w in range(case["base"], case["base"] + 256):
            i = ToyInstruction.from_integer(w)
            got = [[i.opcode, i.address], int(i), [ord(c) for c in repr(i)], i.op_code_value(), i.address_section_value()]
            m = model.call([12, w])
            if got != m:
                findings.append(("disagreement", f"word {w:#06x}: impl {got} != model {m}"))
            op = w >> 12
            want_op = op if op <= 11 else 12
            if i.opcode != want_op or i.address != (w & 4095) or ToyInstruction.from_integer(int(i)) != i \
                    or (op <= 12 and int(i) != w) or int(i) >> 12 != want_op:
                findings.append(("violation", f"word {w:#06x} decodes to opcode {i.opcode} address {i.address:#x}, re-encodes to {int(i):#06x}"))
            cl.add("opc:%d" % op)
        return findings[:3], cl

    def required_classes(self, tier):
        return []


def impl_load(text, size=None):
    from architecture_simulator.simulation.toy_simulation import ToySimulation
    sim = ToySimulation(unified_memory_size=size)
    try:
        sim.load_program(text)
        return sim, None
    except Exception as e:
        return sim, A.map_load_exc(e)


def text_load_tie(text, spec, sim, err, model):
    """load_program(text) against the model's lexer + assembler on the SAME TEXT (Model/ToyLex.v toy_load_text, request 91):
    no Python-side token conversion in between"""
    r = model.call([91, spec, [ord(c) for c in text]])
    merr = r[0][0] if r[0] else None
    if err is not None:
        if merr is None or (merr[:2] != err[:2] and not (merr[0] == 11 and err[0] == 11)):
            return [("disagreement", f"load of the source text: impl {err}, model lexer+assembler {merr}")]
        return []
    if merr is not None:
        return [("disagreement", f"model lexer+assembler rejects the text with {merr}, the implementation loads it")]
    d = T.first_diff(T.obs_toy(sim, getters=True), T.norm_model_toy([[[], r[1]]], True)[0][1], "state")
    return [("disagreement", "state after loading the source text (model lexer+assembler): " + d)] if d else []


class ToyLex(Slice):
    """the TOY tokenizer inside the model (Model/ToyLex.v) against the real pyparsing tokenizer: whole texts (line numbers,
    name interning, first error) and every distinct line on its own"""
    name = "toy-lex"
    promote_disagreement = False

    def gen(self, rng, index, tier):
        import toylex_corr as L
        name = ["wf", "mal", "mut", "uni", "rnd"][index % 5]
        return {"stream": name, "text": L.STREAMS[name](rng)}

    def run(self, case, model):
        import toylex_corr as L
        text = case["text"]
        findings, cl = [], {"stream:" + case.get("stream", "corpus")}
        for t in [text] + [ln for ln in dict.fromkeys(text.splitlines()) if ln != text][:12]:
            a = L.impl(t)
            r = model.call([90, [ord(c) for c in t]])
            b = ("ok", r[0][1:]) if r[0][0] == 0 else (("syntax", r[0][1]) if r[0][0] == 1 else ("modelerror", r[0]))
            if not r[1]:
                cl.add("outside-domain")
            if a[0] == "convert":
                cl.add("convert-error")
                if b[0] != "syntax":
                    findings.append(("disagreement", f"real tokenizer output not convertible ({a[1]}) for {t!r}; model lexer says {b[0]}"))
                continue
            cl.add("syntax" if a[0] == "syntax" else ("tokens" if a[1] else "blank"))
            if json_norm(list(a)) != json_norm(list(b)):
                findings.append(("disagreement", f"{t!r}: real tokenizer {str(a)[:200]} model lexer {str(b)[:200]}"))
        return findings[:2], cl

    def nontrivial(self, classes):
        return "tokens" in classes

    def required_classes(self, tier):
        return ["tokens", "syntax", "blank", "stream:wf", "stream:mal", "stream:mut", "stream:uni", "stream:rnd"]

    def shrink(self, case):
        lines = case["text"].splitlines()
        for i in range(len(lines)):
            yield dict(case, text="\n".join(lines[:i] + lines[i + 1:]))


def json_norm(x):
    import json
    return json.loads(json.dumps(x))


class ToyAsm(Slice):
    name = "toy-asm"
    promote_disagreement = True

    def gen(self, rng, index, tier):
        text, meta = A.gen_source(rng, malformed=rng.random() < 0.25)
        return {"text": text, "size": rng.choice([4096, 4096, 4096, 16, 8])}

    def run(self, case, model):
        text, size = case["text"], case["size"]
        sim, err = impl_load(text, size)
        findings, cl = [], set()
        tk = A.tokens_of(text)
        if tk[0] == "syntax":
            cl.add("err:syntax")
            if err != [1, tk[1]]:
                findings.append(("disagreement", f"tokenizer rejects line {tk[1]} but load_program reported {err}"))
            return findings, cl
        spec = [size, [], 0, 1, [], []]
        findings += text_load_tie(text, spec, sim, err, model)
        r = model.call([10, spec, [[5, tk[1]]]])
        (mo, mstate) = r[1]
        merr = mo[0][0] if mo and mo[0] else None
        if err is not None:
            cl.add("err:%d" % err[0])
            if merr is None or (merr[:2] != err[:2] and not (merr[0] == 11 and err[0] == 11)):
                findings.append(("disagreement", f"load error: impl {err} model {merr}"))
            return findings, cl
        cl.add("ok")
        if merr is not None:
            findings.append(("disagreement", f"model rejects with {merr} but the implementation loads the program"))
            return findings, cl
        io = T.obs_toy(sim, getters=True)
        d = T.first_diff(io, T.norm_model_toy([[[], mstate]], True)[0][1], "state")
        if d:
            findings.append(("disagreement", "state after load: " + d))
        # ---- direct checks on the implementation
        toks = tk[1]
        ins = [t for t in toks if t[1] == 2]
        mem = dict(map(tuple, io[2]))
        if io[4] != [len(ins) - 1]:
            findings.append(("violation", f"max_pc {io[4]} != number of instructions - 1 ({len(ins) - 1})"))
        # label addresses = number of instruction lines before the label, over the whole source
        labels, n = {}, 0
        for t in toks:
            if t[1] == 3:
                labels[t[2]] = n
            elif t[1] == 2:
                if t[2]:
                    labels[t[2][0]] = n
                n += 1
        top = size
        for t in toks:
            if t[1] == 1:
                top -= len(t[3])
                labels[t[2]] = top
                for j, v in enumerate(t[3]):
                    s = "".join(map(chr, v))
                    val = int(s[2:], 16) if s.startswith("0x") else int(s)
                    if mem.get(top + j, 0) != val % 65536:
                        findings.append(("violation", f"variable element at {top + j} holds {mem.get(top + j, 0)}, declared {val}"))
        for k, t in enumerate(ins):
            w = mem.get(k, 0)
            if w >> 12 != t[3]:
                findings.append(("violation", f"instruction {k} has opcode {w >> 12}, source says {t[3]}"))
            if t[4]:
                if t[4][0] == 1:
                    want = labels.get(t[4][1])
                    cl.add("label-ref")
                else:
                    s = "".join(map(chr, t[4][1]))
                    want = int(s[2:], 16) if s.startswith("0x") else int(s)
                if want is not None and (w & 4095) != want % 4096:
                    findings.append(("violation", f"instruction {k} addresses {w & 4095:#x}, source denotes {want:#x}"))
        if ins:
            cl.add("has-instr")
        # segment order: data-first vs text-first
        lines = [l for l in text.splitlines()]
        stripped = [l.split("#", 1)[0].strip() for l in lines]
        if ".data" in stripped and ".text" in stripped:
            di, ti = stripped.index(".data"), stripped.index(".text")
            if di < ti:
                swapped = lines[ti:] + lines[di:ti]
                pre = lines[:di]
            else:
                swapped = lines[di:] + lines[ti:di]
                pre = lines[:ti]
            if not any(s for s in [x.split("#", 1)[0].strip() for x in pre]):
                sim2, err2 = impl_load("\n".join(swapped), size)
                cl.add("swapped")
                if err2 is not None or T.obs_toy(sim2, False)[:9] != io[:9]:
                    findings.append(("violation", f"swapping .data/.text order changes the result ({err2})"))
        return findings[:3], cl

    def nontrivial(self, classes):
        return "has-instr" in classes and "label-ref" in classes

    def required_classes(self, tier):
        return ["ok", "has-instr", "label-ref", "swapped", "err:syntax", "err:2"]

    def shrink(self, case):
        lines = case["text"].split("\n")
        for i in range(len(lines)):
            yield dict(case, text="\n".join(lines[:i] + lines[i + 1:]))


TOY_HELP = "/repo/webgui/src/components/toy/ToyHelp.vue"


def toy_help_examples():
    """the example programs of the TOY help page as they stand in /repo (text of the <pre> blocks behind 'Example k:')"""
    import re, html
    try:
        src = open(TOY_HELP, encoding="utf-8").read()
    except OSError:
        return []
    out = []
    for m in re.finditer(r"<h4>Example (\d+):</h4>\s*<pre[^>]*>(.*?)</pre", src, flags=re.S):
        out.append((int(m.group(1)), html.unescape(m.group(2))))
    return out


class ToyHelp(Slice):
    """'the documented example programs compute the documented results': the help page's examples, read from /repo at run time,
    are run on the implementation (whole steps and through run()); what the page says they do is checked: example 1 leaves the
    sum 1..n in 'result' (for the n written in the text), example 2 stores the second entry of my_tuple in my_value"""
    name = "toy-help"

    def exhaustive(self, tier):
        return [{"example": k, "text": t} for k, t in toy_help_examples()]

    def gen(self, rng, index, tier):
        return None

    def run(self, case, model):
        import re
        from architecture_simulator.simulation.toy_simulation import ToySimulation
        text, k = case["text"], case["example"]
        findings, cl = [], {"example:%d" % k}
        sim = ToySimulation()
        try:
            sim.load_program(text)
            sim.run()
        except Exception as e:
            return [("violation", f"help page example {k} does not load and run: {type(e).__name__} {e}")], cl
        mem = {a: int(v) for a, v in sim.state.memory.memory_file.items()}
        if k == 1:
            n = int(re.search(r"n:\s*\.word\s+(\d+)", text).group(1))
            # .data in declaration order at the top of memory: n at 0xFFE?  the layout is C19's own business — find 'result' by value
            want = n * (n + 1) // 2
            if want not in mem.values():
                findings.append(("violation", f"help page example 1 (sum of 1..{n}) leaves no cell with {want}: {sorted(mem.items())[-4:]}"))
        elif k == 2:
            tup = [int(x) for x in re.search(r"my_tuple:\s*\.word\s+([\d ,]+)", text).group(1).replace(" ", "").split(",")]
            # my_value is declared last: it is the LOWEST data address; it must hold the second tuple entry
            data = sorted(a for a in mem if a > 2048)
            if not data or mem[data[0]] != tup[1]:
                findings.append(("violation", f"help page example 2 leaves {mem.get(data[0]) if data else None} in my_value, the second tuple entry is {tup[1]}"))
        # the model's lexer + assembler + machine on the same text
        r = model.call([91, [4096, [], 0, 1, [], []], [ord(c) for c in text]])
        if r[0]:
            findings.append(("disagreement", f"the model's lexer+assembler rejects help page example {k}: {r[0]}"))
        return findings, cl

    def required_classes(self, tier):
        return ["example:1", "example:2"] if len(toy_help_examples()) >= 2 else []


def slices():
    return [ToyDecode(), ToyAsm(), ToyLex(), ToyHelp()]


BUDGET = {"quick": {"toy-decode": "exhaustive", "toy-asm": 1500, "toy-lex": 2500, "toy-help": "exhaustive"},
          "thorough": {"toy-decode": "exhaustive", "toy-asm": 40000, "toy-lex": 60000, "toy-help": "exhaustive"}}
