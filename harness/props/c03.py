"""C03 — the data cache is transparent; cross-word accesses are rejected without effect.
Props/C03.v proves transparency of the modelled cache (Model/Cache.v) for every geometry, policy and
history; this file ties Cache.v to the implementation (full directory, counters, lower memory after
every operation) and evaluates the property directly: cached reads vs a flat reference store, rejected
accesses leave the logical contents unchanged, programs with the cache on vs off."""
from __future__ import annotations
from runner import Slice
import cache_exec as C
import gen_rv
from rv_exec import impl_trace, view

RULE = ("dcache: random access histories (1-60 ops quick, up to 200 thorough) mixing byte/half/word reads and writes, counted and "
        "uncounted reads, parser-style direct preloads, all byte offsets (8% crossing a word), range-edge and wrap-around "
        "addresses, address universes that force conflicts in every set, geometries index_bits 0-3 x block_bits 0-3 x "
        "assoc 1-8, write-back/write-through, LRU/PLRU, penalties 0-10; dcache-small: explicit-state enumeration of all "
        "histories up to a length bound over a 6-address universe on tiny geometries; programs: random aligned programs run with "
        "the cache on and off in both pipeline modes. Non-trivial = some block became resident.")
ASSUMPTIONS = ["block_bits <= 12 so that no block straddles the start of data memory (GUI offers <= 8)"]
MODELLED = "model↔code link is differential; the full block directory, counters and lower memory are compared after every operation"
TAG = "C03"


class DCache(Slice):
    name = "dcache"
    tag = TAG

    def gen(self, rng, index, tier):
        return C.gen_case(rng, small=(tier == "quick"), maxlen=60 if tier == "quick" else 200)

    def run(self, case, model):
        out, cl = C.run_history(case, model)
        return out["corr"] + out[self.tag], cl

    def nontrivial(self, classes):
        return "resident" in classes

    def shrink(self, case):
        return C.shrink(case)

    def describe(self, case):
        return C.describe(case)

    def required_classes(self, tier):
        return ["wb", "wt", "lru", "plru", "read-hit", "read-miss", "write-hit", "write-miss", "cross-word", "uncounted", "direct"]


SMALL_GEOS = [[0, 0, 1, 0], [0, 0, 2, 0], [1, 0, 1, 0], [0, 1, 2, 1]]


class DCacheSmall(Slice):
    """explicit-state enumeration of short histories on tiny geometries"""
    name = "dcache-small"
    tag = TAG

    def exhaustive(self, tier):
        import itertools
        L = 3 if tier == "quick" else 4
        uni = [C.DATA, C.DATA + 4, C.DATA + 8, C.DATA + 1, C.DATA + 6, C.DATA + 3]
        alpha = []
        for a in uni:
            alpha.append([0, 8, a, 1])
            alpha.append([0, 32 if a % 4 == 0 else 16, a, 1])
            alpha.append([1, 8, a, 0xA0 + (a & 15), 0])
            alpha.append([1, 32 if a % 4 == 0 else 16, a, 0xBEEF0000 + a if a % 4 == 0 else 0xC000 + (a & 255), 0])
        for geo in SMALL_GEOS:
            for wt in (0, 1):
                cfg = geo + [wt, 2]
                for n in range(1, L + 1):
                    if n < L:
                        continue      # shorter histories are prefixes of the longer ones
                    for h in itertools.product(range(len(alpha)), repeat=n):
                        yield {"cfg": cfg, "preload": [[C.DATA + 4, 0x11], [C.DATA + 9, 0x22]], "ops": [alpha[i] for i in h]}

    def gen(self, rng, index, tier):
        return None

    def run(self, case, model):
        out, cl = C.run_history(case, model)
        return out["corr"] + out[self.tag], cl

    def shrink(self, case):
        return C.shrink(case)

    def describe(self, case):
        return C.describe(case)


class CachedPrograms(Slice):
    """direct: programs give the same registers/output/exit code with the data cache on as off"""
    name = "programs"

    def gen(self, rng, index, tier):
        prog = gen_rv.gen_program(rng, maxlen=20, aligned_only=True, allow_fault=False)
        spec = gen_rv.gen_state_spec(rng, prog, dcache=gen_rv.gen_cache_cfg(rng))
        return {"spec": spec, "mode": rng.choice(["single_stage_pipeline", "five_stage_pipeline"]), "steps": 300}

    def run(self, case, model):
        spec = case["spec"]
        on = impl_trace(spec, case["steps"], mode=case["mode"])
        off = impl_trace([spec[0], spec[1], spec[2], [], spec[4]], case["steps"], mode=case["mode"])
        names = ["regs", "out", "exit"]
        findings = []
        a, b = on[-1], off[-1]
        if a[0] == 1 and a[1][2][0] == 2:
            # the program performed an access that crosses a word boundary: with the cache it is rejected at that
            # instruction (documented), without it is not; the transparency claim covers in-word accesses only
            return [], {"cross-word-program"}
        if a[0] != b[0]:
            findings.append(("violation", f"run ends differently with cache ({a[:2]}) than without ({b[:2]})"))
        elif a[0] == 1:
            if a[1][0] != b[1][0] or view(a[2], names) != view(b[2], names):
                findings.append(("violation", "fault state differs between cached and uncached run"))
        else:
            if view(on[-2], names) != view(off[-2], names):
                findings.append(("violation", f"final registers/output/exit differ with cache on vs off (steps {len(on)} vs {len(off)})"))
            elif len(on) != len(off):
                # (the number of step() calls is not part of C03; the model says they are equal)
                findings.append(("disagreement", f"number of steps differs with cache on vs off ({len(on)} vs {len(off)})"))
        cl = {"mode:" + case["mode"][:4]}
        if len(on) > 3:
            cl.add("ran")
        return findings, cl

    def nontrivial(self, classes):
        return "ran" in classes

    def shrink(self, case):
        for s in gen_rv.shrink_spec(case["spec"]):
            if s[3]:
                yield dict(case, spec=s)

    def describe(self, case):
        return {"program": gen_rv.program_text(case["spec"][0]), "regs": case["spec"][1], "mem": case["spec"][2],
                "dcache": case["spec"][3], "mode": case["mode"]}

    def required_classes(self, tier):
        return ["mode:sing", "mode:five", "ran"]


def slices():
    return [DCache(), DCacheSmall(), CachedPrograms()]


BUDGET = {
    "quick": {"dcache": 1500, "dcache-small": 0, "programs": 300},
    "thorough": {"dcache": 40000, "dcache-small": "exhaustive", "programs": 8000},
}
