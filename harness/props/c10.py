"""C10 — replacement policies.  Props/C10.v proves the model's LRU/PLRU against history-indexed and
tree specifications for every associativity and history; this file ties the model to
replacement_strategies.py by exhaustive reachable-state exploration (small associativities) and random
histories (large ones), and checks the property directly on the implementation objects."""
from __future__ import annotations
from runner import Slice

RULE = ("policy-exhaustive: breadth-first exploration of every reachable policy state of the implementation objects "
        "(LRU assoc<=5, PLRU assoc<=8 quick; LRU<=7, PLRU<=16 thorough) and every access from each state; each case is "
        "the shortest access history reaching the state plus one access; compared after every access: get_next_to_replace, "
        "get_repr; plus direct checks on the implementation: victim = least recently used / tree walk, access idempotent. "
        "policy-random: random histories for associativities up to 64. Non-trivial = history of length >= 2.")
ASSUMPTIONS = ["accesses are in range 0..assoc-1 (the cache never issues others)"]
MODELLED = "model↔code link is differential: exhaustive over reachable states for small associativities, sampled above"


def impl_policy(plru, assoc):
    from architecture_simulator.uarch.memory.replacement_strategies import LRU, PLRU
    return PLRU(assoc) if plru else LRU(assoc)


def obs(p):
    return [p.get_next_to_replace(), [int(x) for x in p.get_repr()]]


def ref_lru_victim(assoc, hist):
    last = {}
    for t, i in enumerate(hist):
        last[i] = t
    never = [i for i in range(assoc) if i not in last]
    if never:
        return never[0]
    return min(range(assoc), key=lambda i: last[i])


def ref_plru(assoc, hist):
    """inductive-tree PLRU: returns victim"""
    import math
    d = int(math.log2(assoc))
    bits = {}          # node path (tuple of 0/1) -> bit
    for k in hist:
        path = [(k >> (d - 1 - j)) & 1 for j in range(d)]
        for j in range(d):
            bits[tuple(path[:j])] = (path[j] == 0)     # went left -> point right (True)
    node = ()
    for _ in range(d):
        node = node + ((1,) if bits.get(node, False) else (0,))
    v = 0
    for b in node:
        v = 2 * v + b
    return v


def run_history(case, model):
    plru, assoc, hist = case["plru"], case["assoc"], case["hist"]
    p = impl_policy(plru, assoc)
    it = [obs(p)]
    findings = []
    for n, i in enumerate(hist):
        p.access(i)
        o = obs(p)
        it.append(o)
        # direct: idempotence on the implementation
        p.access(i)
        if obs(p) != o:
            findings.append(("violation", f"access({i}) twice changed the policy state after history {hist[:n+1]}"))
        # direct: victim against the reference definition
        ref = ref_plru(assoc, hist[:n + 1]) if plru else ref_lru_victim(assoc, hist[:n + 1])
        if o[0] != ref:
            findings.append(("violation", f"victim {o[0]} != reference {ref} after history {hist[:n+1]}"))
        if not plru:
            # ages consistent with recency: repr[i] < repr[j] iff i before j in LRU order
            order = sorted(range(assoc), key=lambda b: o[1][b])
            lastacc = {}
            for t, b in enumerate(hist[:n + 1]):
                lastacc[b] = t
            keyf = lambda b: (1, lastacc[b]) if b in lastacc else (0, b)
            if order != sorted(range(assoc), key=keyf) or sorted(o[1]) != list(range(assoc)):
                findings.append(("violation", f"LRU ages {o[1]} inconsistent with recency after {hist[:n+1]}"))
    mt = model.call([40, 1 if plru else 0, assoc, hist])
    mt = [[a, list(b)] for a, b in mt]
    if it != mt:
        k = next(j for j in range(min(len(it), len(mt))) if it[j] != mt[j]) if len(it) == len(mt) else -1
        findings.append(("disagreement", f"after access #{k}: impl {it[k] if k >= 0 else it} != model {mt[k] if k >= 0 else mt}"))
    cl = ["plru" if plru else "lru", "assoc:%d" % assoc]
    if len(hist) >= 2:
        cl.append("len>=2")
    return findings, cl


class PolicyExhaustive(Slice):
    name = "policy-exhaustive"
    promote_disagreement = True

    def exhaustive(self, tier):
        lru_max, plru_max = (5, 8) if tier == "quick" else (7, 16)
        for plru, assocs in ((False, range(1, lru_max + 1)), (True, [a for a in (1, 2, 4, 8, 16) if a <= plru_max])):
            for assoc in assocs:
                # BFS over implementation states
                p0 = impl_policy(plru, assoc)
                key = lambda p: tuple(int(x) for x in (p.tree_array if plru else p.lru))
                seen = {key(p0): []}
                frontier = [[]]
                while frontier:
                    nxt = []
                    for h in frontier:
                        for i in range(assoc):
                            p = impl_policy(plru, assoc)
                            for x in h:
                                p.access(x)
                            p.access(i)
                            yield {"plru": plru, "assoc": assoc, "hist": h + [i]}
                            k = key(p)
                            if k not in seen:
                                seen[k] = h + [i]
                                nxt.append(h + [i])
                    frontier = nxt

    def gen(self, rng, index, tier):
        return None

    def run(self, case, model):
        return run_history(case, model)

    def nontrivial(self, classes):
        return "len>=2" in classes

    def required_classes(self, tier):
        return ["lru", "plru", "assoc:4", "len>=2"]

    def shrink(self, case):
        h = case["hist"]
        for i in range(len(h)):
            yield dict(case, hist=h[:i] + h[i + 1:])


class PolicyRandom(Slice):
    name = "policy-random"
    promote_disagreement = True

    def gen(self, rng, index, tier):
        plru = rng.random() < 0.5
        assoc = rng.choice([1, 2, 4, 8, 16, 32, 64]) if plru else rng.choice([1, 2, 3, 5, 6, 7, 9, 12, 17, 33, 64])
        n = rng.randrange(1, 80)
        hot = [rng.randrange(assoc) for _ in range(3)]
        hist = [rng.choice(hot) if rng.random() < 0.4 else rng.randrange(assoc) for _ in range(n)]
        return {"plru": plru, "assoc": assoc, "hist": hist}

    def run(self, case, model):
        return run_history(case, model)

    def nontrivial(self, classes):
        return "len>=2" in classes

    def required_classes(self, tier):
        return ["lru", "plru", "len>=2"]

    def shrink(self, case):
        h = case["hist"]
        for i in range(len(h)):
            yield dict(case, hist=h[:i] + h[i + 1:])


class PolicyInCache(Slice):
    """the policy as the cache sets use it: which block a fill displaces, per set, must follow THAT
    set's own access history (reads through a multi-set data cache and through the generic Cache)"""
    name = "policy-in-cache"
    promote_disagreement = True

    def gen(self, rng, index, tier):
        import cache_exec as C
        ib = rng.choice([1, 1, 2, 3])
        bb = rng.choice([0, 0, 1])
        plru = rng.random() < 0.5
        assoc = rng.choice([2, 4, 8]) if plru else rng.choice([2, 3, 4, 5])
        cfg = [ib, bb, assoc, 1 if plru else 0, rng.choice([0, 1]), 0]
        stride = (1 << ib) * (1 << bb) * 4
        ops = []
        for _ in range(rng.randrange(4, 60)):
            st = rng.randrange(1 << ib)
            tag = rng.randrange(assoc + 2)
            a = C.DATA + tag * stride + st * (1 << bb) * 4
            ops.append([0, 32, a, 1] if rng.random() < 0.8 else [1, 32, a, rng.getrandbits(32), 0])
        if rng.random() < 0.3:
            # reset() in mid-history: every set starts again from the initial policy state
            ops.insert(rng.randrange(1, len(ops) + 1), [2])
        return {"cfg": cfg, "preload": [], "ops": ops}

    def run(self, case, model):
        import cache_exec as C
        cfg, ops = case["cfg"], case["ops"]
        ms, mem, pm = C.make_dcache(cfg, [])
        nsets = 1 << cfg[0]
        hist = [[] for _ in range(nsets)]            # per-set access history of way indices
        tags = [[None] * cfg[2] for _ in range(nsets)]
        findings, cl = [], {"plru" if cfg[3] else "lru", "sets:%d" % nsets}
        for k, op in enumerate(ops):
            if op[0] == 2:
                C.apply_op(ms, op)
                hist = [[] for _ in range(nsets)]
                tags = [[None] * cfg[2] for _ in range(nsets)]
                if k + 1 < len(ops):
                    cl.add("reset")
                for j, cs in enumerate(ms.cache.sets):
                    want_v = ref_plru(cfg[2], []) if cfg[3] else ref_lru_victim(cfg[2], [])
                    if cs.replacement_strategy.get_next_to_replace() != want_v or any(b.valid_bit for b in cs.blocks):
                        findings.append(("violation", f"op {k}: after reset() set {j} is not in the initial state (would replace way {cs.replacement_strategy.get_next_to_replace()}, valid bits {[b.valid_bit for b in cs.blocks]})"))
                        break
                if findings:
                    break
                continue
            full = op[2] % 2 ** 32
            tag = full >> (cfg[0] + cfg[1] + 2)
            st = (full >> (cfg[1] + 2)) & (nsets - 1)
            allocate = op[0] == 0 or not cfg[4]
            if tag in tags[st]:
                hist[st].append(tags[st].index(tag))
            elif allocate:
                v = ref_plru(cfg[2], hist[st]) if cfg[3] else ref_lru_victim(cfg[2], hist[st])
                if tags[st][v] is not None:
                    cl.add("eviction")
                tags[st][v] = tag
                hist[st].append(v)
            C.apply_op(ms, op)
            for j, cs in enumerate(ms.cache.sets):
                got = [b.decoded_address.tag if b.valid_bit else None for b in cs.blocks]
                if got != tags[j]:
                    findings.append(("violation", f"op {k} {op}: set {j} holds tags {got}, the policy applied to this set's own history gives {tags[j]}"))
                    break
                want_v = ref_plru(cfg[2], hist[j]) if cfg[3] else ref_lru_victim(cfg[2], hist[j])
                if cs.replacement_strategy.get_next_to_replace() != want_v:
                    findings.append(("violation", f"op {k}: set {j} would replace way {cs.replacement_strategy.get_next_to_replace()}, its own history says {want_v}"))
                    break
            if findings:
                break
        if not findings:
            mt = model.call([50, cfg, [], ops])
            if mt and C.directory(ms)[0] != [[ [list(b) if isinstance(b, list) else b for b in blocks], list(rep)] for blocks, rep in mt[-1][2][0]]:
                d = C.first_diff(C.directory(ms)[0], mt[-1][2][0], "directory")
                findings.append(("disagreement", f"final directory differs from the model: {d}"))
        if len({(o[2] >> (cfg[1] + 2)) & (nsets - 1) for o in ops if o[0] != 2}) > 1:
            cl.add("multi-set")
        return findings[:2], cl

    def nontrivial(self, classes):
        return "eviction" in classes and "multi-set" in classes

    def required_classes(self, tier):
        return ["lru", "plru", "eviction", "multi-set", "reset"]

    def shrink(self, case):
        ops = case["ops"]
        for i in range(len(ops) - 1, -1, -1):
            yield dict(case, ops=ops[:i] + ops[i + 1:])


def slices():
    return [PolicyExhaustive(), PolicyRandom(), PolicyInCache()]


BUDGET = {
    "quick": {"policy-exhaustive": "exhaustive", "policy-random": 1500, "policy-in-cache": 600},
    "thorough": {"policy-exhaustive": "exhaustive", "policy-random": 30000, "policy-in-cache": 20000},
}
