"""C06 — TOY execution = reference accumulator machine (self-modification, pc wrap, opcode aliasing).
Correspondence slices for Model/Toy.v; Props/C06.v relates Toy.v to Spec/ToyRef.v."""
from __future__ import annotations
from runner import Slice
import toy_exec as T

RULE = ("toy-word: one whole step from a state whose instruction register holds word w (every 16-bit word in the thorough tier, "
        "a stride sample in quick) x boundary accumulator x boundary operand cell; toy-prog: random self-modifying memory images "
        "(stores into own/next/previous code cells, BRZ past the end, pc wrap at 4095, words with opcodes 13-15), stepped to "
        "completion or 300 steps, compared after every instruction. Non-trivial = at least 3 instructions executed or a "
        "store/branch taken; distinct = distinct canonical inputs.")
ASSUMPTIONS = ["TOY memory of the default size 4096 for the reference comparison; smaller memories are exercised for error paths only"]
MODELLED = "model↔code link is differential (sampled / exhaustive over instruction words in the thorough tier)"

CORE = [0, 1, 2, 3, 4, 8, 11]     # pc, accu, memory, loaded instruction, max_pc, counters, done (markers, visualisation values,
                                  # next_cycle and has_started are C20's business)


class ToyWord(Slice):
    name = "toy-word"
    promote_disagreement = True

    def _case(self, w, accu, cell, pc):
        addr = w & 4095
        mem = {addr: cell, pc: 0x1234}
        return {"spec": [4096, sorted([a, v] for a, v in mem.items()), accu, pc, [w], [4095]], "ops": [0]}

    def gen(self, rng, index, tier):
        w = (index * 16 + rng.randrange(16)) & 0xFFFF if tier == "quick" else index & 0xFFFF
        return self._case(w, T.rnd16(rng), T.rnd16(rng), rng.choice([1, 2, 4095, 0, (w & 4095), rng.randrange(4096)]))

    def run(self, case, model):
        it = T.impl_toy_trace(case["spec"], case["ops"], getters=False)
        mt = T.norm_model_toy(model.call([10, case["spec"], case["ops"]]), getters=False)
        d = T.compare_toy(it, mt, fields=CORE)
        w = case["spec"][4][0]
        return ([("disagreement", d)] if d else []), ["opc:%d" % (w >> 12)]

    def required_classes(self, tier):
        return ["opc:%d" % k for k in range(16)]


class ToyProg(Slice):
    name = "toy-prog"
    promote_disagreement = True

    def gen(self, rng, index, tier):
        spec = T.gen_toy_image(rng)
        case = {"spec": spec, "ops": [0] * rng.choice([5, 20, 60, 300])}
        if rng.random() < 0.2:
            case["other"] = T.gen_toy_image(rng)      # a second live simulation stepped in between
        return case

    def run(self, case, model):
        it = T.impl_toy_trace(case["spec"], case["ops"], getters=False, other=case.get("other"))
        mt = T.norm_model_toy(model.call([10, case["spec"], case["ops"]]), getters=False)
        d = T.compare_toy(it, mt, fields=CORE)
        last = it[-1][1]
        cl = set()
        if last[8][0] >= 3:
            cl.add("steps>=3")
        if last[8][2] > 0:
            cl.add("branch-taken")
        if last[11]:
            cl.add("done")
        else:
            cl.add("bound")
        prog_cells = {a for a, _ in case["spec"][1] if a <= case["spec"][5][0]}
        init = dict(map(tuple, case["spec"][1]))
        if any(dict(map(tuple, last[2])).get(a) != init.get(a) for a in prog_cells):
            cl.add("self-modified")
        return ([("disagreement", d)] if d else []), cl

    def nontrivial(self, classes):
        return "steps>=3" in classes or "branch-taken" in classes

    def shrink(self, case):
        spec, ops = case["spec"], case["ops"]
        for n in (len(ops) // 2, len(ops) - 1):
            if 0 < n < len(ops):
                yield {"spec": spec, "ops": ops[:n]}
        mem = spec[1]
        for i in range(len(mem)):
            if mem[i][0] != 0:
                yield {"spec": [spec[0], mem[:i] + mem[i + 1:]] + spec[2:], "ops": ops}

    def required_classes(self, tier):
        return ["steps>=3", "branch-taken", "done", "self-modified"]


def slices():
    return [ToyWord(), ToyProg()]


BUDGET = {
    "quick": {"toy-word": 4096, "toy-prog": 1500},
    "thorough": {"toy-word": 65536 * 3, "toy-prog": 40000},
}
