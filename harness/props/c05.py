"""C05 — assembler data segment: layout, initial values, name[i] addressing, li constants.
Props/C05.v proves layout, element addressing and li/la correctness for the assembler model; this file
ties the model to riscv_parser.py and checks the documented layout and the effect of li/la/load-by-name
by EXECUTING the assembled programs on the implementation."""
from __future__ import annotations
import random
from runner import Slice
import rv_asm as RA
from props import c04
from common import lower_memory

RULE = ("rvasm-data: generated programs with data segments (byte/half/word/string/zero declarations, 1-5 elements, negative and "
        "over-wide literals, both segment orders); compared with the model (instructions, printed forms, every byte of lower memory) "
        "and with the documented layout computed independently (declaration order from 0x4000, 4-byte alignment, strides 1/2/4, "
        "little endian, strings + NUL, .zero n = n words). name-index: for every variable and every element index the program "
        "'la x5, name[i]' (+ a load of the element) is executed; x5 must be base + i*element size and the loaded value the declared "
        "one. li-sweep: 'li x7, c' executed for every low-12-bit pattern crossed with boundary high parts (thorough: all 4096 x 24; "
        "quick: a stride sample) plus random and over-wide/negative constants; x7 must equal c mod 2^32. help-example: the help "
        "page's program gives x4 = 999, x5 = 7, x6 = '!'. Non-trivial = constant outside the 12-bit range / data segment present.")
ASSUMPTIONS = c04.ASSUMPTIONS
MODELLED = c04.MODELLED

HIGH = [0, 1, 0x7FF, 0x800, 0x7FFFF, 0x80000, 0xFFFFE, 0xFFFFF, 0xFFFFD, 0x12345, 0x00010, 0xABCDE, 2, 0x40000, 0xC0000, 0x7FFFE,
        0x80001, 0x0FFFF, 0xF0000, 0x55555, 0xAAAAA, 0x00FFF, 0xFF000, 0x33333]


class RvAsmData(c04.RvAsm):
    name = "rvasm-data"
    tag = "C05"

    def nontrivial(self, classes):
        return "data" in classes

    def required_classes(self, tier):
        return ["ok", "data", "pseudo"]


DIRTY = ("li x5, 0x4000\nli x6, 0x55\nsw x6, 0(x5)\nsw x6, 4(x5)\nsw x6, 64(x5)\nsb x6, 9(x5)\nsw x6, 128(x5)\nsw x6, 12(x5)\nlw x7, 256(x5)\n"
         ".data\nold: .word 6, 6, 6, 6, 6, 6, 6, 6")


def run_program(text, steps=200, used=None):
    """used = a data-cache configuration: the program is loaded into a simulation that has already RUN another program (which
    left modified blocks in that cache) — the variables must have their declared values all the same"""
    from architecture_simulator.simulation.riscv_simulation import RiscvSimulation
    if used is not None:
        from common import cache_options
        sim = RiscvSimulation(data_cache=cache_options(used))
        sim.load_program(DIRTY)
        sim.run()
        sim.state.program_counter = 0
    else:
        sim = RiscvSimulation()
    sim.load_program(text)
    n = 0
    while not sim.is_done() and n < steps:
        sim.step()
        n += 1
    return sim


class LiSweep(Slice):
    name = "li-sweep"

    def exhaustive(self, tier):
        if tier != "thorough":
            return None
        for hi in HIGH:
            for lo0 in range(0, 4096, 64):
                yield {"cs": [(hi << 12) | lo for lo in range(lo0, lo0 + 64)]}

    def gen(self, rng, index, tier):
        cs = []
        for _ in range(24):
            r = rng.random()
            if r < 0.5:
                cs.append((rng.choice(HIGH) << 12) | rng.choice([0, 1, 0x7FF, 0x800, 0x801, 0xFFF, 0xFFE, rng.randrange(4096)]))
            elif r < 0.7:
                cs.append(rng.getrandbits(32))
            elif r < 0.85:
                cs.append(-rng.getrandbits(rng.choice([5, 12, 13, 31, 32])))
            else:
                cs.append(rng.getrandbits(34))
        return {"cs": cs}

    def run(self, case, model):
        findings, cl = [], set()
        rng = random.Random(len(case["cs"]))
        text = "\n".join(f"li x{7 + (k % 8)}, {RA._spell_num(rng, c)}" for k, c in enumerate(case["cs"]))
        # sequentially dependent registers are avoided: check after the whole run, last writer wins
        sim = run_program(text, steps=4 * len(case["cs"]) + 4)
        regs = [int(r) for r in sim.state.register_file.registers]
        last = {}
        for k, c in enumerate(case["cs"]):
            last[7 + (k % 8)] = c
        for r, c in last.items():
            if regs[r] != c % (1 << 32):
                findings.append(("violation", f"li x{r}, {c} leaves {regs[r]:#x}, expected {c % (1 << 32):#x}"))
        # every constant individually (registers reused): run in groups of 8
        for g in range(0, len(case["cs"]), 8):
            grp = case["cs"][g:g + 8]
            t = "\n".join(f"li x{7 + k}, {c}" for k, c in enumerate(grp))
            s2 = run_program(t, steps=40)
            for k, c in enumerate(grp):
                v = int(s2.state.register_file.registers[7 + k])
                if v != c % (1 << 32):
                    findings.append(("violation", f"li x{7 + k}, {c} leaves {v:#x}, expected {c % (1 << 32):#x}"))
                cl.add("wide" if not (-2048 <= c <= 2047) else "narrow")
                if c < 0:
                    cl.add("negative")
                if c >= (1 << 32):
                    cl.add("overwide")
        tk = RA.tokens_of(text)
        if tk[0] == "ok":
            r = model.call([60, [], [], tk[1]])
            if r[0] or [[list(a), list(b)] for a, b in r[1][0][0]] != RA.listing(sim):
                findings.append(("disagreement", "li expansion differs from the model"))
        return findings[:3], cl

    def nontrivial(self, classes):
        return "wide" in classes

    def shrink(self, case):
        for c in case["cs"]:
            yield {"cs": [c]}

    def required_classes(self, tier):
        return ["wide", "narrow", "negative", "overwide"]


class NameIndex(Slice):
    name = "name-index"
    case_timeout = 60

    def gen(self, rng, index, tier):
        return {"seed": rng.getrandbits(48)}

    def run(self, case, model):
        rng = random.Random(case["seed"])
        ap = RA.gen_abs(rng, n_max=2)
        while not ap.data:
            ap = RA.gen_abs(rng, n_max=2)
        ap.items = []
        if rng.random() < 0.2:
            # a LONG variable: element offsets cross the 12-bit immediate boundaries (2047/2048, 4095/4096)
            kind = rng.choice(["byte", "half", "word", "zero"])
            esz = {"byte": 1, "half": 2, "word": 4, "zero": 4}[kind]
            nel_big = (rng.choice([2049, 2100, 4097, 4200]) + esz - 1) // esz + rng.randrange(0, 3)
            lim = {"byte": 256, "half": 65536, "word": 2 ** 32}.get(kind, 0)
            payload = nel_big * esz if kind == "zero" else [(7 * i + 3) % lim for i in range(nel_big)]
            ap.data.insert(rng.randrange(0, len(ap.data) + 1), ("big_" + kind, kind, payload))
        table, mem = RA.ref_layout(ap)
        findings, cl = [], set()
        order = rng.choice(["data-first", "text-first"])
        used = None
        if rng.random() < 0.3:
            used = [rng.choice([0, 0, 1]), rng.choice([0, 1, 2]), rng.choice([1, 1, 2]), False, rng.random() < 0.25, 0]    # tiny, mostly write-back
            cl.add("used-simulation")
        for name, kind, payload in ap.data:
            nel = len(payload) if kind in ("byte", "half", "word") else (len(payload) + 1 if kind == "string" else payload)
            base, size = table[name]
            idxs = list(range(nel))
            if nel > 40:
                marks = {0, 1, nel - 1, nel - 2}
                for boff in (2047, 2048, 2049, 4095, 4096, 4097):
                    for d in (-1, 0, 1):
                        marks.add(boff // size + d)
                idxs = sorted(i for i in marks if 0 <= i < nel)
                idxs = sorted(rng.sample(idxs, min(6, len(idxs)))) + [rng.randrange(nel) for _ in range(2)]
                cl.add("long")
            for idx in [None] + idxs:
                ld = {"byte": "lbu", "half": "lhu", "word": "lw", "string": "lbu", "zero": "lw"}[kind]
                ref = name + ("" if idx is None else f"[{idx}]")
                body = [f"la x5, {ref}", f"{ld} x6, {ref}", f"li x8, 77", f"s{'b' if size == 1 else ('h' if size == 2 else 'w')} x8, {ref}, x9", f"{ld} x10, {ref}"]
                ap.order = order
                data_txt = RA.render(random.Random(1), ap, noise=False).split("\n")
                di = data_txt.index(".data")
                data_lines = data_txt[di:] if order == "text-first" else data_txt[:data_txt.index(".text")]
                text = "\n".join(data_lines + [".text"] + body) if order == "data-first" else "\n".join([".text"] + body + data_lines)
                try:
                    sim = run_program(text, 60, used=used)
                except Exception as e:
                    findings.append(("violation", f"{ref}: program rejected or faulted: {type(e).__name__} {e}" + (f" (on a simulation used before, data cache {used})" if used else "")))
                    continue
                regs = [int(r) for r in sim.state.register_file.registers]
                want_addr = base + size * (idx or 0)
                want_val = sum(mem.get(want_addr + k, 0) << (8 * k) for k in range(size))
                if kind == "zero":
                    want_val = 0
                if nel == 0:
                    want_val = regs[6]          # an empty reservation has no element of its own
                if regs[5] != want_addr:
                    findings.append(("violation", f"la x5, {ref} gives {regs[5]:#x}, element address is {want_addr:#x} ({kind})"))
                elif regs[6] != want_val:
                    findings.append(("violation", f"load of {ref} gives {regs[6]:#x}, declared value {want_val:#x}"))
                elif regs[10] != 77:
                    findings.append(("violation", f"store to {ref} then load gives {regs[10]} (stored 77)"))
                else:
                    # ... and every OTHER declared byte still has its declared value (read through the memory system)
                    stored = set(range(want_addr, want_addr + size))
                    probe = sorted(mem) if len(mem) <= 96 else sorted(rng.sample(sorted(mem), 96))
                    for a in probe:
                        if a in stored:
                            continue
                        got = int(sim.state.memory.read_byte(a, False))
                        if got != mem[a]:
                            findings.append(("violation", f"after running the accesses to {ref}, byte {a:#x} reads {got:#x}, declared {mem[a]:#x}"
                                             + (f" (simulation used before, data cache {used})" if used else "")))
                            break
                cl.add("kind:" + kind)
                if idx:
                    cl.add("indexed")
        return findings[:3], cl

    def nontrivial(self, classes):
        return "indexed" in classes

    def required_classes(self, tier):
        return ["kind:byte", "kind:half", "kind:word", "kind:string", "kind:zero", "indexed", "long", "used-simulation"]


HELP_FILE = "/repo/webgui/src/components/riscv/RiscvHelp.vue"


def help_example():
    """the data-segment example of the help page as it stands in /repo, with the values its comments
    document: returns (source text, {register: value})"""
    import re, html
    src = open(HELP_FILE, encoding="utf-8").read()
    for m in re.finditer(r"<pre[^>]*>(.*?)</pre", src, flags=re.S):
        body = html.unescape(m.group(1))
        if ".data" in body and ".text" in body and "la x1" in body:
            want = {}
            for line in body.splitlines():
                c = re.search(r"#\s*x(\d+)\s*=\s*('(.)'|0b[01]+|0x[0-9a-fA-F]+|\d+)\s*$", line)
                if c:
                    v = c.group(2)
                    want[int(c.group(1))] = ord(c.group(3)) if v.startswith("'") else int(v, 0)
            return body.strip("\n"), want
    raise RuntimeError("help page example not found in " + HELP_FILE)


class HelpExample(Slice):
    name = "help-example"

    def exhaustive(self, tier):
        yield {"from": HELP_FILE}

    def gen(self, rng, index, tier):
        return None

    def run(self, case, model):
        text, want = help_example()
        case = {"text": text}
        sim = run_program(text, 100)
        regs = [int(r) for r in sim.state.register_file.registers]
        f = []
        if len(want) < 3:
            f.append(("violation", f"help page example documents only {want}"))
        for r, v in want.items():
            if regs[r] != v:
                f.append(("violation", f"help page example: x{r} = {regs[r]:#x}, documented {v:#x}"))
        tk = RA.tokens_of(case["text"])
        r = model.call([60, [], [], tk[1]])
        if r[0] or [[list(a), list(b)] for a, b in r[1][0][0]] != RA.listing(sim) or r[2] != RA.lower_bytes(sim):
            f.append(("disagreement", "help page example assembles differently in the model"))
        return f, ["help"]


def slices():
    return [RvAsmData(), LiSweep(), NameIndex(), HelpExample()]


BUDGET = {"quick": {"rvasm-data": 600, "li-sweep": 120, "name-index": 60, "help-example": "exhaustive"},
          "thorough": {"rvasm-data": 20000, "li-sweep": ("exhaustive", 2000), "name-index": 3000, "help-example": "exhaustive"}}
