"""C07 — five-stage retire times and cycle count follow the documented pipeline schedule.
Props/C07.v: cycle law, stall/flush laws of the modelled pipeline; this file ties the model's cycle,
stall and flush counters to the implementation after every cycle (with and without caches) and checks
the implementation directly against the timing recurrence evaluated on its own single-cycle trace."""
from __future__ import annotations
import itertools
from runner import Slice
from common import make_sim
import gen_rv, sched
from props import c02
from rv_exec import impl_trace, pipe_extra

RULE = ("pipe-timing (model vs implementation): as C02's pipe slice but additionally comparing cycles, stalls and flushes after every "
        "cycle, half of the cases with random data/instruction caches and miss penalties. schedule (implementation vs the documented "
        "timing recurrence evaluated on the implementation's own single-cycle instruction stream): retire cycle of every instruction "
        "and total cycle count; exhaustive over the C02 hazard alphabet up to length 3 (quick) / 4 (thorough) and random programs. "
        "cycle-law (implementation): every step advances cycles by 1 + penalty x (counted misses of that step), all cache "
        "configurations. n+4 law: straight-line independent programs of n instructions take exactly n+4 cycles. "
        "Non-trivial = program with a stall or a flush.")
ASSUMPTIONS = c02.ASSUMPTIONS
MODELLED = c02.MODELLED


class PipeTiming(c02.Pipe):
    name = "pipe-timing"
    names = c02.PIPE_NAMES + ["cycles", "stalls", "flushes", "dstats", "istats"]

    def with_caches(self, rng):
        return rng.random() < 0.5

    def nontrivial(self, classes):
        return "stalled" in classes or "flushed" in classes


def spec_tie(spec, tr, W, model):
    """the recurrence the THEOREM pipe_schedule is stated against (Proofs/SchedDefs.v, evaluated by the extracted
    model on the model's single-cycle instruction stream) must be the recurrence this check uses (sched.schedule on the
    implementation's single-cycle trace); and the model pipeline must retire accordingly"""
    r = model.call([80, spec, len(tr) + 1])
    want = [[i["addr"], w] for i, w in zip(tr, W)]
    if r[2] != 0:
        return f"model single-cycle run does not finish (code {r[2]}) where the implementation's does"
    if [list(x) for x in r[0]] != want:
        return f"Coq schedule on the model's instruction stream {str(r[0])[:160]} != reference recurrence on the implementation's trace {str(want)[:160]}"
    if [list(x) for x in r[1]] != want:
        return f"model pipeline retires {str(r[1])[:160]}, schedule says {str(want)[:160]}"
    return None


def check_schedule(spec, model=None):
    tr = sched.single_dynamic_trace(spec)
    if tr is None:
        return None, {"skipped"}
    if model is not None:
        d = spec_tie(spec, tr, sched.schedule(tr), model)
        if d:
            return ("disagreement", d), {"tie"}
    r = sched.pipe_retire(spec, True, by_steps=True)
    if r is None:
        return "single-cycle run finishes but the five-stage run faults or does not finish", set()
    ret, cyc, _, psim = r
    W = sched.schedule(tr)
    exp = [(i["addr"], w) for i, w in zip(tr, W)]
    tot = W[-1] if W else 0
    cl = {"n=%d" % min(len(tr), 5)}
    if spec[3] or spec[4]:
        # with caches the schedule is in STEPS; every counted miss adds its penalty to the cycle counter
        cl.add("caches")
        from common import stats_of
        ds, is_ = stats_of(psim.state.memory.get_cache_stats()), stats_of(psim.state.instruction_memory.get_cache_stats())
        pen = (spec[3][5] * (ds[1] - ds[0]) if spec[3] and ds else 0) + (spec[4][5] * (is_[1] - is_[0]) if spec[4] and is_ else 0)
        cyc -= pen
    if any(i["ecall"] for i in tr):
        cl.add("ecall")
    if any(i["redirect"] for i in tr):
        cl.add("redirect")
    if tot > len(tr) + 4:
        cl.add("delayed")
    if exp != ret:
        k = next((j for j in range(min(len(exp), len(ret))) if exp[j] != ret[j]), min(len(exp), len(ret)))
        return f"instruction #{k}: documented schedule retires {exp[k] if k < len(exp) else None}, implementation {ret[k] if k < len(ret) else None} (addr, cycle)", cl
    if tot != cyc:
        return f"total cycles {cyc}, documented schedule {tot}", cl
    return None, cl


class Schedule(Slice):
    name = "schedule"

    def exhaustive(self, tier):
        return c02.ModesExhaustive().exhaustive(tier)

    def gen(self, rng, index, tier):
        prog = gen_rv.gen_program(rng, maxlen=14, allow_fault=False)
        return {"spec": gen_rv.gen_state_spec(rng, prog), "steps": 400}

    def run(self, case, model):
        d, cl = check_schedule(case["spec"], model)
        if isinstance(d, tuple):
            return [d], cl
        return ([("violation", d)] if d else []), cl

    def nontrivial(self, classes):
        return "delayed" in classes

    def shrink(self, case):
        for s in gen_rv.shrink_spec(case["spec"]):
            yield dict(case, spec=s)

    def describe(self, case):
        return {"program": gen_rv.program_text(case["spec"][0]), "regs": case["spec"][1], "mem": case["spec"][2]}

    def required_classes(self, tier):
        return ["ecall", "redirect", "delayed"]


class ScheduleRandom(Schedule):
    name = "schedule-random"

    def gen(self, rng, index, tier):
        prog = gen_rv.gen_program(rng, maxlen=14, allow_fault=False, aligned_only=True)
        dc = gen_rv.gen_cache_cfg(rng) if rng.random() < 0.35 else []
        ic = gen_rv.gen_cache_cfg(rng) if rng.random() < 0.35 else []
        return {"spec": gen_rv.gen_state_spec(rng, prog, dc, ic), "steps": 400}

    def required_classes(self, tier):
        return ["ecall", "redirect", "delayed", "caches"]

    def exhaustive(self, tier):
        return None


class CycleLaw(Slice):
    """implementation only: cycles advance by 1 + penalties of the counted misses of the step"""
    name = "cycle-law"

    def gen(self, rng, index, tier):
        prog = gen_rv.gen_program(rng, maxlen=20, aligned_only=True)
        return {"spec": gen_rv.gen_state_spec(rng, prog, gen_rv.gen_cache_cfg(rng) if rng.random() < 0.8 else [],
                                              gen_rv.gen_cache_cfg(rng) if rng.random() < 0.8 else []),
                "mode": rng.choice(["five_stage_pipeline", "five_stage_pipeline", "single_stage_pipeline"]), "steps": 300}

    def run(self, case, model):
        spec = case["spec"]
        it = impl_trace(spec, case["steps"], mode=case["mode"])
        dpen = spec[3][5] if spec[3] else 0
        ipen = spec[4][5] if spec[4] else 0
        findings, cl = [], set()
        states = [o for o in it if len(o) >= 8]
        if it[-1][0] == 1:
            states.append(it[-1][2])
        for a, b in zip(states, states[1:]):
            dm = ((b[6][1] - a[6][1]) - (b[6][0] - a[6][0])) if a[6] else 0
            im = ((b[7][1] - a[7][1]) - (b[7][0] - a[7][0])) if a[7] else 0
            want = 1 + dpen * dm + ipen * im
            if b[5][3] - a[5][3] != want:
                findings.append(("violation", f"cycle counter advanced by {b[5][3] - a[5][3]}, expected 1 + {dpen}*{dm} + {ipen}*{im}"))
                break
            if dm or im:
                cl.add("miss")
        cl.add("mode:" + case["mode"][:4])
        return findings, cl

    def nontrivial(self, classes):
        return "miss" in classes

    def shrink(self, case):
        for s in gen_rv.shrink_spec(case["spec"]):
            yield dict(case, spec=s)

    def describe(self, case):
        return {"program": gen_rv.program_text(case["spec"][0]), "dcache": case["spec"][3], "icache": case["spec"][4], "mode": case["mode"]}

    def required_classes(self, tier):
        return ["miss", "mode:five", "mode:sing"]


class NPlus4(Slice):
    name = "n-plus-4"

    def gen(self, rng, index, tier):
        n = rng.randrange(0, 25)
        # independent: destinations x1..x15 distinct per window, sources x20..x31 never written
        prog = []
        for k in range(n):
            rd = 1 + (k % 15)
            r = rng.random()
            if r < 0.5:
                prog.append([rng.choice(gen_rv.R_OPS), rd, rng.randrange(20, 32), rng.randrange(20, 32)])
            elif r < 0.8:
                prog.append([rng.choice(gen_rv.I_OPS), rd, rng.randrange(20, 32), gen_rv.rnd_imm12(rng)])
            elif r < 0.9:
                prog.append([gen_rv.MN["lui"], rd, rng.randrange(0, 1 << 20)])
            else:
                prog.append([gen_rv.MN["lw"], rd, 20, 4 * rng.randrange(0, 4)])
        regs = [[r, gen_rv.rnd32(rng)] for r in range(21, 32)] + [[20, 0x4000]]
        return {"spec": [prog, sorted(regs), [], [], []], "n": n}

    def run(self, case, model):
        it = impl_trace(case["spec"], 200, mode="five_stage_pipeline")
        findings = []
        n = case["n"]
        if it[-1][0] != 0:
            findings.append(("violation", f"straight-line program did not finish: {it[-1][:2]}"))
        else:
            cyc = it[-2][5][3]
            want = n + 4 if n > 0 else 0
            if cyc != want or it[-2][5][4] or it[-2][5][5]:
                findings.append(("violation", f"{n} independent instructions took {cyc} cycles (stalls {it[-2][5][4]}, flushes {it[-2][5][5]}), documented n+4 = {want}"))
        return findings, {"n>0"} if n else {"n=0"}

    def nontrivial(self, classes):
        return "n>0" in classes

    def required_classes(self, tier):
        return ["n>0"]


def slices():
    return [PipeTiming(), Schedule(), ScheduleRandom(), CycleLaw(), NPlus4()]


BUDGET = {
    "quick": {"pipe-timing": 800, "schedule": "exhaustive", "schedule-random": 600, "cycle-law": 300, "n-plus-4": 150},
    "thorough": {"pipe-timing": 20000, "schedule": "exhaustive", "schedule-random": 20000, "cycle-law": 6000, "n-plus-4": 3000},
}
