"""C18 — flat memory is a little-endian byte store with wrap-around and range checks.
Props/C18.v proves the model (Model/Mem.v) against the abstract store Spec/FlatMem.v; this file ties
Mem.v to uarch/memory/memory.py and checks the property directly against a reference byte store."""
from __future__ import annotations
from runner import Slice
from common import map_exc

RULE = ("flatmem: random histories (1-40 ops) of reads/writes of widths 8/16/32/64 on the RISC-V memory (byte cells, "
        "wrap modulo 2^32, range [2^14,2^32)) and of half-word accesses on the TOY memory (16-bit cells, no wrap, "
        "range [0,size)); addresses aligned, unaligned, negative, >= 2^32, around both ends of the valid range; values "
        "incl. over-wide. Compared per op: value / error fields, and the final memory_file. Direct: every result also "
        "compared with a reference dict-of-cells store. Non-trivial = at least one write followed by an overlapping read.")
ASSUMPTIONS = ["values passed to write_* are fixedint values of the access width, as all call sites do"]
MODELLED = "model↔code link is differential (sampled histories)"

EDGE = [0x4000, 0x4001, 0x4002, 0x4003, 0x3FFF, 0x3FFE, 0x3FFD, 0x3FFC, 0x3FF9, 0, 1, -1, -4, -0x4000,
        0xFFFFFFFF, 0xFFFFFFFE, 0xFFFFFFFD, 0xFFFFFFFC, 0xFFFFFFF9, 0x100000000, 0x100004000, 0x100003FFF, 0x4010, 0x4011]


def make_mem(kind, size):
    from architecture_simulator.uarch.memory.memory import Memory, AddressingType
    if kind == 0:
        return Memory(AddressingType.BYTE, 32, True, range(2 ** 14, 2 ** 32))
    return Memory(AddressingType.HALF_WORD, 12, False, range(size))


def impl_ops(kind, size, preset, ops):
    import fixedint
    m = make_mem(kind, size)
    cellt = fixedint.UInt8 if kind == 0 else fixedint.UInt16
    for a, v in preset:
        m.memory_file[a] = cellt(v)
    rd = {8: "read_byte", 16: "read_halfword", 32: "read_word", 64: "read_doubleword"}
    wr = {8: "write_byte", 16: "write_halfword", 32: "write_word", 64: "write_doubleword"}
    ty = {8: fixedint.UInt8, 16: fixedint.UInt16, 32: fixedint.UInt32, 64: fixedint.UInt64}
    res = []
    for op in ops:
        try:
            if op[0] == 2:
                m.reset()
                res.append([])
                continue
            if op[0] == 0:
                res.append([0, int(getattr(m, rd[op[1]])(op[2]))])
            else:
                getattr(m, wr[op[1]])(op[2], ty[op[1]](op[3]))
                res.append([])
        except Exception as e:
            ex = map_exc(e)
            res.append([1, ex] if op[0] == 0 else [ex])
    return res, sorted([a, int(v)] for a, v in m.memory_file.items())


def ref_ops(kind, size, preset, ops):
    """reference: total function address -> cell, little endian, first out-of-range cell faults"""
    cw = 8 if kind == 0 else 16
    lo, hi = (2 ** 14, 2 ** 32) if kind == 0 else (0, size)
    cells = dict(map(tuple, preset))
    res = []
    for op in ops:
        if op[0] == 2:
            cells = {}
            res.append([])
            continue
        k = op[1] // cw
        addrs = [(op[2] + i) % 2 ** 32 if kind == 0 else op[2] + i for i in range(k)]
        bad = next((a for a in addrs if not (lo <= a < hi)), None)
        if op[0] == 0:
            if bad is not None:
                res.append([1, [1, bad, lo, hi - 1, 0]])
            else:
                res.append([0, sum(cells.get(a, 0) << (cw * i) for i, a in enumerate(addrs))])
        else:
            v = op[3] % (1 << op[1])
            for i, a in enumerate(addrs):
                if not (lo <= a < hi):
                    break
                cells[a] = (v >> (cw * i)) & ((1 << cw) - 1)
            res.append([[1, bad, lo, hi - 1, 0]] if bad is not None else [])
    return res, sorted([a, v] for a, v in cells.items())


class FlatMem(Slice):
    name = "flatmem"
    promote_disagreement = True

    def gen(self, rng, index, tier):
        kind = 0 if rng.random() < 0.75 else 1
        size = rng.choice([4096, 4096, 16, 1, 100]) if kind == 1 else 0
        ops = []
        hot = [rng.choice(EDGE) for _ in range(3)] if kind == 0 else [rng.choice([0, 1, size - 1, size, size - 2, -1, 4095, 4096, 5])]
        for _ in range(rng.randrange(1, 40)):
            if kind == 0:
                nb = rng.choice([8, 16, 32, 32, 64])
                a = rng.choice(hot) + rng.randrange(-3, 9) if rng.random() < 0.8 else rng.choice(EDGE)
            else:
                nb = rng.choice([16, 16, 16, 32, 64])          # 1, 2 or 4 cells of the TOY memory (no wrap-around)
                a = rng.choice(hot) + rng.randrange(-4, 3)
            if rng.random() < 0.04:
                ops.append([2])                               # reset(): the memory is empty again
                if ops[-2:-1] and rng.random() < 0.7:
                    # ... and the next access repeats the last one (same address, same width)
                    last = next((o for o in reversed(ops[:-1]) if o[0] in (0, 1)), None)
                    if last:
                        ops.append([0, last[1], last[2]])
                continue
            if rng.random() < 0.5:
                ops.append([0, nb, a])
            else:
                ops.append([1, nb, a, rng.getrandbits(nb) if rng.random() < 0.9 else rng.getrandbits(70)])
        preset = []
        if rng.random() < 0.3:
            base = 0x4000 if kind == 0 else 0
            preset = sorted([base + rng.randrange(0, 12), rng.getrandbits(8 if kind == 0 else 16)] for _ in range(3))
            preset = [p for i, p in enumerate(preset) if all(p[0] != q[0] for q in preset[:i])]
            if kind == 1:
                preset = [p for p in preset if p[0] < size]
        return {"kind": kind, "size": size, "preset": preset, "ops": ops}

    def run(self, case, model):
        kind, size, preset, ops = case["kind"], case["size"], case["preset"], case["ops"]
        # over-wide values are reduced by the fixedint constructor at the call site
        ops_n = [op if op[0] != 1 else [1, op[1], op[2], op[3] % (1 << op[1])] for op in ops]
        ires, imem = impl_ops(kind, size, preset, ops_n)
        # the model has no reset operation: a reset starts a new history on an empty memory
        mres, mmem, seg, pre = [], [], [], preset
        for op in ops_n + [[2]]:
            if op[0] == 2:
                r = model.call([30, kind, size, pre, seg])
                mres += list(r[0]) + [[]]
                mmem, seg, pre = r[1], [], []
            else:
                seg.append(op)
        mres = mres[:-1]
        findings = []
        if ires != mres or imem != mmem:
            k = next((j for j in range(len(ires)) if ires[j] != mres[j]), None)
            findings.append(("disagreement", f"op {k} {ops_n[k] if k is not None else ''}: impl {ires[k] if k is not None else imem} != model {mres[k] if k is not None else mmem}"))
        rres, rmem = ref_ops(kind, size, preset, ops_n)
        if ires != rres or imem != rmem:
            k = next((j for j in range(len(ires)) if ires[j] != rres[j]), None)
            # what a write that is only PARTLY outside the valid range leaves behind is not fixed by the property ("an access lying
            # entirely outside the valid range changes nothing"); the reference writes the in-range prefix as the code does, so after
            # such a write a difference is a deviation from the model, not a violation
            cw = 8 if kind == 0 else 16
            lo, hi = (2 ** 14, 2 ** 32) if kind == 0 else (0, size)
            def partial(op):
                if op[0] != 1:
                    return False
                addrs = [(op[2] + i) % 2 ** 32 if kind == 0 else op[2] + i for i in range(op[1] // cw)]
                inr = [lo <= a < hi for a in addrs]
                return any(inr) and not all(inr)
            upto = len(ops_n) if k is None else k + 1
            findings.append(("disagreement" if any(partial(o) for o in ops_n[:upto]) else "violation", f"op {k} {ops_n[k] if k is not None else ''}: impl {ires[k] if k is not None else imem} != reference byte store {rres[k] if k is not None else rmem}"))
        cl = {"rv" if kind == 0 else "toy"}
        written = set()
        for op, r_ in zip(ops_n, ires):
            if op[0] == 2:
                written = set()
                cl.add("reset")
                continue
            span = set(range(op[2], op[2] + op[1] // (8 if kind == 0 else 16)))
            if kind == 1 and op[1] > 16:
                cl.add("toy-multicell")
            if op[0] == 1 and r_ == []:
                written |= span
            if op[0] == 0 and r_[0] == 0 and span & written:
                cl.add("read-after-write")
            if r_ and r_[0] == 1 or (op[0] == 1 and r_):
                cl.add("range-error")
            if kind == 0 and (op[2] < 0 or op[2] + 8 > 2 ** 32):
                cl.add("wrap")
            if op[1] > (8 if kind == 0 else 16) and op[2] % (op[1] // 8) != 0:
                cl.add("unaligned")
        return findings, cl

    def nontrivial(self, classes):
        return "read-after-write" in classes

    def required_classes(self, tier):
        return ["rv", "toy", "read-after-write", "range-error", "wrap", "unaligned", "reset", "toy-multicell"]

    def shrink(self, case):
        ops = case["ops"]
        for i in range(len(ops)):
            yield dict(case, ops=ops[:i] + ops[i + 1:])
        if case["preset"]:
            yield dict(case, preset=[])

    def describe(self, case):
        return {"memory": "riscv" if case["kind"] == 0 else f"toy({case['size']})", "ops": case["ops"]}


def slices():
    return [FlatMem()]


BUDGET = {"quick": {"flatmem": 6000}, "thorough": {"flatmem": 200000}}
