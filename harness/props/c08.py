"""C08 — hazard detection off behaves exactly as an interlock-free pipeline.
Props/C08.v: the decode stage never stalls with the flag off; operands are read after the same cycle's
write-back.  This file ties Model/Pipe.v (flag off) to the implementation cycle by cycle, compares the
implementation with a delayed-write-back reference interpreter, and checks nop-padded programs against
single-cycle mode."""
from __future__ import annotations
from runner import Slice
from common import MN
import gen_rv, sched
from props import c02
from rv_exec import impl_trace, final_state, view, retired, pipe_extra

RULE = ("pipe-nohaz (model vs implementation, detect_data_hazards=False): random programs compared after every cycle on registers, "
        "memory, output, exit code, latch W, all counters incl. cycles/stalls/flushes. delayed-wb (implementation vs reference): "
        "the interlock-free machine as an in-order interpreter in which a register write becomes visible at the producer's "
        "write-back cycle and an instruction reads its sources at its decode cycle (ecall: execute cycle); compared: retire order "
        "and cycles, final registers, memory, output, exit code, total cycles; and no decode-stage stall is ever active. padded: "
        "random programs with two nops behind every instruction must give single-cycle results with the flag off. "
        "Non-trivial = a stale read actually happened (result differs from single-cycle) or >=3 instructions retired.")
ASSUMPTIONS = c02.ASSUMPTIONS
MODELLED = c02.MODELLED


class PipeNoHaz(c02.Pipe):
    name = "pipe-nohaz"
    hazards = False
    names = c02.PIPE_NAMES + ["cycles", "stalls", "flushes", "dstats", "istats"]

    def with_caches(self, rng):
        return rng.random() < 0.3          # the interlock-free pipeline with data / instruction caches, too

    def required_classes(self, tier):
        return ["end:done", "end:fault", "flushed", "prints", "exit-ecall", "taken-branch", "jal"]


class DelayedWB(Slice):
    name = "delayed-wb"

    def exhaustive(self, tier):
        return None

    def gen(self, rng, index, tier):
        prog = gen_rv.gen_program(rng, maxlen=14, allow_fault=False)
        return {"spec": gen_rv.gen_state_spec(rng, prog)}

    def run(self, case, model):
        spec = case["spec"]
        a = sched.delayed_wb(spec)
        if a is None:
            return [], {"skipped"}
        r = sched.pipe_retire(spec, False)
        if r is None:
            return [("violation", "reference interlock-free machine finishes but the implementation faults or hangs")], set()
        ret, cyc, id_stall, sim = r
        from common import obs_state
        o = obs_state(sim)
        b = {"ret": ret, "regs": o[1], "out": sim.state.output, "exit": sim.state.exit_code, "mem": o[2], "cyc": cyc}
        findings = []
        if id_stall:
            findings.append(("violation", "a decode-stage stall was active although hazard detection is off"))
        for k in ("ret", "regs", "mem", "out", "exit", "cyc"):
            if a[k] != b[k]:
                findings.append(("violation", f"{k}: reference {str(a[k])[:200]} implementation {str(b[k])[:200]}"))
                break
        cl = set()
        # the reference machine the THEOREMS are stated against (Proofs/FlagOffDwb.v dwb_run, extracted) must be the
        # reference this check uses
        r = model.call([81, spec, len(a["ret"]) + 1])
        from common import norm_model_state
        ms_ = norm_model_state(r[1][:8])
        if r[0] != 0:
            findings.append(("disagreement", f"Coq dwb_run does not finish (code {r[0]}) where the Python reference does"))
        elif [x for x in r[2]] != [pc for pc, _ in a["ret"]]:
            findings.append(("disagreement", f"Coq dwb_run retires {str(r[2])[:160]}, Python reference {[pc for pc, _ in a['ret']][:40]}"))
        elif (ms_[4] or [None])[0] != a["exit"]:
            findings.append(("disagreement", f"Coq dwb_run exit code {ms_[4]}, Python reference {a['exit']}"))
        elif ms_[1] != a["regs"] or ms_[3] != [ord(c) for c in a["out"]] or ms_[2] != a["mem"]:
            findings.append(("disagreement", f"Coq dwb_run final state differs from the Python reference: regs {ms_[1] == a['regs']}, out {ms_[3] == [ord(c) for c in a['out']]}, mem {ms_[2] == a['mem']}"))
        s = impl_trace(spec, 400)
        if s[-1][0] == 0 and s[-2][1] != o[1]:
            cl.add("stale-read")
        if len(ret) >= 3:
            cl.add("retired>=3")
        if sim.state.performance_metrics.stalls:
            cl.add("ecall-drain")
        return findings, cl

    def nontrivial(self, classes):
        return "stale-read" in classes or "retired>=3" in classes

    def shrink(self, case):
        for s in gen_rv.shrink_spec(case["spec"]):
            yield dict(case, spec=s)

    def describe(self, case):
        return {"program": gen_rv.program_text(case["spec"][0]), "regs": case["spec"][1], "mem": case["spec"][2]}

    def required_classes(self, tier):
        return ["stale-read", "retired>=3", "ecall-drain"]


NOP = [MN["addi"], 0, 0, 0]


def pad(prog):
    """two nops behind every instruction; pc-relative immediates scaled"""
    out = []
    for t in prog:
        t = list(t)
        if 37 <= t[0] <= 42:
            t[3] *= 3
        elif t[0] == MN["jal"]:
            t[2] *= 3
            t[3] *= 3
        out += [t, NOP, NOP]
    return out


class Padded(Slice):
    name = "padded"

    def gen(self, rng, index, tier):
        prog = gen_rv.gen_program(rng, maxlen=12, jalr=False, allow_fault=False)
        prog = [t for t in prog if t[0] != MN["auipc"]]          # auipc results depend on the address
        return {"spec": gen_rv.gen_state_spec(rng, pad(prog))}

    def run(self, case, model):
        spec = case["spec"]
        a = impl_trace(spec, 1500, mode="single_stage_pipeline")
        if a[-1][0] != 0:
            return [], {"skipped"}
        b = impl_trace(spec, 8000, mode="five_stage_pipeline", hazards=False, extra=pipe_extra)
        findings = []
        names = ["regs", "mem", "out", "exit", "icount", "bcount", "pcount"]
        if b[-1][0] != 0:
            findings.append(("violation", f"padded program: single-cycle finishes, interlock-free pipeline ends with {b[-1][:2]}"))
        elif view(a[-2], names) != view(b[-2], names):
            va, vb = view(a[-2], names), view(b[-2], names)
            k = next(i for i in range(len(names)) if va[i] != vb[i])
            findings.append(("violation", f"padded program: {names[k]} differ from single-cycle mode with hazard detection off"))
        elif [a[k][0] for k in range(len(a) - 2)] != [x for x, _ in retired(b)]:
            findings.append(("violation", "padded program: retire order differs from single-cycle mode"))
        if any(len(o) >= 10 and o[9] and o[9][0] == 1 for o in b):
            findings.append(("violation", "a decode-stage stall was active although hazard detection is off"))
        return findings, {"ran"} if len(a) > 4 else set()

    def nontrivial(self, classes):
        return "ran" in classes

    def shrink(self, case):
        return []

    def describe(self, case):
        return {"program": gen_rv.program_text(case["spec"][0]), "regs": case["spec"][1], "mem": case["spec"][2]}

    def required_classes(self, tier):
        return ["ran"]


class DelayedWBExhaustive(DelayedWB):
    """all sequences over the C02 hazard alphabet up to length 3 (quick) / 4 (thorough), flag off"""
    name = "delayed-wb-exhaustive"

    def exhaustive(self, tier):
        for c in c02.ModesExhaustive().exhaustive(tier):
            yield {"spec": c["spec"]}

    def gen(self, rng, index, tier):
        return None

    def required_classes(self, tier):
        return ["stale-read", "retired>=3", "ecall-drain"]


def slices():
    return [PipeNoHaz(), DelayedWB(), DelayedWBExhaustive(), Padded()]


BUDGET = {
    "quick": {"pipe-nohaz": 800, "delayed-wb": 600, "delayed-wb-exhaustive": "exhaustive", "padded": 300},
    "thorough": {"pipe-nohaz": 20000, "delayed-wb": 20000, "delayed-wb-exhaustive": "exhaustive", "padded": 8000},
}
