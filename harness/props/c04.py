"""C04 — assembler: labels and pseudo-instructions denote the right instructions.
Props/C04.v proves the assembler model (Model/Asm.v, after tokenisation): label addresses after
expansion, pc-relative operands, pseudo-instruction effects, register names, literals.  This file ties
Asm.v to riscv_parser.py through the REAL tokenizer, compares the implementation with an independent
reference assembler written from the documented syntax, and checks spelling independence."""
from __future__ import annotations
from runner import Slice
import rv_asm as RA

RULE = ("rvasm: abstract programs (real and pseudo-instructions in any order, stand-alone and in-line labels incl. on expanding "
        "pseudo-instructions and at the end of the program, label/label+0xoffset/numeric branch and jal operands, forward and backward "
        "references, data declarations of all five kinds, with and without segment directives) printed with random spelling (ABI/xN, "
        "mnemonic case, decimal/hex/binary, sign, blanks, comments, imm(reg) vs reg,reg,imm). Compared: (1) implementation vs model "
        "(error class+line, every field of every stored instruction, its printed form, lower memory); (2) implementation vs the "
        "independent reference assembler (expected instruction fields at consecutive addresses); (3) three spellings of the same "
        "abstract program give identical instruction memory. Non-trivial = program with a label reference and a pseudo-instruction.")
ASSUMPTIONS = ["pyparsing tokenisation is outside the model: tokens come from the real tokenizer through a fail-closed converter",
               "labels are not named like mnemonics or registers (documented restriction)"]
MODELLED = "model↔code link is differential (sampled grammar-derived sources)"


def run_case(case, model, tags=("corr", "C04", "C05")):
    import random
    rng = random.Random(case["seed"])
    ap = RA.gen_abs(rng, n_max=n_max_of(case))
    text = RA.render(rng, ap)
    return check_text(text, ap, model, rng, tags)


def n_max_of(case):
    """one case in 40 is a FAR program (label-form jal across more than 4 KiB), unless shrinking fixed n_max"""
    if "n_max" in case:
        return case["n_max"]
    return "far" if case["seed"] % 40 == 0 else 14


def check_text(text, ap, model, rng, tags):
    out = {"corr": [], "C04": [], "C05": []}
    cl = set()
    import gen_rv
    from common import obs_state, norm_model_state
    from rv_exec import view
    dcfg = gen_rv.gen_cache_cfg(rng) if rng.random() < 0.3 else []
    icfg = gen_rv.gen_cache_cfg(rng) if rng.random() < 0.2 else []
    toy_first = rng.random() < 0.1
    if toy_first:
        cl.add("toy-first")
    sim, err = RA.impl_load(text, dcfg, icfg, other_isa_first=toy_first)
    try:
        tk = RA.tokens_of(text)
    except RA.ConvertError as e:
        # the real tokenizer produced something outside its own documented token shapes: the model cannot be
        # consulted; the reference assembler below still decides the property on the implementation
        out["corr"].append(("disagreement", f"tokenizer output not convertible: {e}"))
        tk = None
    if tk is not None and tk[0] == "syntax":
        out["corr"].append(("disagreement", f"generated source rejected by the tokenizer at line {tk[1]}: {text.splitlines()[tk[1]-1]!r}"))
        return out, cl, text
    r = model.call([60, dcfg, icfg, tk[1]]) if tk is not None else None
    if dcfg:
        cl.add("dcache")
    if r is not None:
        r93 = model.call([94, dcfg, icfg, [ord(c) for c in text]])        # the WHOLE text: the model splits the lines itself
        if r93 != r:
            k = next((j for j in range(min(len(r), len(r93))) if r[j] != r93[j]), None)
            out["corr"].append(("disagreement", f"the model's lexer+assembler on the TEXT differs from the model's assembler on the real tokenizer's tokens (component {k})"))
    merr = (r[0][0] if r[0] else None) if r is not None else None
    if err is not None:
        cl.add("err:%d" % err[0])
        if r is not None and (merr is None or merr[:2] != err[:2]):
            out["corr"].append(("disagreement", f"load error: impl {err} model {merr}"))
        # a well-formed generated program must assemble: the reference decides
        try:
            RA.ref_assemble(ap)
            out["C04"].append(("violation", f"well-formed program rejected with {err}"))
        except KeyError:
            pass
        return out, cl, text
    cl.add("ok")
    lst = RA.listing(sim)
    low = RA.lower_bytes(sim)
    if r is None:
        pass
    elif merr is not None:
        out["corr"].append(("disagreement", f"model rejects with {merr}, implementation accepts"))
    else:
        img = r[1][0]
        mlst = [[list(f), list(rp)] for f, rp in img[0]]
        if mlst != lst:
            k = next((j for j in range(min(len(lst), len(mlst))) if lst[j] != mlst[j]), min(len(lst), len(mlst)))
            out["corr"].append(("disagreement", f"instruction #{k}: impl {lst[k] if k < len(lst) else None} model {mlst[k] if k < len(mlst) else None}"))
        if r[2] != low:
            out["corr"].append(("disagreement", "lower memory after load differs from the model"))
        names = ["regs", "out", "exit", "icount", "cycles", "dstats", "istats", "pc"]
        io, mo = obs_state(sim), norm_model_state(r[3])
        if view(io, names) != view(mo, names):
            k = next(n for n in names if view(io, [n]) != view(mo, [n]))
            out["corr"].append(("disagreement", f"state after load: {k} impl {view(io, [k])} model {view(mo, [k])} (parser preloads must not touch counters)"))
    # reference assembler
    try:
        exp, labels = RA.ref_assemble(ap)
    except KeyError as e:
        out["C04"].append(("violation", f"program with undefined label {e} was accepted"))
        return out, cl, text
    got = [f for f, _ in lst]
    if got != exp:
        k = next((j for j in range(min(len(got), len(exp))) if got[j] != exp[j]), min(len(got), len(exp)))
        # the exact shape of a pseudo-instruction's expansion is not mandated (only its effect, checked by C05 by execution): a first
        # difference INSIDE such a group is a deviation from the model, a difference at a real instruction is a violation
        out["C04"].append(("disagreement" if k in labels.get("__pseudo_positions__", ()) else "violation", f"instruction at address {4*k}: assembled {got[k] if k < len(got) else None}, documented syntax denotes {exp[k] if k < len(exp) else None}"))
    table, mem = RA.ref_layout(ap)
    gotmem = {a: v for a, v in low if v != 0}
    if gotmem != {a: v for a, v in mem.items() if v != 0}:
        diff = sorted(set(gotmem.items()) ^ set((a, v) for a, v in mem.items() if v != 0))[:4]
        out["C05"].append(("violation", f"data segment bytes differ from the documented layout at {diff}"))
    for it in ap.items:
        if it[0] == "ins":
            if it[1] in ("li", "la", "mv", "nop") or "var" in it[2]:
                cl.add("pseudo")
            if "label" in it[2]:
                cl.add("label-ref")
            if it[3]:
                cl.add("inline-label")
                if it[1] == "li" and not (-2048 <= it[2]["imm"] <= 2047) or "var" in it[2]:
                    cl.add("inline-on-expanding")
    if ap.items and ap.items[-1][0] == "label":
        cl.add("label-at-end")
    if ap.data:
        cl.add("data")
    if len(lst) > 1024:
        cl.add("far")
    # assembling is a function of the text: the same simulation object assembles the same text again identically
    if "C04" in tags:
        sim_again, err_again = RA.impl_load(text, dcfg, icfg, sim=sim)
        if err_again is not None or RA.listing(sim_again) != lst or RA.lower_bytes(sim_again) != low:
            out["C04"].append(("violation", f"assembling the same text a second time on the same simulation differs ({err_again})"))
    # spelling independence (metamorphic): two more renderings
    if "C04" in tags:
        for _ in range(2):
            t2 = RA.render(rng, ap)
            sim2, err2 = RA.impl_load(t2, dcfg, icfg)
            if err2 is not None or RA.listing(sim2) != lst or RA.lower_bytes(sim2) != low:
                out["C04"].append(("violation", f"a different spelling of the same program assembles differently ({err2})"))
                break
    return out, cl, text


def run_text_case(case, model):
    """corpus cases given as source text with the expected outcome written out"""
    text = case["text"]
    sim, err = RA.impl_load(text)
    f = []
    tk = RA.tokens_of(text)
    if tk[0] == "ok":
        r = model.call([60, [], [], tk[1]])
        merr = r[0][0] if r[0] else None
        if (err is None) != (merr is None) or (err is not None and err[:2] != merr[:2]):
            f.append(("disagreement", f"load outcome: impl {err} model {merr}"))
        elif err is None and [[list(a), list(b)] for a, b in r[1][0][0]] != RA.listing(sim):
            f.append(("disagreement", "listing differs from the model"))
    if "expect_error" in case:
        if err is None or err[:2] != case["expect_error"]:
            f.append(("violation", f"expected error {case['expect_error']}, got {err}"))
    else:
        if err is not None:
            f.append(("violation", f"well-formed program rejected with {err}"))
        elif "expect_fields" in case and [x for x, _ in RA.listing(sim)] != case["expect_fields"]:
            f.append(("violation", f"assembled {[x for x, _ in RA.listing(sim)]}, documented syntax denotes {case['expect_fields']}"))
    return f, ["corpus"]


def text_lines(text):
    return [[ord(c) for c in ln] for ln in text.splitlines()]


class RvLex(Slice):
    """the RISC-V tokenizer inside the model (Model/Lex.v) against the real pyparsing tokenizer: per line the verdict (blank /
    syntax error / accepted), per text the whole load (lexer + assembler on the text = load_program: error class and line, every
    field of every instruction, every byte of the data segment)"""
    name = "rv-lex"

    def gen(self, rng, index, tier):
        import lex_corr as L
        name, g = L.GENS[index % len(L.GENS)]
        lines = g(rng)
        return {"stream": name, "lines": [l for l in lines if L.in_domain(l)][:40]}

    def run(self, case, model):
        import lex_corr as L
        lines = case["lines"]
        findings, cl = [], {"stream:" + case.get("stream", "corpus")}
        for l in dict.fromkeys(lines):
            a = L.real_line(l)[0]
            r = model.call([92, [ord(c) for c in l]])
            cl.add(["blank", "syntax", "tokens"][a])
            if not r[1]:
                findings.append(("disagreement", f"line {l!r} is outside the lexer's stated domain although it is a splitlines() element"))
            elif r[0] != a:
                findings.append(("disagreement", f"line {l!r}: real tokenizer says {['blank', 'syntax error', 'accepted'][a]}, model lexer {['blank', 'syntax error', 'accepted'][r[0]]}"))
        text = "\n".join(lines)
        import re
        reserved = set(RA.MNEMONICS) | {"li", "la", "mv", "nop"} | set(RA.ABI) | {"x%d" % i for i in range(32)} | {"fp"}
        declared = [m.group(1).lower() for l in lines for m in [re.match(r"\s*([A-Za-z_][A-Za-z_0-9]*)\s*:", l)] if m]
        if any(n in reserved for n in declared):
            # a label or variable named like a mnemonic or a register: documented as unsupported (ASSUMPTIONS), the assembler's
            # treatment of such a name is outside the claim — only the lexer verdicts above are compared for this text
            cl.add("reserved-name")
        else:
            sim, err = RA.impl_load(text)
            r = model.call([94, [], [], [ord(c) for c in text]])
            merr = r[0][0] if r[0] else None
            if (err is None) != (merr is None) or (err is not None and err[:2] != merr[:2] and not (err[0] in (9, 10, 11) and merr[0] in (9, 10, 11))):
                findings.append(("disagreement", f"load_program on the text: impl {err}, model lexer+assembler {merr}"))
            elif err is None:
                cl.add("loaded")
                img = r[1][0]
                if [[list(f), list(rp)] for f, rp in img[0]] != RA.listing(sim):
                    findings.append(("disagreement", "text-level load: listing differs from the model's lexer+assembler"))
                elif r[2] != RA.lower_bytes(sim):
                    findings.append(("disagreement", "text-level load: data segment bytes differ from the model's lexer+assembler"))
            else:
                cl.add("load-error")
        return findings[:3], cl

    def nontrivial(self, classes):
        return "tokens" in classes

    def required_classes(self, tier):
        return ["tokens", "syntax", "blank", "loaded", "load-error", "stream:rendered", "stream:c15-malformed", "stream:mutations", "stream:strings"]

    def shrink(self, case):
        ls = case["lines"]
        for i in range(len(ls)):
            yield dict(case, lines=ls[:i] + ls[i + 1:])


class RvAsm(Slice):
    name = "rvasm"
    tag = "C04"

    def gen(self, rng, index, tier):
        return {"seed": rng.getrandbits(48)}

    def run(self, case, model):
        if "text" in case:
            return run_text_case(case, model)
        out, cl, text = run_case(case, model, ("corr", self.tag))
        return out["corr"] + out[self.tag], cl

    def nontrivial(self, classes):
        return "label-ref" in classes and "pseudo" in classes

    def describe(self, case):
        import random
        rng = random.Random(case["seed"])
        ap = RA.gen_abs(rng, n_max=n_max_of(case))
        return {"source": RA.render(rng, ap).splitlines()[:60]}

    def shrink(self, case):
        if n_max_of(case) == "far":
            return
        for n in range(2, case.get("n_max", 14)):
            yield dict(case, n_max=n)

    def required_classes(self, tier):
        return ["ok", "pseudo", "label-ref", "inline-label", "inline-on-expanding", "label-at-end", "data", "far", "toy-first"]


def slices():
    return [RvAsm(), RvLex()]


BUDGET = {"quick": {"rvasm": 1500, "rv-lex": 800}, "thorough": {"rvasm": 40000, "rv-lex": 20000}}
