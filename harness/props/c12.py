"""C12 — write-through keeps memory current; write-back never loses a written value.
State invariants proved in Props/C12.v over every history of the modelled cache; here the same
invariants are evaluated on the IMPLEMENTATION's state after every operation (backing memory vs a
flat reference store vs resident blocks), and the model's directory/lower memory is compared."""
from __future__ import annotations
from props import c03

RULE = ("histories as for C03 (random on all geometries; explicit-state enumeration on tiny ones in the thorough tier); after every "
        "operation: write-through — backing memory == flat reference and every resident block == its backing block; write-back — "
        "backing memory differs from the flat reference only at addresses whose block is resident (so eviction lost nothing). "
        "Non-trivial = some block became resident.")
ASSUMPTIONS = c03.ASSUMPTIONS
MODELLED = c03.MODELLED


class DCache(c03.DCache):
    tag = "C12"

    def required_classes(self, tier):
        return ["wb", "wt", "wb-lag", "write-hit", "write-miss", "read-miss"]


class DCacheSmall(c03.DCacheSmall):
    tag = "C12"


def slices():
    return [DCache(), DCacheSmall()]


BUDGET = {"quick": {"dcache": 1500, "dcache-small": 0}, "thorough": {"dcache": 40000, "dcache-small": "exhaustive"}}
