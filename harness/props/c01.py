"""C01 — single-cycle RV32IM = ISA reference.  Correspondence slices for Model/Single.v
(the proved theorems relate Single to Spec/RV32IM.v)."""
from __future__ import annotations
import itertools
from runner import Slice
from common import MN, MNEMONICS, fmt_kind
import gen_rv
from rv_exec import impl_trace, model_trace, compare_traces, trace_classes

NAMES = ["pc", "regs", "mem", "out", "exit"]
RULE = ("grid: every supported mnemonic x boundary operand pairs x rd/rs1/rs2 aliasing patterns x boundary immediates, "
        "one instruction per case; random: structured programs (<=30 instructions, <=400 steps) with branches, jumps, "
        "loads/stores, ecalls, ~10% designed to fault. A case is non-trivial if it executed at least one instruction; "
        "distinct = distinct canonical (program, presets) inputs.")
ASSUMPTIONS = ["float text of ecall 2 computed by the harness oracle", "CSR/FENCE/EBREAK out of scope"]
MODELLED = "model↔code link is differential (sampled); instruction semantics, stage and memory are modelled in Coq"


class SingleGrid(Slice):
    name = "single-grid"
    promote_disagreement = True

    def gen(self, rng, index, tier):
        ops = gen_rv.R_OPS + gen_rv.I_OPS + gen_rv.SH_OPS + gen_rv.L_OPS + gen_rv.S_OPS + gen_rv.B_OPS + \
            [MN["jalr"], MN["lui"], MN["auipc"], MN["jal"], MN["ecall"]]
        op = ops[index % len(ops)]
        k = fmt_kind(op)
        rd, rs1, rs2 = rng.choice(gen_rv.ALIAS)
        a, b = gen_rv.rnd32(rng), gen_rv.rnd32(rng)
        regs = {1: a, 2: b, 3: gen_rv.rnd32(rng)}
        mem = gen_rv.mem_preset(rng)
        pre = [[MN["addi"], 0, 0, 0]] * rng.choice([0, 0, 1, 3])     # vary the instruction address
        if k == "R":
            ins = [op, rd, rs1, rs2]
        elif op in gen_rv.SH_OPS:
            ins = [op, rd, rs1, rng.choice(gen_rv.SHAMT + [32, 33, 63, -1])]
        elif op in gen_rv.L_OPS:
            regs[1] = gen_rv.DATA + rng.randrange(0, 40) if rng.random() < 0.85 else a
            ins = [op, rd, rs1, gen_rv.rnd_imm12(rng) if rng.random() < 0.3 else rng.randrange(-8, 16)]
        elif k == "I":
            ins = [op, rd, rs1, gen_rv.rnd_imm12(rng) if rng.random() < 0.8 else rng.randrange(-5000, 5000)]
        elif k == "S":
            regs[1] = gen_rv.DATA + rng.randrange(0, 40) if rng.random() < 0.85 else a
            ins = [op, rs1, rs2, gen_rv.rnd_imm12(rng) if rng.random() < 0.3 else rng.randrange(-8, 16)]
        elif k == "B":
            if rng.random() < 0.3:
                regs[2] = regs[1]
            ins = [op, rs1, rs2, rng.choice([-4096, -8, -4, 0, 4, 8, 12, 4094, 2 * rng.randrange(-2048, 2048)])]
        elif k == "U":
            ins = [op, rd, rng.choice(gen_rv.IMM20 + [rng.randrange(-(1 << 20), 1 << 21)])]
        elif k == "J":
            imm = rng.choice([-(1 << 20), -4, 0, 4, 8, (1 << 20) - 2, 2 * rng.randrange(-(1 << 19), 1 << 19)])
            ins = [op, rd, imm, imm + 4 * len(pre)]
        else:  # ecall
            code = rng.choice(gen_rv.ECALL_CODES + [0, 3, 12, 92, 94, 0xFFFFFFFF])
            regs = {17: code, 10: gen_rv.DATA + rng.randrange(28, 40) if code == 4 and rng.random() < 0.8 else a}
            ins = [op]
        post = [[MN["addi"], 4, 0, 7]]
        spec = [pre + [ins] + post, sorted([r, v] for r, v in regs.items()), mem, [], []]
        return {"spec": spec, "steps": len(pre) + 3}

    def run(self, case, model):
        it = impl_trace(case["spec"], case["steps"])
        mt = model_trace(model, 1, case["spec"], case["steps"])
        d = compare_traces(it, mt, NAMES)
        return ([("disagreement", d)] if d else []), trace_classes(case["spec"][0], it)

    def shrink(self, case):
        for s in gen_rv.shrink_spec(case["spec"]):
            yield {"spec": s, "steps": case["steps"]}

    def describe(self, case):
        return {"program": gen_rv.program_text(case["spec"][0]), "regs": case["spec"][1], "mem": case["spec"][2]}

    def required_classes(self, tier):
        return ["op:" + m for m in ["add", "sra", "mulhsu", "div", "rem", "lb", "lhu", "sw", "beq", "bgeu", "jalr", "jal",
                                    "lui", "auipc", "ecall", "slli", "sltiu"]] + ["end:fault", "end:done"]


class SingleRandom(Slice):
    name = "single-random"
    promote_disagreement = True

    def gen(self, rng, index, tier):
        prog = gen_rv.gen_program(rng, maxlen=30)
        case = {"spec": gen_rv.gen_state_spec(rng, prog), "steps": 400}
        if rng.random() < 0.15:     # a second live simulation (either mode) stepped in between
            case["other"] = [gen_rv.gen_state_spec(rng, gen_rv.gen_program(rng, maxlen=12)),
                             rng.choice(["single_stage_pipeline", "five_stage_pipeline"])]
        return case

    def run(self, case, model):
        it = impl_trace(case["spec"], case["steps"], other=case.get("other"))
        mt = model_trace(model, 1, case["spec"], case["steps"])
        d = compare_traces(it, mt, NAMES)
        return ([("disagreement", d)] if d else []), trace_classes(case["spec"][0], it)

    def shrink(self, case):
        for s in gen_rv.shrink_spec(case["spec"]):
            yield dict(case, spec=s)

    def describe(self, case):
        return {"program": gen_rv.program_text(case["spec"][0]), "regs": case["spec"][1], "mem": case["spec"][2]}

    def nontrivial(self, classes):
        return "steps>2" in classes

    def required_classes(self, tier):
        return ["end:done", "end:fault", "taken-branch", "jal", "prints", "exit-ecall"]


def slices():
    return [SingleGrid(), SingleRandom()]


BUDGET = {
    "quick": {"single-grid": 6000, "single-random": 1500},
    "thorough": {"single-grid": 150000, "single-random": 40000},
}


EXTRA_TRUST = globals().get("EXTRA_TRUST", []) + [
    "T2 (this property): the theorems of Props/C01FloatDiv.v (int(a / b) of DIV/REM = Z.quot / Z.rem) depend on the standard-library "
    "axioms ClassicalDedekindReals.sig_forall_dec, ClassicalDedekindReals.sig_not_dec, FunctionalExtensionality."
    "functional_extensionality_dep and Classical_Prop.classic (real numbers; Flocq's `round`); all other theorems are closed"]
