"""C16 — inspection is pure: read-only queries never change later behaviour.
In the model every inspection function is a pure function of the state (Props/C16.v states the erasure
theorem and the two facts that make the one stateful display path harmless: idempotent policy access,
neutral uncounted re-read).  A Coq model cannot prove a Python getter free of side effects; that is
decided here: the implementation is run with random subsets and repetitions of ALL zero-argument
inspection functions between steps and must behave exactly like a run without them, and like the
model run of the erased sequence."""
from __future__ import annotations
import random, inspect
from runner import Slice
import gen_rv, toy_exec as T, cache_exec
from common import make_sim, obs_state, first_diff, norm_model_state, global_state_digest, global_state_diff
from rv_exec import pipe_extra, view
from props import c13

RULE = ("inspect-rv: random programs x mode x random data/instruction cache configurations (80% with at least one cache) x hazard "
        "detection on/off; run A calls, between steps, a random multiset of all zero-argument inspection functions of RiscvSimulation "
        "(register/data-memory/instruction tables, cache tables and statistics, SVG update lists of the active mode, performance-metric "
        "text, output, exit code, is_done, has_instructions); run B calls none. After every step the full state (registers, memory, "
        "pc, output, counters, cache directories incl. replacement state and dirty bits, cache statistics, latches) must be equal, "
        "every inspection result of run A at the end equals that of run B, and run A equals the model's run of the erased sequence. "
        "inspect-toy: the same for ToySimulation with half-cycle stepping. Non-trivial = >= 3 steps with a cache enabled or TOY.")
ASSUMPTIONS = ["timer lines of the performance-metric text are dropped before comparison (wall clock)"]
MODELLED = "getter purity is not provable about Python in Coq; it is decided by differential execution on the implementation"


def getters_of(sim, five):
    names = []
    for n, f in inspect.getmembers(sim, predicate=inspect.ismethod):
        if not (n.startswith("get_") or n in ("is_done", "has_instructions")):
            continue
        try:
            sig = inspect.signature(f)
        except (TypeError, ValueError):
            continue
        if any(p.default is inspect._empty and p.kind in (p.POSITIONAL_ONLY, p.POSITIONAL_OR_KEYWORD) for p in sig.parameters.values()):
            continue
        if "five_stage" in n and not five:
            continue
        if "single_stage" in n and five:
            continue
        names.append(n)
    return sorted(names)


def canon(v):
    """make an inspection result comparable (objects -> dicts, drop timers)"""
    if isinstance(v, str):
        return "\n".join(l for l in v.splitlines() if not any(w in l.lower() for w in ("time", "per second", "elapsed", "/s")))
    if isinstance(v, (int, float, bool)) or v is None:
        return v
    if isinstance(v, (list, tuple)):
        return [canon(x) for x in v]
    if isinstance(v, dict):
        return {str(k): canon(x) for k, x in sorted(v.items(), key=lambda kv: str(kv[0]))}
    if hasattr(v, "__dict__"):
        return {k: canon(x) for k, x in sorted(vars(v).items()) if not any(w in k.lower() for w in ("time", "elapsed", "start", "per_second", "ips"))}
    return repr(v)


def call_all(sim, names):
    out = {}
    for n in names:
        try:
            out[n] = canon(getattr(sim, n)())
        except Exception as e:
            out[n] = "EXC " + type(e).__name__
    return out


def clean_process_verdict(reqs):
    """an inspection call changed process-global state of the simulator package.  That alone is not a violation (it could
    be a memo); it is one if it changes behaviour: the probes are evaluated in THIS process and in a fresh process."""
    import json, os, subprocess, sys
    import refproc
    reqs = refproc.standard_probes() + list(reqs)
    here = [refproc.probe(r) for r in reqs]
    env = dict(os.environ)
    there = []
    for q in reqs:          # every probe in a process of its own: a probe must not see what an earlier probe left behind
        r = subprocess.run([sys.executable, os.path.join(os.path.dirname(os.path.abspath(refproc.__file__)), "refproc.py")],
                           input=json.dumps([q]), capture_output=True, text=True, timeout=300, env=env)
        if r.returncode != 0:
            return f"the clean-process reference could not be computed: {r.stderr[-300:]}"
        there.append(json.loads(r.stdout)[0])
    for k, (a, b) in enumerate(zip(here, there)):
        if a != b:
            d = first_diff(b, a, "probe%d" % k)
            return f"inspection results in this process differ from a fresh process ({str(d)[:300]})"
    return None


class InspectRv(Slice):
    name = "inspect-rv"

    def gen(self, rng, index, tier):
        prog = gen_rv.gen_program(rng, maxlen=16, aligned_only=rng.random() < 0.8)
        dc = gen_rv.gen_cache_cfg(rng) if rng.random() < 0.7 else []
        ic = gen_rv.gen_cache_cfg(rng) if rng.random() < 0.5 else []
        return {"spec": gen_rv.gen_state_spec(rng, prog, dc, ic), "five": rng.random() < 0.5, "hz": rng.random() < 0.8,
                "seed": rng.getrandbits(32), "steps": rng.choice([5, 20, 80])}

    def run(self, case, model):
        from architecture_simulator.simulation.runtime_errors import InstructionExecutionException
        spec, five = case["spec"], case["five"]
        mode = "five_stage_pipeline" if five else "single_stage_pipeline"
        a = make_sim(spec, mode, case["hz"])
        b = make_sim(spec, mode, case["hz"])
        names = getters_of(a, five)
        rng = random.Random(case["seed"])
        findings, cl = [], set()
        snap = lambda s: c13.full_snapshot(s, five)
        n = 0
        trace_a = [obs_state(a) + (pipe_extra(a) if five else [])]
        ended = None
        changed = None
        for k in range(case["steps"]):
            g0 = global_state_digest()
            for _ in range(rng.choice([0, 1, 3, 8])):
                nm = rng.choice(names)
                try:
                    getattr(a, nm)()
                except Exception as e:
                    findings.append(("disagreement", f"inspection function {nm}() raised {type(e).__name__}: {e}"))
            changed = changed or global_state_diff(g0, global_state_digest())
            sa, sb = snap(a), snap(b)
            if sa != sb:
                findings.append(("violation", f"after {k} steps: state with inspection calls differs: {first_diff(sb, sa, 'snapshot')}"))
                break
            if a.is_done() != b.is_done():
                findings.append(("violation", "is_done differs"))
                break
            if b.is_done():
                ended = [0]
                break
            ra = rb = None
            try:
                ra = a.step()
            except InstructionExecutionException as e:
                ra = ("fault", e.address, e.instruction_repr)
            try:
                rb = b.step()
            except InstructionExecutionException as e:
                rb = ("fault", e.address, e.instruction_repr)
            if ra != rb:
                findings.append(("violation", f"step {k}: result with inspection {ra} without {rb}"))
                break
            n += 1
            if isinstance(ra, tuple):
                ended = [1]
                break
            trace_a.append(obs_state(a) + (pipe_extra(a) if five else []))
        if not findings:
            g0 = global_state_digest()
            ia, ib = call_all(a, names), call_all(b, names)
            changed = changed or global_state_diff(g0, global_state_digest())
            if ia != ib:
                k = next(x for x in names if ia[x] != ib[x])
                findings.append(("violation", f"final inspection result {k}() differs between the inspected and the uninspected run"))
            # repeated inspection is stable
            if call_all(a, names) != ia:
                findings.append(("violation", "calling the inspection functions twice gives different results"))
            if snap(a) != snap(b):
                findings.append(("violation", "final inspection calls changed the state"))
        # model: the erased sequence
        if not findings:
            mt = model.call([2 if five else 1, spec, len(trace_a) - 1] + ([1 if case["hz"] else 0] if five else []))
            names_cmp = ["regs", "mem", "out", "exit", "icount", "bcount", "pcount", "cycles", "stalls", "flushes", "dstats", "istats", "pc"]
            for k in range(min(len(trace_a), len(mt) - 1)):
                if len(mt[k]) < 8:
                    break
                mo = norm_model_state(mt[k][:8]) + list(mt[k][8:])
                d = first_diff(view(trace_a[k], names_cmp), view(mo, names_cmp), f"step{k}")
                if d:
                    findings.append(("disagreement", "inspected implementation run vs model run of the erased sequence: " + d))
                    break
        if changed and not findings:
            cl.add("global-state-touched")
            v = clean_process_verdict([{"kind": "rv", "spec": spec, "five": five, "hz": case["hz"], "steps": case["steps"]}])
            if v:
                findings.append(("violation", f"an inspection call changed process-global state ({changed}) and {v}"))
        if n >= 3:
            cl.add("steps>=3")
        cl.add("five" if five else "single")
        if spec[3]:
            cl.add("dcache")
        if spec[4]:
            cl.add("icache")
        return findings[:3], cl

    def nontrivial(self, classes):
        return "steps>=3" in classes and ("dcache" in classes or "icache" in classes)

    def shrink(self, case):
        for s in gen_rv.shrink_spec(case["spec"]):
            yield dict(case, spec=s)

    def describe(self, case):
        return {"program": gen_rv.program_text(case["spec"][0]), "regs": case["spec"][1], "mem": case["spec"][2],
                "dcache": case["spec"][3], "icache": case["spec"][4], "mode": "five" if case["five"] else "single", "hazards": case["hz"]}

    def required_classes(self, tier):
        return ["five", "single", "dcache", "icache", "steps>=3"]


class InspectLoad(Slice):
    """inspection at ANY moment of the life cycle: on the fresh simulation before a program is loaded, between two loads,
    between steps (RISC-V and TOY through load_program)"""
    name = "inspect-lifecycle"

    def gen(self, rng, index, tier):
        toy = rng.random() < 0.35
        texts = [c13.gen_toy_text(rng) if toy else c13.gen_text(rng)[0] for _ in range(rng.choice([1, 1, 2]))]
        return {"toy": toy, "texts": texts, "five": rng.random() < 0.5, "seed": rng.getrandbits(32), "steps": rng.choice([3, 10, 40]),
                "dc": gen_rv.gen_cache_cfg(rng) if rng.random() < 0.3 else [], "ic": gen_rv.gen_cache_cfg(rng) if rng.random() < 0.3 else []}

    def run(self, case, model):
        rng = random.Random(case["seed"])
        toy, five = case["toy"], case["five"] and not case["toy"]
        if toy:
            from architecture_simulator.simulation.toy_simulation import ToySimulation
            a, b = ToySimulation(), ToySimulation()
            snap = lambda s: T.obs_toy(s, False)
        else:
            a, b = c13.new_sim(case), c13.new_sim(case)
            snap = lambda s: c13.full_snapshot(s, five)
        names = getters_of(a, five)
        findings, cl = [], {"toy" if toy else "rv"}

        def inspect_batch(k):
            for _ in range(k):
                nm = rng.choice(names)
                try:
                    getattr(a, nm)()
                except Exception as e:
                    findings.append(("disagreement", f"inspection function {nm}() raised {type(e).__name__}: {e}"))
        for t in case["texts"]:
            k = rng.choice([0, 2, 5])
            inspect_batch(k)
            if k:
                cl.add("inspected-before-load")
            ra = rb = None
            try:
                a.load_program(t)
            except Exception as e:
                ra = type(e).__name__
            try:
                b.load_program(t)
            except Exception as e:
                rb = type(e).__name__
            if ra != rb:
                findings.append(("violation", f"load_program after inspection calls ends with {ra}, without them {rb}"))
                return findings, cl
        if ra is not None:
            return findings, cl
        n = 0
        for k in range(case["steps"]):
            inspect_batch(rng.choice([0, 1, 4]))
            if snap(a) != snap(b):
                findings.append(("violation", f"after {k} steps: state with inspection calls differs: {first_diff(snap(b), snap(a), 'snapshot')}"))
                break
            if a.is_done() != b.is_done():
                findings.append(("violation", f"after {k} steps: is_done() is {a.is_done()} with inspection calls, {b.is_done()} without"))
                break
            if b.is_done():
                break
            ea = eb = None
            try:
                a.step()
            except Exception as e:
                ea = type(e).__name__
            try:
                b.step()
            except Exception as e:
                eb = type(e).__name__
            if ea != eb:
                findings.append(("violation", f"step {k}: with inspection calls {ea}, without {eb}"))
                break
            if ea:
                break
            n += 1
        if n >= 2:
            cl.add("steps>=2")
        return findings[:3], cl

    def nontrivial(self, classes):
        return "steps>=2" in classes

    def required_classes(self, tier):
        return ["toy", "rv", "inspected-before-load", "steps>=2"]


class InspectToy(Slice):
    name = "inspect-toy"

    def gen(self, rng, index, tier):
        if rng.random() < 0.5:
            # branchy image: taken and not-taken BRZ, cycle by cycle, so that inspections fall between the two cycles of both kinds
            n = rng.randrange(3, 10)
            prog = []
            for i in range(n):
                r = rng.random()
                if r < 0.35:
                    prog.append(T.enc(2, rng.randrange(i + 1, n + 1)))          # BRZ forward
                elif r < 0.6:
                    prog.append(T.enc(rng.choice([8, 9, 10, 11]), 0))            # ZRO / INC / DEC / NOT
                else:
                    prog.append(T.enc(rng.choice([1, 3, 4, 0]), 100 + rng.randrange(4)))
            mem = [[i, w] for i, w in enumerate(prog)] + [[100 + k, rng.choice([0, 1, 0xFFFF])] for k in range(4)]
            spec = [4096, mem, rng.choice([0, 0, 1, 0xFFFF]), 1, [prog[0]], [n - 1]]
            return {"spec": spec, "ops": [rng.choice([3, 3, 3, 0, 1, 2]) for _ in range(rng.randrange(4, 30))], "seed": rng.getrandbits(32)}
        return {"spec": T.gen_toy_image(rng, maxlen=8), "ops": [rng.choice([0, 3, 3, 3]) for _ in range(rng.randrange(2, 30))], "seed": rng.getrandbits(32)}

    def run(self, case, model):
        a, b = T.make_toy(case["spec"]), T.make_toy(case["spec"])
        names = getters_of(a, False)
        rng = random.Random(case["seed"])
        findings = []
        changed = None
        for k, op in enumerate(case["ops"]):
            g0 = global_state_digest()
            for _ in range(rng.choice([0, 2, 6])):
                nm = rng.choice(names)
                try:
                    getattr(a, nm)()
                except Exception as e:
                    findings.append(("disagreement", f"TOY inspection function {nm}() raised {type(e).__name__}"))
            changed = changed or global_state_diff(g0, global_state_digest())
            oa, ob = T.apply_impl(a, op), T.apply_impl(b, op)
            if oa != ob or T.obs_toy(a, False) != T.obs_toy(b, False):
                findings.append(("violation", f"TOY: call {k} behaves differently after inspection calls"))
                break
        g0 = global_state_digest()
        if not findings and call_all(a, names) != call_all(b, names):
            findings.append(("violation", "TOY: final inspection results differ"))
        changed = changed or global_state_diff(g0, global_state_digest())
        if changed and not findings:
            v = clean_process_verdict([{"kind": "toy", "spec": case["spec"], "ops": case["ops"]}])
            if v:
                findings.append(("violation", f"TOY: an inspection call changed process-global state ({changed}) and {v}"))
        return findings[:3], {"ops>=3"} if len(case["ops"]) >= 3 else set()

    def nontrivial(self, classes):
        return "ops>=3" in classes

    def required_classes(self, tier):
        return ["ops>=3"]


def slices():
    return [InspectRv(), InspectToy(), InspectLoad()]


BUDGET = {"quick": {"inspect-rv": 500, "inspect-toy": 300, "inspect-lifecycle": 400},
          "thorough": {"inspect-rv": 15000, "inspect-toy": 8000, "inspect-lifecycle": 10000}}
