#!/venv/bin/python
"""seed_import.py <ID> — copies a sub-agent's results /tmp/mut/<ID>/out/m<k>.{diff,json}, m<k>_demo.py into
/verif/seeded/<ID>-m<k>/ after confirming on a scratch worktree that the patch applies, the baseline tests
pass with it, and the demonstration fails with it and passes without it."""
import json, subprocess, sys, os, shutil
from pathlib import Path

def sh(cmd, cwd=None, env=None, timeout=1800):
    r = subprocess.run(cmd, shell=True, cwd=cwd, capture_output=True, text=True, timeout=timeout, env=env)
    return r.returncode, r.stdout + r.stderr

def main(pid, only=None):
    src = Path(f"/tmp/mut/{pid}/out")
    wt = Path(f"/tmp/mut/{pid}")
    env = dict(os.environ, PYTHONPATH=str(wt), PYTHONHASHSEED="0")
    for diff in sorted(src.glob("m*.diff")):
        k = diff.stem
        if only and k not in only:
            continue
        demo = src / f"{k}_demo.py"
        meta = json.loads((src / f"{k}.json").read_text()) if (src / f"{k}.json").exists() else {}
        sh("git checkout -- .", wt)
        rc0, out0 = sh(f"/venv/bin/python {demo}", wt, env)
        rc, out = sh(f"git apply {diff}", wt)
        if rc != 0:
            print(pid, k, "does not apply", out[:200]); continue
        rc1, out1 = sh(f"/venv/bin/python {demo}", wt, env)
        rct, outt = sh("/venv/bin/python -m pytest -q -p no:cacheprovider --timeout=900 2>&1 | tail -1", wt, env)
        sh("git checkout -- .", wt)
        ok = rc0 == 0 and rc1 != 0 and " passed" in outt and "failed" not in outt
        print(pid, k, "demo without:", rc0, "with:", rc1, "tests:", outt.strip(), "=> KEEP" if ok else "=> REJECT")
        if not ok:
            continue
        dst = Path(f"/verif/seeded/{pid}-{k}")
        dst.mkdir(parents=True, exist_ok=True)
        shutil.copy(diff, dst / "patch.diff")
        shutil.copy(demo, dst / "demo.py")
        meta_out = {"property": pid, "summary": meta.get("summary"), "needs_to_manifest": meta.get("needs_to_manifest"),
                    "files_changed": meta.get("files_changed"),
                    "confirmed": {"patch_applies": True, "baseline_tests_with_change": outt.strip(),
                                  "demo_exit_without_change": rc0, "demo_exit_with_change": rc1,
                                  "how": f"scratch worktree /tmp/mut/{pid}: git apply; pytest; demo with PYTHONPATH=worktree; git checkout -- ."}}
        (dst / "meta.json").write_text(json.dumps(meta_out, indent=1))

if __name__ == "__main__":
    # usage: seed_import.py C04 C05:m5,m6
    for p in sys.argv[1:]:
        if ":" in p:
            pid, ks = p.split(":")
            main(pid, set(ks.split(",")))
        else:
            main(p)
