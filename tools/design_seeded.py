#!/venv/bin/python
"""design_seeded.py — regenerates section 11 of DESIGN.md (between the SEEDED markers) from
/verif/seeded/*/meta.json and /verif/seeded/results.json."""
import json, re
from pathlib import Path

NOTES = {   # seeded changes that the checks missed when first evaluated, and what was strengthened
    "C06-m1": "missed at first (needs an instruction that is executed, overwritten by STO, executed again at the LAST program address); added the directed revisit-after-store family to the TOY image generator",
    "C10-m2": "missed at first (policy classes untouched; one policy object shared by all sets of a cache); added slice policy-in-cache: per-set victims inside multi-set caches against each set's own history",
    "C17-m1": "missed at first (stale table cache survives reset(); needs store, inspect, reload, inspect); added slice tables-history: tables vs backing store along load/step/inspect histories",
    "C15-m2": "missed at first (UnicodeEncodeError for a non-ASCII .string); non-ASCII strings added to the program generator and to the injected faults",
    "C11-m2": "missed at first (needs a hit during the warm-up of a >=4-way PLRU set, then a return to the first block); added the threaded-code generator that produces arbitrary fetch-block sequences",
    "C12-m2": "missed at first (dirty state survives reset(); needs allocation, reset, miss into the same way); reset() added as an operation of the cache histories (model, implementation, references)",
    "C03-m3": "missed at first (a flush hidden in the memory VIEW clears dirty bits, then a store hit, an eviction and a re-read); inspection calls added as an operation of the cache histories",
    "C08-m3": "missed at first by C08 (stall survives a flush when an ecall sits directly behind a jump; needs ecall adjacency); C08 got the exhaustive hazard alphabet with the flag off, generators got bare ecalls",
    "C08-m4": "missed at first by C08 (ecall drains only behind register-writing predecessors: store; store; ecall); same strengthening as C08-m3",
    "C11-m4": "missed at first (reset() rebuilds the cache with the wrong policy after a run); added slice icache-history: fetch histories with reset+reload against the model and a fresh cache",
    "C13-m3": "missed at first (.string terminator written through the cache: counters/cycles footprint survives a reload); lifecycle texts now contain all data kinds, C04 compares counters after load with a data cache",
    "C13-m4": "missed at first (TOY load keeps the old state after a late-failing or instruction-less load); TOY lifecycle loads now vary data sizes, fail late, or have no instructions",
    "C16-m4": "missed at first (table rows cached per word, dropped by the unwrapped address; needs five-stage + negative effective address + inspect between two stores); generators now emit top-of-memory accesses through x0 and repeated stores to hot locations",
    "C02-m3": "missed at first by C02 (five-stage stores bypass an enabled data cache); C02's random mode comparison now also runs with caches (C03/C09 program slices catch it too)",
    "C02-m4": "missed at first (a canonical nop treated as a bubble by the ecall drain: instr; nop; printing ecall prints twice); the canonical nop joined the exhaustive hazard alphabet and the ALU generator",
    "C15-m3": "missed at first (tokenisation cache keyed by line text keeps a stale line number across loads on one simulation object); the error streams now also load every text into a long-lived simulation object after a related earlier load",
    "C15-m4": "missed at first (catastrophic regular expression: load never terminates); pathological comment/quote lines added and a process-level watchdog reports non-terminating cases",
    "C04-m2": "missed at first (parser object reused across loads keeps the label table); C04 now assembles every text a second time on the same simulation (C13's reload check caught the twin C13-m1 from the start)",
}

def main():
    seeded = Path("/verif/seeded")
    res = json.loads((seeded / "results.json").read_text()) if (seeded / "results.json").exists() else {}
    rows = []
    for d in sorted(p for p in seeded.iterdir() if p.is_dir() and (p / "meta.json").exists()):
        m = json.loads((d / "meta.json").read_text())
        r = res.get(d.name, {})
        caught = []
        for p, v in (r.get("checks") or {}).items():
            if v.get("exit"):
                sl = v.get("replay_slice") or ""
                kind = v.get("replay_kind") or ""
                tag = "direct" if kind.startswith("property") else ("model≠impl" if "correspondence" in kind else kind)
                caught.append(f"{p}: {sl} ({tag})")
        summ = (m.get("summary") or "").replace("|", "/").replace("\n", " ")
        summ = summ[:230] + ("…" if len(summ) > 230 else "")
        need = (m.get("needs_to_manifest") or "").replace("|", "/").replace("\n", " ")
        need = need[:200] + ("…" if len(need) > 200 else "")
        status = "; ".join(caught) if caught else ("NOT CAUGHT" if r else "not evaluated")
        note = NOTES.get(d.name, "")
        rows.append(f"| `{d.name}` | {m['property']} | {summ} | {need} | {status}{(' — ' + note) if note else ''} |")
    n = len(rows)
    ncaught = sum(1 for d in res.values() if d.get("caught"))
    txt = ("## 11. Seeded changes: which checks catch which\n\n"
           "Fresh sub-agents were given ONLY the text of one property and a scratch git worktree of /repo and asked for realistic\n"
           "changes that break the property, keep all 242 tests green and need something specific to manifest (round 2 asked for\n"
           "changes that additionally need a COMBINATION of features).  Every change kept below was confirmed on a scratch worktree\n"
           "(patch applies, tests pass with it, demonstration fails with it and passes without it) and then evaluated with\n"
           "`tools/seed_eval.py`: apply to /repo, run the property's registered quick check, undo.  Column 'caught by' names the\n"
           "slice of the first replay: 'direct' = the property evaluated on the implementation alone, 'model≠impl' = the\n"
           "correspondence with the proved model.  Changes that were missed when first evaluated led to the strengthening noted;\n"
           "no check was loosened.  `seeded/<name>/` holds patch.diff, demo.py, meta.json; `seeded/results.json` the raw results.\n\n"
           f"Currently {ncaught} of {len(res)} evaluated changes are caught by the quick check of their own property.\n\n"
           "| change | prop | what it does | needs | caught by |\n|---|---|---|---|---|\n" + "\n".join(rows) + "\n\n"
           "---------------------------------------------------------------------------------------------------\n\n")
    p = Path("/verif/DESIGN.md")
    s = p.read_text()
    if "<!-- SEEDED-BEGIN -->" in s:
        s = re.sub(r"<!-- SEEDED-BEGIN -->.*<!-- SEEDED-END -->\n", "<!-- SEEDED-BEGIN -->\n" + txt + "<!-- SEEDED-END -->\n", s, flags=re.S)
    else:
        s = s.replace("## Appendix A", "<!-- SEEDED-BEGIN -->\n" + txt + "<!-- SEEDED-END -->\n## Appendix A", 1)
    p.write_text(s)
    print("section 11:", n, "changes,", ncaught, "caught of", len(res), "evaluated")

if __name__ == "__main__":
    main()
