#!/venv/bin/python
"""design_seeded.py — regenerates section 11 of DESIGN.md (between the SEEDED markers) from
/verif/seeded/*/meta.json and /verif/seeded/results.json."""
import json, re, re
from pathlib import Path

NOTES = {   # seeded changes that the checks missed when first evaluated, and what was strengthened
    "C06-m1": "missed at first (needs an instruction that is executed, overwritten by STO, executed again at the LAST program address); added the directed revisit-after-store family to the TOY image generator",
    "C10-m2": "missed at first (policy classes untouched; one policy object shared by all sets of a cache); added slice policy-in-cache: per-set victims inside multi-set caches against each set's own history",
    "C17-m1": "missed at first (stale table cache survives reset(); needs store, inspect, reload, inspect); added slice tables-history: tables vs backing store along load/step/inspect histories",
    "C15-m2": "missed at first (UnicodeEncodeError for a non-ASCII .string); non-ASCII strings added to the program generator and to the injected faults",
    "C11-m2": "missed at first (needs a hit during the warm-up of a >=4-way PLRU set, then a return to the first block); added the threaded-code generator that produces arbitrary fetch-block sequences",
    "C12-m2": "missed at first (dirty state survives reset(); needs allocation, reset, miss into the same way); reset() added as an operation of the cache histories (model, implementation, references)",
    "C01-m5": "round 3; missed at first (print-string ecall truncates at byte 0x80): string bytes now come from a boundary set (0x7F, 0x80, 0x81, 0xFF)",
    "C01-m6": "round 3; run() gives up after 10^6 cycles: a life-cycle matter — C13 got the slice long-run (a 1.02 million cycle countdown through run()); C01 itself only uses step()",
    "C03-m6": "round 3; missed at first (print-string ecall reads the backing store, not the cache): programs now store characters and print them (itoa style)",
    "C04-m5": "round 3; missed at first (tokenisation cache shared by the RISC-V and TOY parsers): 10% of the cases let the OTHER ISA's parser see the same lines first in the same process",
    "C04-m6": "round 3; missed at first (label-form jal rejected beyond 4 KiB): one case in 40 is a FAR program (jal across > 1024 instructions, both directions)",
    "C05-m5": "round 3; detection was seed-dependent (stale dirty blocks survive reset): the element checks now also run on a simulation that has RUN another program with a tiny write-back cache, and verify every declared byte afterwards",
    "C05-m6": "round 3; missed at first (element offset folded into a 12-bit immediate): long variables whose element offsets cross 2047/2048 and 4095/4096",
    "C06-m5": "round 3; reload without a step in between keeps the old image: a life-cycle matter, caught by C13 (reload = fresh); C06 itself starts from images",
    "C06-m6": "round 3; missed at first (one instruction object per opcode shared by all simulations): a second live simulation is stepped between the operations of the observed one (C01, C02, C06)",
    "C07-m6": "round 3; the D1 defect re-introduced: jalr with a base at the top of the 32-bit range now appears in every random program generator",
    "C08-m5": "round 3; a reload in mid-run silently switches hazard detection back on: RISC-V life-cycle cases now carry the hazard flag and reload in mid-run (caught by C13 as a model/implementation disagreement)",
    "C08-m6": "round 3; caught by the cycle-by-cycle correspondence only (a taken self-branch hangs the reference interpreter, so no direct witness)",
    "C09-m6": "round 3; missed at first (reset() skipped while the counters are still zero): histories may begin with a quiet first life of uncounted reads followed by reset()",
    "C10-m5": "round 3; missed at first (reset() keeps the policy state): reset() inside the per-set policy histories, followed by a check of the initial state",
    "C11-m5": "round 3; missed at first (penalty of a completed fetch dropped when the same step faults): the per-step law cycles = 1 + penalty x misses is checked up to and including the faulting step, on programs that may fault",
    "C11-m6": "round 3; missed at first (block fill stops at the first empty word): slice icache-images — instruction memories that do not start at a block boundary or have gaps inside a block",
    "C13-m5": "round 3; missed at first (has_started derived from the cycle counter): TOY life cycles with loads between whole steps, half steps and single cycles; a simulation that says it has not started must equal a fresh one",
    "C13-m6": "round 3; missed at first (run() repairs next_cycle after an exception, step() does not): TOY simulations with 8/12/16-word memories whose runs fault; run() vs step() compared including the exception",
    "C14-m5": "round 3; missed at first (listing cache survives write_instruction of the same mnemonic): every printing surface is read again after the stored instruction has been replaced",
    "C14-m6": "round 3; missed at first (CLI listing truncates at 20 characters): all places that print an instruction (instruction memory, entries, CLI listing / status line / pipeline view, pipeline register) must denote it",
    "C15-m5": "round 3; missed at first (a cached store to an unmapped address faults later, at another instruction): run-time fault programs now run with data caches and must blame the same instruction as without",
    "C15-m6": "round 3; missed at first (a derived decimal text exceeds Python's digit limit): literals of 3600+ hex / 14000+ binary digits for li, la, .word, indices",
    "C16-m5": "round 3; missed at first (an inspection edits a class-level table; both compared runs are polluted alike): every inspection batch is bracketed by a digest of all module- and class-level containers of the package; on a change the probes are re-evaluated in a fresh process",
    "C16-m6": "round 3; missed at first (is_done() before load_program latches 'finished'): slice inspect-lifecycle inspects fresh simulations before and between loads",
    "C17-m6": "round 3; missed at first (zero words hidden from the memory table under a write-back cache): the table histories now run with data caches",
    "C18-m5": "round 3; missed at first (one-entry read memo survives reset()): reset() inside memory histories, followed by a repetition of the last access",
    "C18-m6": "round 3; missed at first (only the last cell of a multi-cell read is range-checked on no-wrap memories): 2- and 4-cell accesses on the TOY memory starting below 0",
    "C05-m8": "round 4; missed at first (.string delimiters removed with strip of the double quotes instead of [1:-1]: needs a single-quoted literal or a body that begins / ends with a quote character): the data generator now writes every literal form pp.quoted_string admits (either quote character, the other quote inside, the own quote escaped or doubled, backslash pairs, at the ends of the body as well)",
    "C03-m3": "missed at first (a flush hidden in the memory VIEW clears dirty bits, then a store hit, an eviction and a re-read); inspection calls added as an operation of the cache histories",
    "C08-m3": "missed at first by C08 (stall survives a flush when an ecall sits directly behind a jump; needs ecall adjacency); C08 got the exhaustive hazard alphabet with the flag off, generators got bare ecalls",
    "C08-m4": "missed at first by C08 (ecall drains only behind register-writing predecessors: store; store; ecall); same strengthening as C08-m3",
    "C11-m4": "missed at first (reset() rebuilds the cache with the wrong policy after a run); added slice icache-history: fetch histories with reset+reload against the model and a fresh cache",
    "C13-m3": "missed at first (.string terminator written through the cache: counters/cycles footprint survives a reload); lifecycle texts now contain all data kinds, C04 compares counters after load with a data cache",
    "C13-m4": "missed at first (TOY load keeps the old state after a late-failing or instruction-less load); TOY lifecycle loads now vary data sizes, fail late, or have no instructions",
    "C16-m4": "missed at first (table rows cached per word, dropped by the unwrapped address; needs five-stage + negative effective address + inspect between two stores); generators now emit top-of-memory accesses through x0 and repeated stores to hot locations",
    "C02-m3": "missed at first by C02 (five-stage stores bypass an enabled data cache); C02's random mode comparison now also runs with caches (C03/C09 program slices catch it too)",
    "C02-m4": "missed at first (a canonical nop treated as a bubble by the ecall drain: instr; nop; printing ecall prints twice); the canonical nop joined the exhaustive hazard alphabet and the ALU generator",
    "C15-m3": "missed at first (tokenisation cache keyed by line text keeps a stale line number across loads on one simulation object); the error streams now also load every text into a long-lived simulation object after a related earlier load",
    "C15-m4": "missed at first (catastrophic regular expression: load never terminates); pathological comment/quote lines added and a process-level watchdog reports non-terminating cases",
    "C04-m2": "missed at first (parser object reused across loads keeps the label table); C04 now assembles every text a second time on the same simulation (C13's reload check caught the twin C13-m1 from the start)",
}

def _clean(t):
    return re.sub(r'[\x00-\x08\x0b\x0c\x0e-\x1f]', lambda m: '\\x%02x' % ord(m.group()), str(t))


def main():
    seeded = Path("/verif/seeded")
    res = json.loads((seeded / "results.json").read_text()) if (seeded / "results.json").exists() else {}
    rows = []
    for d in sorted(p for p in seeded.iterdir() if p.is_dir() and (p / "meta.json").exists()):
        m = json.loads((d / "meta.json").read_text())
        r = res.get(d.name, {})
        caught = []
        for p, v in (r.get("checks") or {}).items():
            if v.get("exit"):
                sl = v.get("replay_slice") or ""
                kind = v.get("replay_kind") or ""
                tag = "direct" if kind.startswith("property") else ("model≠impl" if "correspondence" in kind else kind)
                caught.append(f"{p}: {sl} ({tag})")
        summ = _clean((m.get("summary") or "").replace("|", "/").replace("\n", " "))
        summ = summ[:230] + ("…" if len(summ) > 230 else "")
        need = _clean((m.get("needs_to_manifest") or "").replace("|", "/").replace("\n", " "))
        need = need[:200] + ("…" if len(need) > 200 else "")
        status = "; ".join(caught) if caught else ("NOT CAUGHT" if r else "not evaluated")
        note = NOTES.get(d.name, "")
        rows.append(f"| `{d.name}` | {m['property']} | {summ} | {need} | {status}{(' — ' + note) if note else ''} |")
    n = len(rows)
    ncaught = sum(1 for d in res.values() if d.get("caught"))
    txt = ("## 11. Seeded changes: which checks catch which\n\n"
           "Fresh sub-agents were given ONLY the text of one property and a scratch git worktree of /repo and asked for realistic\n"
           "changes that break the property, keep all 242 tests green and need something specific to manifest (rounds 2-4 asked for\n"
           "changes that additionally need a COMBINATION of features).  Every change kept below was confirmed on a scratch worktree\n"
           "(patch applies, tests pass with it, demonstration fails with it and passes without it) and then evaluated with\n"
           "`tools/seed_eval.py`: apply to /repo, run the property's registered quick check, undo.  Column 'caught by' names the\n"
           "slice of the first replay: 'direct' = the property evaluated on the implementation alone, 'model≠impl' = the\n"
           "correspondence with the proved model.  Changes that were missed when first evaluated led to the strengthening noted;\n"
           "no check was loosened to catch or to miss a change (the audit-driven relaxations of section 13 were made independently and the 94 changes of rounds 1-3 were re-evaluated on /repo afterwards; the 16 changes of round 4 - C04, C05, C09, C10, C12, C14, C17, C19, two each - were evaluated with those final checks: 15 caught at once, C05-m8 after the generator extension noted in its row; a last batch of four single changes - C01-m7, C06-m7, C18-m7, C20-m7 - was caught at once).  `seeded/<name>/` holds patch.diff, demo.py, meta.json; `seeded/results.json` the raw results.\n\n"
           f"Currently {ncaught} of {len(res)} evaluated changes are caught by the quick check of their own property.\n\n"
           "| change | prop | what it does | needs | caught by |\n|---|---|---|---|---|\n" + "\n".join(rows) + "\n\n"
           "---------------------------------------------------------------------------------------------------\n\n")
    p = Path("/verif/DESIGN.md")
    s = p.read_text()
    if "<!-- SEEDED-BEGIN -->" in s:
        new_block = "<!-- SEEDED-BEGIN -->\n" + txt + "<!-- SEEDED-END -->\n"
        s = re.sub(r"<!-- SEEDED-BEGIN -->.*<!-- SEEDED-END -->\n", lambda m: new_block, s, flags=re.S)     # (a function: no escape processing)
    else:
        s = s.replace("## Appendix A", "<!-- SEEDED-BEGIN -->\n" + txt + "<!-- SEEDED-END -->\n## Appendix A", 1)
    p.write_text(s)
    print("section 11:", n, "changes,", ncaught, "caught of", len(res), "evaluated")

if __name__ == "__main__":
    main()
