#!/venv/bin/python
"""harmless_eval.py [name ...] — behaviour-preserving refactorings written by sub-agents (harmless/<ID>-h<k>/patch.diff):
apply to /repo, run the baseline tests and the quick check of every property that anchors a changed file, undo.
Expected: every check exits 0.  A check that reports a violation WITH a failing input on such a change raises a false alarm
and must be corrected; 'no-failing-input-found' (a generated-definition lemma or the model correspondence no longer checks
although no input violates the property) is the outcome the protocol foresees for a rewrite the tie cannot follow."""
import json, subprocess, sys, os
from pathlib import Path

H = Path("/verif/harmless")
REPO = "/repo"
ENV = dict(os.environ, PYTHONPATH="/repo", PYTHONHASHSEED="0")


def sh(cmd, cwd=None, timeout=7200):
    r = subprocess.run(cmd, shell=True, cwd=cwd, capture_output=True, text=True, timeout=timeout, env=ENV)
    return r.returncode, r.stdout + r.stderr


def anchored_props(files):
    out = []
    for l in open("/verif/properties.jsonl"):
        d = json.loads(l)
        if any(f in d["anchors"]["files"] for f in files):
            out.append(d["id"])
    return out


def main(argv):
    names = [a for a in argv if not a.startswith("--")]
    res_file = H / "results.json"
    results = json.loads(res_file.read_text()) if res_file.exists() else {}
    for d in sorted(p for p in H.iterdir() if p.is_dir() and (not names or p.name in names)):
        rc, out = sh("git status --porcelain", REPO)
        assert out.strip() == "", "/repo is not clean"
        rc, out = sh(f"git apply {d / 'patch.diff'}", REPO)
        if rc != 0:
            print(d.name, "does not apply", out[:200]); continue
        try:
            rc, out = sh("git diff --name-only", REPO)
            files = out.split()
            meta = json.loads((d / "meta.json").read_text())
            props = sorted(set(anchored_props(files)) | {meta["property"]})
            rc, tests = sh("/venv/bin/python -m pytest -q -p no:cacheprovider --timeout=900 -x 2>&1 | tail -1", REPO)
            r = {"files": files, "tests": tests.strip(), "checks": {}}
            for p in props:
                rc, out = sh(f"./check {p}", "/verif")
                lines = [l for l in out.splitlines() if l.startswith(("VIOLATION", "OK "))]
                kind = "ok" if rc == 0 else ("no-failing-input-found" if all(l.endswith("no-failing-input-found") for l in lines if l.startswith("VIOLATION")) else "ALARM-WITH-INPUT")
                r["checks"][p] = {"exit": rc, "kind": kind, "lines": [l[:160] for l in lines[:3]]}
                for l in lines:
                    if l.startswith("VIOLATION") and "replay=" in l:
                        try:
                            rj = json.loads(Path(l.split("replay=")[1].split()[0]).read_text())
                            r["checks"][p]["replay"] = {k: str(rj.get(k))[:400] for k in ("kind", "slice_or_theorem", "detail", "problems", "broken_generated_lemmas")}
                        except Exception:
                            pass
                        break
            results[d.name] = r
            print(d.name, {p: v["kind"] for p, v in r["checks"].items()}, r["tests"][:30])
        finally:
            sh("git checkout -- .", REPO)
            sh("git clean -fdq architecture_simulator", REPO)
        res_file.write_text(json.dumps(results, indent=1))


if __name__ == "__main__":
    main(sys.argv[1:])
