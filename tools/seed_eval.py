#!/venv/bin/python
"""seed_eval.py — applies each seeded change under /verif/seeded/<name>/patch.diff to /repo, runs the
baseline tests, the demonstration and the registered quick checks, and undoes the change straight
afterwards.  Usage: tools/seed_eval.py [name ...] [--all-checks] [--no-tests]"""
import json, subprocess, sys, os, time
from pathlib import Path

SEEDED = Path("/verif/seeded")
REPO = "/repo"
ENV = dict(os.environ, PYTHONPATH="/repo", PYTHONHASHSEED="0")


def sh(cmd, cwd=None, timeout=3600, env=None):
    r = subprocess.run(cmd, shell=True, cwd=cwd, capture_output=True, text=True, timeout=timeout, env=env or ENV)
    return r.returncode, r.stdout + r.stderr


def clean():
    rc, out = sh("git status --porcelain", REPO)
    return out.strip() == ""


def main(argv):
    names = [a for a in argv if not a.startswith("--")]
    all_checks = "--all-checks" in argv
    no_tests = "--no-tests" in argv
    dirs = sorted(d for d in SEEDED.iterdir() if d.is_dir() and (d / "patch.diff").exists() and (not names or d.name in names))
    results = {}
    if (SEEDED / "results.json").exists():
        results = json.loads((SEEDED / "results.json").read_text())
    for d in dirs:
        meta = json.loads((d / "meta.json").read_text())
        prop = meta["property"]
        assert clean(), "/repo is not clean"
        rc, out = sh(f"git apply {d / 'patch.diff'}", REPO)
        if rc != 0:
            print(d.name, "patch does not apply:", out[:300])
            continue
        try:
            res = {"property": prop}
            if not no_tests:
                rc, out = sh("/venv/bin/python -m pytest -q -p no:cacheprovider --timeout=900 -x 2>&1 | tail -1", REPO)
                res["tests"] = out.strip()
            demo = next(iter(sorted(d.glob("demo*.py"))), None)
            if demo:
                rc, out = sh(f"/venv/bin/python {demo}", REPO, timeout=600)
                res["demo_fails_with_change"] = rc != 0
            props = [prop] + ([p for p in meta.get("also_check", [])]) if not all_checks else [f"C{i:02d}" for i in range(1, 21)]
            res["checks"] = {}
            for p in props:
                t0 = time.time()
                rc, out = sh(f"./check {p}", "/verif", timeout=3600)
                lines = [l for l in out.splitlines() if l.startswith(("VIOLATION", "KNOWN-FINDING", "OK "))]
                res["checks"][p] = {"exit": rc, "lines": lines[:4], "wall_s": round(time.time() - t0, 1)}
                # keep the first replay for the record
                for l in lines:
                    if l.startswith("VIOLATION") and "replay=" in l:
                        rp = l.split("replay=")[1].split()[0]
                        try:
                            rj = json.loads(Path(rp).read_text())
                            res["checks"][p]["replay_kind"] = rj.get("kind")
                            res["checks"][p]["replay_slice"] = rj.get("slice_or_theorem")
                            res["checks"][p]["replay_detail"] = str(rj.get("detail"))[:300]
                        except Exception:
                            pass
                        break
            res["caught"] = any(v["exit"] != 0 for v in res["checks"].values())
            results[d.name] = res
            print(d.name, "CAUGHT" if res["caught"] else "MISSED", {p: v["exit"] for p, v in res["checks"].items()},
                  "demo fails:", res.get("demo_fails_with_change"), res.get("tests", ""))
        finally:
            sh("git checkout -- .", REPO)
            assert clean()
    (SEEDED / "results.json").write_text(json.dumps(results, indent=1))


if __name__ == "__main__":
    main(sys.argv[1:])
