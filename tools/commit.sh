#!/bin/sh
# commit.sh "message" — stages everything except Coq sources that are not (yet) part of the build (_CoqProject):
# work-in-progress proof files of sub-agents stay out of the repository until they are integrated.
cd /verif
git add -A
for f in $(git ls-files coq/theories | grep '\.v$'); do
  grep -qx "${f#coq/}" coq/_CoqProject || git rm -q --cached "$f"
done
git commit -qm "$1"
git status --short | head -5
