#!/bin/sh
# wt_eval.sh <ID> <k> [check ids...] — EXPERIMENT helper: applies /tmp/mut/<ID>/out/m<k>.diff in the scratch worktree
# /tmp/mut/<ID> and runs the quick check(s) with the worktree on PYTHONPATH (the registered checks always use /repo;
# seeded changes are finally evaluated on /repo itself by tools/seed_eval.py).
ID=$1; K=$2; shift 2
CHECKS=${*:-$ID}
WT=/tmp/mut/$ID
git -C $WT checkout -q -- . && git -C $WT apply $WT/out/m$K.diff || { echo "apply failed"; exit 2; }
for c in $CHECKS; do
  (cd /verif && PYTHONPATH=$WT:/verif/harness PYTHONHASHSEED=0 VERIF_SCRATCH_OUT=/tmp/wt_out /venv/bin/python harness/main.py $c 2>&1 | grep -E "^(OK|VIOLATION|KNOWN)" | head -3)
done
git -C $WT checkout -q -- .
