#!/bin/sh
# build.sh — builds the Coq development (full .vo build), extracts the model, builds the OCaml
# driver and captures every Print Assumptions block.  Idempotent; a no-op when up to date.
set -e
cd /verif/coq
[ -f Makefile ] && [ Makefile -nt _CoqProject ] || coq_makefile -f _CoqProject -o Makefile >/dev/null
timeout 7000 make -j16 >/verif/coq/build.log 2>&1 || { tail -40 /verif/coq/build.log; echo "COQ BUILD FAILED"; exit 1; }
mkdir -p /verif/ocaml/gen /verif/coq/assumptions
if [ -f model.ml ]; then mv -f model.ml model.mli /verif/ocaml/gen/; fi
if [ ! -f /verif/ocaml/gen/model.ml ]; then
  rm -f theories/Extract.vo
  timeout 3000 make -j16 >>/verif/coq/build.log 2>&1 || { tail -40 /verif/coq/build.log; exit 1; }
  mv -f model.ml model.mli /verif/ocaml/gen/
fi
if [ ! -x /verif/ocaml/_build/driver ] || [ /verif/ocaml/gen/model.ml -nt /verif/ocaml/_build/driver ] \
   || [ /verif/ocaml/driver.ml -nt /verif/ocaml/_build/driver ]; then
  /verif/ocaml/build.sh
fi
for f in $(grep -o "theories/Props/C[0-9]*[A-Za-z]*\.v" _CoqProject); do
  [ -f "$f" ] || continue
  b=$(basename "$f" .v)
  if [ ! -f "assumptions/$b.txt" ] || [ "theories/Props/$b.vo" -nt "assumptions/$b.txt" ]; then
    timeout 900 coqc -Q theories ArchSim -w -notation-overridden "$f" > "assumptions/$b.txt.tmp" 2>&1 \
      && mv "assumptions/$b.txt.tmp" "assumptions/$b.txt" || { cat "assumptions/$b.txt.tmp"; exit 1; }
    touch "assumptions/$b.txt"
  fi
done
# translator tier: regenerate the generated definitions from /repo and check their equality lemmas (cached by content)
PYTHONPATH=/verif/harness /venv/bin/python /verif/harness/genleg.py >/verif/coq/gen/last_run.txt 2>&1 || true
echo "BUILD OK"
