import itertools, sys, multiprocessing as mp
from fuzz1 import run
ALPHA=["addi x1, x0, 1","addi x2, x1, 1","add x3, x1, x2","add x1, x2, x1","sw x1, 0(x5)","lw x2, 0(x5)","beq x1, x0, 8","bne x1, x0, 8","beq x0, x0, -4","jal x1, 8","jalr x0, x1, 0","ecall","addi x10, x10, 1","addi x17, x0, 10", "sw x2, 4(x2)"]
REGS=[{1:0,2:0,3:0,5:0x4000,10:65,17:11},{1:8,2:0x4000,3:0,5:0x4000,10:66,17:1}]
def work(prog_t):
    prog="\n".join(prog_t); out=[]
    for regs in REGS:
        a,_=run(prog,"single_stage_pipeline",regs,maxsteps=60)
        if a['timeout']: continue
        b,_=run(prog,"five_stage_pipeline",regs,maxsteps=600)
        if a['exc'] or b['exc']:
            for k in ('ic','bc','pc_'): a[k]=b[k]=None
        if a!=b: out.append((prog,regs,{k:(a[k],b[k]) for k in a if a[k]!=b[k]}))
    return out
if __name__=="__main__":
    L=int(sys.argv[1])
    progs=[p for l in range(1,L+1) for p in itertools.product(ALPHA,repeat=l)]
    print(len(progs))
    bad=0
    with mp.Pool(16) as pool:
        for res in pool.imap_unordered(work, progs, chunksize=64):
            for r in res:
                bad+=1
                if bad<=5: print(r)
    print("bad",bad)
