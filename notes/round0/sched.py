import random, sys, itertools
from architecture_simulator.simulation.riscv_simulation import RiscvSimulation
from architecture_simulator.isa.riscv.rv32i_instructions import ECALL
import fixedint
from fuzz2 import gen as gen2
from fuzz1 import gen as gen1

def single_trace(prog, regs, maxsteps=200):
    s=RiscvSimulation(mode="single_stage_pipeline"); s.load_program(prog)
    for k,v in regs.items(): s.state.register_file.registers[k]=fixedint.UInt32(v)
    tr=[]; n=0
    while not s.is_done() and n<maxsteps:
        pc=s.state.program_counter
        ins=s.state.instruction_memory.read_instruction(pc)
        bc0=s.state.performance_metrics.branch_count
        try: s.step()
        except Exception: return None
        n+=1
        a1,a2,_,_,_=(ins.access_register_file(s.state))[:5]
        srcs={x for x in (a1,a2) if x}  # drop None and 0
        dst=ins.get_write_register()
        redirect = (s.state.performance_metrics.branch_count!=bc0) or ins.mnemonic in ('jal','jalr')
        exits = s.state.exit_code is not None
        tr.append(dict(addr=pc,srcs=srcs,dst=dst,redirect=redirect or exits,ecall=isinstance(ins,ECALL)))
    if not s.is_done(): return None
    return tr
def schedule(tr, hz=True):
    D=[];X=[];M=[];W=[]
    for k,i in enumerate(tr):
        if k==0: d0=2
        else: d0 = M[k-1]+2 if tr[k-1]['redirect'] else D[k-1]+1
        d1=max(d0, X[k-1]) if k>0 else d0
        haz = hz and any(tr[j]['dst'] and tr[j]['dst'] in i['srcs'] and (X[j]==d1 or M[j]==d1) for j in range(k))
        d = d1+2 if haz else d1
        x0=d+1
        if i['ecall'] and any(M[j]==x0 or W[j]==x0 for j in range(k)): x=x0+2
        else: x=x0
        D.append(d);X.append(x);M.append(x+1);W.append(x+2)
    return W
def pipe_retire(prog, regs, hz=True, maxsteps=3000):
    s=RiscvSimulation(mode="five_stage_pipeline", detect_data_hazards=hz); s.load_program(prog)
    for k,v in regs.items(): s.state.register_file.registers[k]=fixedint.UInt32(v)
    out=[]; n=0
    while not s.is_done() and n<maxsteps:
        try: s.step()
        except Exception: return None,None
        n+=1
        a=s.state.pipeline.pipeline_registers[4].address_of_instruction
        if a is not None: out.append((a,s.state.performance_metrics.cycles))
    return out, s.state.performance_metrics.cycles
seed=int(sys.argv[1]); N=int(sys.argv[2]); r=random.Random(seed); bad=0; ok=0
for it in range(N):
    n=r.randint(1,12); prog=(gen2 if it%2 else gen1)(r,n)
    regs={1:r.choice([0,1,4,8]),2:r.choice([0,1,4]),3:r.choice([0,5]),4:r.choice([0,0x4000]),5:0x4000,10:r.choice([65,66,7]),17:r.choice([1,11,34,36,10,93,1,1])}
    tr=single_trace(prog,regs)
    if tr is None: continue
    W=schedule(tr)
    ret,cyc=pipe_retire(prog,regs)
    if ret is None: continue
    exp=[(i['addr'],w) for i,w in zip(tr,W)]
    tot = W[-1] if W else 0
    if exp!=ret or tot!=cyc:
        bad+=1
        if bad<=3: print("MISMATCH",it); print(prog); print(regs); print(exp, tot); print(ret, cyc)
    else: ok+=1
print("ok",ok,"bad",bad)
