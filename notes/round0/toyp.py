import random, sys
from architecture_simulator.simulation.toy_simulation import ToySimulation
from architecture_simulator.isa.toy.toy_instructions import ToyInstruction
from architecture_simulator.simulation.runtime_errors import StepSequenceError
from fixedint import UInt16
MN=["STO","LDA","BRZ","ADD","SUB","OR","AND","XOR","NOT","INC","DEC","ZRO","NOP"]
# C19: decode/encode over all words
bad=0
for w in range(65536):
    i=ToyInstruction.from_integer(w); op=w>>12; ad=w&0xFFF
    exp_op=op if op<=12 else 12
    if i.opcode!=exp_op or i.address!=ad or i.mnemonic!=MN[exp_op] or int(i)!=(exp_op<<12)+ad or ToyInstruction.from_integer(int(i))!=i: bad+=1
print("decode/encode bad",bad)
def ref_run(mem, max_pc, acc, maxn):
    mem=dict(mem); pc=0; n=0; bc=0
    while pc<=max_pc and n<maxn:
        w=mem.get(pc,0); op=w>>12; a=w&0xFFF; pc=(pc+1)%4096
        m=mem.get(a,0)
        if op==0: mem[a]=acc
        elif op==1: acc=m
        elif op==2:
            if acc==0: pc=a; bc+=1
        elif op==3: acc=(acc+m)&0xFFFF
        elif op==4: acc=(acc-m)&0xFFFF
        elif op==5: acc|=m
        elif op==6: acc&=m
        elif op==7: acc^=m
        elif op==8: acc=(~acc)&0xFFFF
        elif op==9: acc=(acc+1)&0xFFFF
        elif op==10: acc=(acc-1)&0xFFFF
        elif op==11: acc=0
        n+=1
    return mem,acc,pc,n,bc,(pc>max_pc)
def state(s):
    st=s.state; pm=st.performance_metrics
    return (int(st.accu), int(st.program_counter), dict(sorted((a,int(v)) for a,v in st.memory.memory_file.items())), None if st.loaded_instruction is None else int(st.loaded_instruction), st.address_of_current_instruction, st.address_of_next_instruction, s.next_cycle, pm.instruction_count, pm.cycles, pm.branch_count, str(st.visualisation_values), str(s.get_memory_table_entries()), str(s.get_toy_svg_update_values()))
r=random.Random(int(sys.argv[1])); bad=0
for it in range(int(sys.argv[2])):
    L=r.randint(1,10)
    words=[ (r.choice(range(16))<<12) | r.choice([0,1,2,3,4,5,L-1,L,L+1,4095,4094,100,101]) for _ in range(L)]
    data={100:r.choice([0,1,0xFFFF,0x8000,r.getrandbits(16)]),101:r.getrandbits(16),4095:r.getrandbits(16)}
    def mk():
        s=ToySimulation(); s.load_program("\n".join("NOP" for _ in range(L)))
        for a,w in enumerate(words): s.state.memory.write_halfword(a,UInt16(w))
        for a,w in data.items(): s.state.memory.write_halfword(a,UInt16(w))
        s.state.loaded_instruction=ToyInstruction.from_integer(words[0])
        return s
    a=mk(); n=0
    while not a.is_done() and n<200: a.step(); n+=1
    if n>=200: continue
    mem0={i:w for i,w in enumerate(words)}; mem0.update(data)
    mem,acc,pc,cnt,bc,halt=ref_run(mem0,L-1,0,1000)
    sa=state(a)
    got=(sa[0], (sa[1]-1)%4096, {k:v for k,v in sa[2].items()}, sa[7], sa[8], sa[9])
    exp=(acc, pc, {k:v for k,v in mem.items()}, cnt, 2*cnt, bc)
    # memory compare modulo zero entries
    z=lambda d:{k:v for k,v in d.items() if v}
    if (got[0],got[1],z(got[2]),got[3],got[4],got[5])!=(exp[0],exp[1],z(exp[2]),exp[3],exp[4],exp[5]):
        bad+=1
        if bad<4: print("TOY REF MISMATCH",words,data,got,exp)
    # C20: interleavings
    b=mk(); c=mk(); d=mk()
    for k in range(n):
        b.first_cycle_step(); 
        try: b.first_cycle_step(); bad+=1; print("no error on double first")
        except StepSequenceError: pass
        try: b.step(); bad+=1; print("no error on step mid")
        except StepSequenceError: pass
        b.second_cycle_step()
        if not b.is_done():
            snap=state(b)
            try: b.second_cycle_step(); bad+=1; print("no error on second at boundary")
            except StepSequenceError: pass
            if state(b)!=snap: bad+=1; print("state changed by rejected call")
        c.single_step(); c.single_step()
        d.step()
        if not (state(b)==state(c)==state(d)):
            bad+=1
            if bad<4: print("C20 MISMATCH at",k,words)
    if state(d)!=state(a): bad+=1; print("final mismatch")
    snap=state(d)
    d.step(); d.first_cycle_step(); d.second_cycle_step(); d.single_step(); d.run()
    if state(d)!=snap: bad+=1; print("not noop when done")
print("toy bad",bad)
