import random, sys
from architecture_simulator.uarch.memory.memory import Memory, AddressingType
from architecture_simulator.uarch.memory.write_through_memory_system import WriteThroughMemorySystem
from architecture_simulator.uarch.memory.write_back_memory_system import WriteBackMemorySystem
from architecture_simulator.uarch.riscv.riscv_performance_metrics import RiscvPerformanceMetrics
from fixedint import UInt8, UInt16, UInt32
W={1:("read_byte","write_byte",UInt8),2:("read_halfword","write_halfword",UInt16),4:("read_word","write_word",UInt32)}
def mkmem(): return Memory(AddressingType.BYTE, 32, True, range(2**14, 2**32))
def logical(c, a):
    # recompute from blocks + lower
    da=c._decode_address(a)
    s=c.cache.sets[da.cache_set_index]
    for b in s.blocks:
        if b.valid_bit and b.decoded_address.tag==da.tag:
            return (int(b.values[da.block_offset])>>(8*da.byte_offset))&0xFF
    return int(c.memory.read_byte(a))
r=random.Random(int(sys.argv[1])); bad=0; kinds={}
for it in range(int(sys.argv[2])):
    ib=r.choice([0,1,2]); bb=r.choice([0,1,2]); assoc=r.choice([1,2,4]); pol=r.choice(["wb","wt"]); rs=r.choice(["lru","plru"]); pen=r.choice([0,5])
    pm=RiscvPerformanceMetrics()
    cls=WriteBackMemorySystem if pol=="wb" else WriteThroughMemorySystem
    c=cls(mkmem(), ib, bb, assoc, pm, pen, rs); flat=mkmem()
    stride=4*(2**bb)*(2**ib)
    univ=[2**14 + k*stride + off for k in range(4) for off in range(0, 4*(2**bb)+4)] + [2**14-1, 2**14-4, 0, 2**32-4, 2**32-1, 2**32-2, -4, 2**32+2**14]
    for a in r.sample(univ,6):
        if a>=2**14 and a<2**32: 
            v=UInt8(r.getrandbits(8)); c.write_byte(a,v,directly_write_to_lower_memory=True); flat.write_byte(a,v)
    refhits=refacc=0; cyc0=pm.cycles
    for step in range(r.randint(1,60)):
        w=r.choice([1,2,4]); a=r.choice(univ); isw=r.random()<0.5; counted=r.random()<0.8
        rd,wr,ty=W[w]
        au=a%2**32
        cross = (au%4)+w>4
        if pol=="wt" and isw and cross: continue   # known defect D5: skip
        before=dict((x,logical(c,x)) for x in univ if 2**14<=x%2**32)
        h0,a0,cy0=c.hits,c.accesses,pm.cycles
        try:
            if isw:
                v=ty(r.getrandbits(8*w)); getattr(c,wr)(a,v); res=("ok",None)
            else:
                res=("ok",int(getattr(c,rd)(a,update_statistics=counted)))
        except Exception as e: res=("err",type(e).__name__)
        try:
            if isw: getattr(flat,wr)(a,v); fres=("ok",None)
            else: fres=("ok",int(getattr(flat,rd)(a)))
        except Exception as e: fres=("err",type(e).__name__)
        kinds[(pol,isw,res[0],cross)]=kinds.get((pol,isw,res[0],cross),0)+1
        if cross:
            if res[0]!="err": bad+=1; print("cross-word accepted",pol,isw,w,hex(a))
            # rejected: logical unchanged; undo flat effect by rebuilding flat from logical
            after=dict((x,logical(c,x)) for x in before)
            if after!=before: bad+=1; print("rejected changed logical")
            if isw:
                for x in before: flat.write_byte(x,UInt8(before[x]))
            continue
        if res!=fres and not (res[0]=="err" and fres[0]=="err"):
            bad+=1
            if bad<6: print("MISMATCH",pol,rs,ib,bb,assoc,"w" if isw else "r",w,hex(a),res,fres)
        if res[0]=="err":
            after=dict((x,logical(c,x)) for x in before)
            if after!=before: bad+=1; print("error changed logical",pol,hex(a))
        # logical == flat everywhere in universe
        for x in before:
            if logical(c,x)!=int(flat.read_byte(x)):
                bad+=1
                if bad<6: print("LOGICAL!=FLAT",pol,hex(x)); break
        # stats law
        if res[0]=="ok":
            da=c.hits-h0; dacc=c.accesses-a0; dcy=pm.cycles-cy0
            if not isw and not counted:
                if (da,dacc,dcy)!=(0,0,0): bad+=1; print("uncounted changed stats")
            else:
                if dacc!=1 or da not in (0,1) or dcy!=(0 if da else pen): bad+=1; print("stats law broken",da,dacc,dcy)
        # C12 invariants
        if pol=="wt":
            for x in before:
                if int(c.memory.read_byte(x))!=logical(c,x): bad+=1; print("WT lower not current"); break
print("bad",bad); print(sorted(kinds.items()))
