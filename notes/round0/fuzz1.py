import random, sys
from architecture_simulator.simulation.riscv_simulation import RiscvSimulation
from architecture_simulator.uarch.memory.cache import CacheOptions
import fixedint

R3=["add","sub","sll","slt","sltu","xor","srl","sra","or","and","mul","mulh","mulhu","mulhsu","div","divu","rem","remu"]
I3=["addi","slti","sltiu","xori","ori","andi"]
SH=["slli","srli","srai"]
LD=["lb","lh","lw","lbu","lhu"]
ST=["sb","sh","sw"]
BR=["beq","bne","blt","bge","bltu","bgeu"]
def reg(r): return "x%d"%r.choice([0,1,2,3,4,5,10,17])
def gen(r,n):
    lines=[]
    for i in range(n):
        k=r.random()
        if k<0.3: lines.append(f"{r.choice(R3)} {reg(r)}, {reg(r)}, {reg(r)}")
        elif k<0.5: lines.append(f"{r.choice(I3)} {reg(r)}, {reg(r)}, {r.choice([-2048,-1,0,1,2047,r.randint(-2048,2047)])}")
        elif k<0.55: lines.append(f"{r.choice(SH)} {reg(r)}, {reg(r)}, {r.randint(0,31)}")
        elif k<0.65: lines.append(f"{r.choice(LD)} {reg(r)}, {r.choice([0,4,8,16,-4])}({reg(r)})")
        elif k<0.75: lines.append(f"{r.choice(ST)} {reg(r)}, {r.choice([0,4,8,16,-4])}({reg(r)})")
        elif k<0.85: lines.append(f"{r.choice(BR)} {reg(r)}, {reg(r)}, {r.choice([-8,-4,4,8,12,16])}")
        elif k<0.88: lines.append(f"jal {reg(r)}, {4*r.randint(0,n)}")
        elif k<0.91: lines.append(f"jalr {reg(r)}, {reg(r)}, {r.choice([0,4,8,-4,1,3])}")
        elif k<0.94: lines.append(f"lui {reg(r)}, {r.choice([0,1,4,5,0xFFFFF,0x80000])}")
        elif k<0.96: lines.append(f"auipc {reg(r)}, {r.choice([0,1,4,0xFFFFF])}")
        else: lines.append("ecall")
    return "\n".join(lines)
def run(prog, mode, regs, hz=True, maxsteps=400, dc=None):
    kw={}
    if dc: kw['data_cache']=dc
    s=RiscvSimulation(mode=mode, detect_data_hazards=hz, **kw)
    s.load_program(prog)
    for k,v in regs.items(): s.state.register_file.registers[k]=fixedint.UInt32(v)
    n=0
    exc=None
    try:
        while not s.is_done() and n<maxsteps:
            s.step(); n+=1
    except Exception as e:
        exc=(type(e).__name__, getattr(e,'address',None))
    st=s.state
    mem = dict(sorted(st.memory.memory_file.items())) if hasattr(st.memory,'memory_file') else None
    pm=st.performance_metrics
    return dict(regs=[int(x) for x in st.register_file.registers], mem=mem, out=st.output, exit=st.exit_code, exc=exc, ic=pm.instruction_count, bc=pm.branch_count, pc_=pm.procedure_count, timeout=(n>=maxsteps and not s.is_done())), pm.cycles
if __name__=="__main__":
    seed=int(sys.argv[1]); N=int(sys.argv[2])
    r=random.Random(seed)
    bad=0
    for it in range(N):
        n=r.randint(1,12)
        prog=gen(r,n)
        regs={k:r.choice([0,1,4,8,0x4000,0x4004,0x4010,0xFFFFFFFF,0x80000000,0x7FFFFFFF,10,93,1,11,34,35,36,r.getrandbits(32)]) for k in [1,2,3,4,5,10,17]}
        a,ca=run(prog,"single_stage_pipeline",regs)
        b,cb=run(prog,"five_stage_pipeline",regs, maxsteps=3000)
        if a['timeout']: continue
        if a['exc'] or b['exc']:
            for k in ('ic','bc','pc_'): a[k]=b[k]=None
        if a!=b:
            bad+=1
            if bad<=int(sys.argv[3]):
                print("=== MISMATCH seed",seed,"iter",it); print(prog); print({k:hex(v) for k,v in regs.items()})
                for k in a:
                    if a[k]!=b[k]: print(" ",k, a[k], "|", b[k])
    print("done", N, "bad", bad)
