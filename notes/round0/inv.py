import random, sys
from architecture_simulator.simulation.riscv_simulation import RiscvSimulation
from architecture_simulator.isa.riscv.rv32i_instructions import ECALL
from architecture_simulator.isa.riscv.instruction_types import EmptyInstruction
import fixedint
from fuzz2 import gen as gen2
from fuzz1 import gen as gen1

def snap(st):
    return ([int(v) for v in st.register_file.registers], dict(sorted((a,int(v)) for a,v in st.memory.memory_file.items())), st.output, st.exit_code)
def single_states(prog, regs, maxsteps=200):
    s=RiscvSimulation(mode="single_stage_pipeline"); s.load_program(prog)
    for k,v in regs.items(): s.state.register_file.registers[k]=fixedint.UInt32(v)
    states=[(s.state.program_counter,)+snap(s.state)]; redirect=[]; n=0
    while not s.is_done() and n<maxsteps:
        pc=s.state.program_counter; ins=s.state.instruction_memory.read_instruction(pc)
        bc0=s.state.performance_metrics.branch_count
        try: s.step()
        except Exception: return None
        n+=1
        redirect.append((s.state.performance_metrics.branch_count!=bc0) or ins.mnemonic in('jal','jalr') or s.state.exit_code is not None)
        states.append((s.state.program_counter,)+snap(s.state))
    if not s.is_done(): return None
    return states, redirect
def check(prog, regs, hz=True):
    r=single_states(prog,regs)
    if r is None: return None
    states, redirect = r
    N=len(redirect)
    s=RiscvSimulation(mode="five_stage_pipeline", detect_data_hazards=hz); s.load_program(prog)
    for k,v in regs.items(): s.state.register_file.registers[k]=fixedint.UInt32(v)
    k=0; cyc=0
    while not s.is_done() and cyc<3000:
        s.step(); cyc+=1
        pr=s.state.pipeline.pipeline_registers
        if pr[4].address_of_instruction is not None: k+=1
        F,D,E,M=pr[0],pr[1],pr[2],pr[3]
        slots=[(n,x) for n,x in (("M",M),("E",E),("D",D),("F",F)) if not isinstance(x.instruction,EmptyInstruction)]
        # on-path prefix
        q=0
        while q<len(slots) and k+q<N and slots[q][1].address_of_instruction==states[k+q][0] and (q==0 or not redirect[k+q-1]): q+=1
        wrong=slots[q:]
        regs_,mem_,out_,exit_=snap(s.state)
        problems=[]
        if regs_!=states[k][1]: problems.append("regs")
        m_occ = 1 if (slots and slots[0][0]=="M" and q>=1) else 0
        if mem_!=states[k+m_occ][2]: problems.append("mem")
        e=sum(1 for (n,x) in slots[:q] if n in("M","E") and not (n=="E" and x.stall_signal is not None))
        if out_!=states[k+e][3]: problems.append("out k=%d e=%d"%(k,e))
        if wrong:
            if q==0: problems.append("oldest slot off path")
            else:
                last=slots[q-1]
                if not redirect[k+q-1] and k+q<N: problems.append("wrong path without redirect")
                if last[0] not in ("D","E","F"): problems.append("redirecting slot in "+last[0])
            if any(n=="M" for n,_ in wrong): problems.append("wrong path in M")
        if problems:
            return ("FAIL",cyc,problems,[(n,x.address_of_instruction) for n,x in slots],k,q)
    return ("OK",cyc)
seed=int(sys.argv[1]); N=int(sys.argv[2]); r=random.Random(seed); bad=0; ok=0
for it in range(N):
    n=r.randint(1,12); prog=(gen2 if it%2 else gen1)(r,n)
    regs={1:r.choice([0,1,4,8]),2:r.choice([0,1,4]),3:r.choice([0,5]),4:r.choice([0,0x4000]),5:0x4000,10:r.choice([65,66,7]),17:r.choice([1,11,34,36,10,93,1,1])}
    res=check(prog,regs)
    if res is None: continue
    if res[0]=="FAIL":
        bad+=1
        if bad<=4: print("INV FAIL",it,res); print(prog); print(regs)
    else: ok+=1
print("ok",ok,"bad",bad)
