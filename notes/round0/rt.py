import itertools, random
from architecture_simulator.simulation.riscv_simulation import RiscvSimulation
from architecture_simulator.isa.riscv.rv32i_instructions import instruction_map, ECALL, EBREAK, FENCE
import architecture_simulator.isa.riscv.instruction_types as T
from architecture_simulator.uarch.riscv.riscv_architectural_state import RiscvArchitecturalState
from architecture_simulator.isa.riscv.riscv_parser import RiscvParser
r=random.Random(1)
regs=[0,1,2,5,10,17,31]
def fields(i):
    d={k:v for k,v in vars(i).items()}
    return (type(i).__name__, d)
bad=0; n=0
def roundtrip(instr, addr):
    global bad,n
    text="\n".join(["nop"]*(addr//4)+[repr(instr)])
    n+=1
    try:
        st=RiscvArchitecturalState(); RiscvParser().parse(text, st)
        j=st.instruction_memory.read_instruction(addr)
        if fields(j)!=fields(instr):
            bad+=1
            if bad<15: print("DIFF", repr(instr), "@",addr, fields(instr), fields(j))
    except Exception as e:
        bad+=1
        if bad<15: print("EXC", repr(instr), "@",addr, type(e).__name__, repr(e)[:80])
for mn,cls in sorted(instruction_map.items()):
    if cls in (FENCE,): continue
    for addr in (0,8,64):
        if cls in (ECALL,EBREAK): roundtrip(cls(),addr); continue
        if issubclass(cls,T.RTypeInstruction):
            for a,b,c in itertools.product(regs,repeat=3): roundtrip(cls(rd=a,rs1=b,rs2=c),addr)
        elif issubclass(cls,T.ShiftITypeInstruction):
            for imm in (0,1,31,32,-1,63): roundtrip(cls(rd=1,rs1=31,imm=imm),addr)
        elif issubclass(cls,T.ITypeInstruction):
            for imm in (-2048,-1,0,1,2047,2048,4095,-2049): roundtrip(cls(rd=r.choice(regs),rs1=r.choice(regs),imm=imm),addr)
        elif issubclass(cls,T.STypeInstruction):
            for imm in (-2048,-1,0,1,2047,2048): roundtrip(cls(rs1=r.choice(regs),rs2=r.choice(regs),imm=imm),addr)
        elif issubclass(cls,T.BTypeInstruction):
            for imm in (-4096,-2,0,2,4094,4096,8190): roundtrip(cls(rs1=r.choice(regs),rs2=r.choice(regs),imm=imm),addr)
        elif issubclass(cls,T.UTypeInstruction):
            for imm in (-524288,-1,0,1,524287,524288,1048575): roundtrip(cls(rd=r.choice(regs),imm=imm),addr)
        elif issubclass(cls,T.JTypeInstruction):
            for imm in (-1048576,-8,-2,0,2,8,1048574,2**21+4):
                roundtrip(cls(rd=r.choice(regs),imm=imm,abs_addr=imm+addr),addr)
        elif issubclass(cls,T.CSRTypeInstruction):
            for csr in (0,1,0x300,0xFFF): roundtrip(cls(rd=1,csr=csr,rs1=2),addr)
        elif issubclass(cls,T.CSRITypeInstruction):
            for csr in (0,0x300,0xFFF):
                for u in (0,1,31,32): roundtrip(cls(rd=1,csr=csr,uimm=u),addr)
print("cases",n,"bad",bad)
