import random, sys, copy
from architecture_simulator.simulation.riscv_simulation import RiscvSimulation
from architecture_simulator.isa.riscv.rv32i_instructions import ECALL
from architecture_simulator.isa.riscv.instruction_types import BTypeInstruction
import fixedint
from fuzz2 import gen as gen2
from fuzz1 import gen as gen1

def delayed_wb(prog, regs0, maxn=300):
    """Reference: in-order interpreter, register writes visible at W_j, sources read at D_k.
    Implemented on top of a scratch single-cycle simulation used only as an instruction-semantics oracle."""
    s=RiscvSimulation(mode="single_stage_pipeline"); s.load_program(prog)
    st=s.state
    committed=[0]*32
    for k,v in regs0.items(): committed[k]=v
    pending=[]  # (W, dst, val)
    D=[];X=[];M=[];W=[];info=[]
    pc=0; out=[]; n=0
    while st.instruction_memory.instruction_at_address(pc) and st.exit_code is None and n<maxn:
        ins=st.instruction_memory.read_instruction(pc); k=n
        if k==0: d0=2
        else: d0 = M[k-1]+2 if info[k-1]['redirect'] else D[k-1]+1
        d=max(d0, X[k-1]) if k>0 else d0
        x0=d+1
        is_ecall=isinstance(ins,ECALL)
        x = x0+2 if (is_ecall and any(M[j]==x0 or W[j]==x0 for j in range(k))) else x0
        # registers visible at decode cycle d (write-before-read): all pending with W<=d
        def view(t):
            r=list(committed)
            for (w,dst,val) in sorted(pending):
                if w<=t and dst: r[dst]=val
            return r
        # ecall reads registers at its execute cycle x (directly from the register file)
        rv=view(x if is_ecall else d)
        # execute instruction on scratch state with these operand values
        for i in range(32): st.register_file.registers[i]=fixedint.UInt32(rv[i])
        st.program_counter=pc
        bc0=st.performance_metrics.branch_count
        before=[int(v) for v in st.register_file.registers]
        try: s.state.pipeline.step()
        except Exception: return None
        after=[int(v) for v in st.register_file.registers]
        dst=ins.get_write_register()
        redirect=(st.performance_metrics.branch_count!=bc0) or ins.mnemonic in('jal','jalr')
        D.append(d);X.append(x);M.append(x+1);W.append(x+2)
        info.append(dict(redirect=redirect))
        if dst: pending.append((x+2,dst,after[dst]))
        out.append((pc,x+2))
        pc=st.program_counter; n+=1
    if n>=maxn: return None
    final=list(committed)
    for (w,dst,val) in sorted(pending): final[dst]=val
    return dict(ret=out, regs=final, out=st.output, exit=st.exit_code, mem=dict(sorted((a,int(v)) for a,v in st.memory.memory_file.items())), cyc=(out[-1][1] if out else 0))
def pipe(prog, regs, maxsteps=3000):
    s=RiscvSimulation(mode="five_stage_pipeline", detect_data_hazards=False); s.load_program(prog)
    for k,v in regs.items(): s.state.register_file.registers[k]=fixedint.UInt32(v)
    out=[]; n=0
    while not s.is_done() and n<maxsteps:
        try: s.step()
        except Exception: return None
        n+=1
        a=s.state.pipeline.pipeline_registers[4].address_of_instruction
        if a is not None: out.append((a,s.state.performance_metrics.cycles))
    if not s.is_done(): return None
    st=s.state
    return dict(ret=out, regs=[int(v) for v in st.register_file.registers], out=st.output, exit=st.exit_code, mem=dict(sorted((a,int(v)) for a,v in st.memory.memory_file.items())), cyc=st.performance_metrics.cycles)
seed=int(sys.argv[1]); N=int(sys.argv[2]); r=random.Random(seed); bad=0; ok=0; stalls=0
for it in range(N):
    n=r.randint(1,12); prog=(gen2 if it%2 else gen1)(r,n)
    regs={1:r.choice([0,1,4,8]),2:r.choice([0,1,4]),3:r.choice([0,5]),4:r.choice([0,0x4000]),5:0x4000,10:r.choice([65,66,7]),17:r.choice([1,11,34,36,10,93,1,1])}
    a=delayed_wb(prog,regs)
    if a is None: continue
    b=pipe(prog,regs)
    if b is None: continue
    if a!=b:
        bad+=1
        if bad<=3:
            print("MISMATCH",it); print(prog); print(regs)
            for k in a:
                if a[k]!=b[k]: print(" ",k,a[k],"|",b[k])
    else: ok+=1
print("ok",ok,"bad",bad)
