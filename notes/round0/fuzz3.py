import random, sys
from fuzz1 import gen
from architecture_simulator.simulation.riscv_simulation import RiscvSimulation
from architecture_simulator.uarch.memory.cache import CacheOptions
import fixedint
def snapshot(s):
    st=s.state
    lower = st.memory.memory if hasattr(st.memory,'memory') else st.memory
    pm=st.performance_metrics
    return dict(regs=[int(x) for x in st.register_file.registers], mem=dict(sorted((k,int(v)) for k,v in lower.memory_file.items())), out=st.output, exit=st.exit_code,
        ic=pm.instruction_count,bc=pm.branch_count,pcn=pm.procedure_count,cyc=pm.cycles,dstats=str(s.get_data_cache_stats()),istats=str(s.get_instruction_cache_stats()), pc=st.program_counter)
def logical_mem(s, addrs):
    out={}
    for a in addrs:
        try: out[a]=int(s.state.memory.read_byte(a, False))
        except Exception as e: out[a]='E'
    return out
def inspect(s,mode):
    s.get_register_entries(); s.get_data_memory_entries(); s.get_instruction_memory_entries(); s.get_data_cache_entries(); s.get_data_cache_stats()
    s.get_instruction_cache_entries(); s.get_instruction_cache_stats(); s.get_output(); s.get_exit_code(); s.is_done(); s.has_instructions(); s.get_performance_metrics_str()
    if mode=="five_stage_pipeline": s.get_riscv_five_stage_svg_update_values()
    else: s.get_riscv_single_stage_svg_update_values()
def run(prog, mode, regs, dc, ic, insp=False, maxsteps=400):
    s=RiscvSimulation(mode=mode, data_cache=dc, instruction_cache=ic)
    s.load_program(prog)
    for k,v in regs.items(): s.state.register_file.registers[k]=fixedint.UInt32(v)
    n=0; exc=None
    try:
        while not s.is_done() and n<maxsteps:
            if insp: inspect(s,mode)
            s.step(); n+=1
    except Exception as e:
        exc=(type(e).__name__, getattr(e,'address',None))
    return s, exc, n>=maxsteps
seed=int(sys.argv[1]); N=int(sys.argv[2])
r=random.Random(seed); bad=0
for it in range(N):
    n=r.randint(1,12); prog=gen(r,n)
    regs={k:r.choice([0,1,4,8,0x4000,0x4004,0x4010,0x4020,0x4040,0xFFFFFFFF,0x80000000,10,93,1,11,34,4,r.getrandbits(32)]) for k in [1,2,3,4,5,10,17]}
    dc=CacheOptions(True, r.choice([0,1,2]), r.choice([0,1,2]), r.choice([1,2,4]), r.choice(["wb","wt"]), r.choice(["lru","plru"]), r.choice([0,3]))
    ic=CacheOptions(r.random()<0.5, r.choice([0,1]), r.choice([0,1]), r.choice([1,2]), "wb", r.choice(["lru","plru"]), r.choice([0,2]))
    nodc=CacheOptions(False,0,0,1,"wb","lru",0)
    res={}
    for mode in ("single_stage_pipeline","five_stage_pipeline"):
        s0,e0,t0=run(prog,mode,regs,nodc,nodc)
        s1,e1,t1=run(prog,mode,regs,dc,ic)
        s2,e2,t2=run(prog,mode,regs,dc,ic,insp=True)
        if t0: break
        a=snapshot(s0); b=snapshot(s1); c=snapshot(s2)
        res[mode]=(b,e1)
        # purity
        if (b,e1)!=(c,e2):
            bad+=1; print("PURITY MISMATCH",mode,it); print(prog)
        # transparency: regs/out/exit same unless exception involved
        if not e0 and not e1:
            for k in ('regs','out','exit','ic','bc','pcn'):
                if a[k]!=b[k]:
                    bad+=1; print("TRANSPARENCY MISMATCH",mode,k,it,vars(dc)); print(prog); print(regs); break
        elif (e0 is None)!=(e1 is None):
            pass #print("fault differs", mode, e0, e1)
    if len(res)==2:
        (a,ea),(b,eb)=res["single_stage_pipeline"],res["five_stage_pipeline"]
        if not ea and not eb and a['dstats']!=b['dstats']:
            bad+=1; print("DSTATS MISMATCH",it,a['dstats'],b['dstats'],vars(dc)); print(prog); print(regs)
print("done",N,"bad",bad)
