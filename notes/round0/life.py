import random, sys, copy
from architecture_simulator.simulation.riscv_simulation import RiscvSimulation
from architecture_simulator.simulation.toy_simulation import ToySimulation
from architecture_simulator.uarch.memory.cache import CacheOptions
from architecture_simulator.isa.riscv.instruction_types import EmptyInstruction
import fixedint
from fuzz2 import gen as gen2
from fuzz1 import gen as gen1
def full(s):
    st=s.state; pm=st.performance_metrics
    lower = st.memory.memory if hasattr(st.memory,'memory') else st.memory
    d=dict(regs=[int(x) for x in st.register_file.registers], mem=dict(sorted((k,int(v)) for k,v in lower.memory_file.items())), out=st.output, exit=st.exit_code,pc=st.program_counter,
        pm=(pm.instruction_count,pm.branch_count,pm.procedure_count,pm.cycles,pm.stalls,pm.flushes), latches=[(type(p).__name__,p.address_of_instruction) for p in st.pipeline.pipeline_registers],
        stalled=st.pipeline.stalled, dstats=str(st.memory.get_cache_stats()), istats=str(st.instruction_memory.get_cache_stats()), instrs=st.instruction_memory.get_representation(), started=s.has_started, prev=st.previous_program_counter)
    return d
seed=int(sys.argv[1]); N=int(sys.argv[2]); r=random.Random(seed); bad=0
for it in range(N):
    n=r.randint(0,10); prog=(gen2 if it%2 else gen1)(r,n) if n else r.choice(["","\n","# c\n",".data\nv: .word 1\n.text\n"])
    regs={1:r.choice([0,1,4,8]),2:r.choice([0,1,4]),3:r.choice([0,5]),4:r.choice([0,0x4000]),5:0x4000,10:r.choice([65,66,7]),17:r.choice([1,11,34,36,10,93,1,1])}
    mode=r.choice(["single_stage_pipeline","five_stage_pipeline"])
    dc=CacheOptions(r.random()<0.5, 1, 1, 2, r.choice(["wb","wt"]), "lru", 2); ic=CacheOptions(r.random()<0.5, 1, 1, 2, "wb", "plru", 1)
    def mk():
        s=RiscvSimulation(mode=mode,data_cache=dc,instruction_cache=ic); return s
    def preset(s):
        for k,v in regs.items(): s.state.register_file.registers[k]=fixedint.UInt32(v)
    # run vs step
    a=mk(); a.load_program(prog); preset(a)
    b=mk(); b.load_program(prog); preset(b)
    try:
        steps=0; last=None
        while steps<400:
            if b.is_done(): break
            last=b.step(); steps+=1
            if last != (not b.is_done()): bad+=1; print("STEP RETURN MISMATCH")
        if steps>=400: continue
        a.run()
    except Exception as e:
        continue
    fa,fb=full(a),full(b)
    if fa!=fb:
        bad+=1; print("RUN!=STEPS",it,{k:(fa[k],fb[k]) for k in fa if fa[k]!=fb[k]}); print(prog)
    # done stable
    before=full(b)
    for _ in range(3):
        rv=b.step(); b.run()
        if rv is not False: bad+=1; print("step returned",rv,"when done")
    after=full(b)
    if before!=after:
        bad+=1; print("DONE NOT STABLE",it,{k:(before[k],after[k]) for k in before if before[k]!=after[k]}); print(prog)
    if n==0:
        c=mk(); c.load_program(prog)
        if not c.is_done(): bad+=1; print("EMPTY NOT DONE", repr(prog))
    # reload == fresh
    c=mk()
    for junk in r.sample(["addi x1, x0, 1\n.data\nq: .word 5","bogus line","foo: li x1, 99999\n",".data\nv: .byte 1\n.data\n", "lw x1, nosuch", gen1(r,3)], r.randint(0,3)):
        try: c.load_program(junk)
        except Exception: pass
    try:
        c.load_program(prog); d=mk(); d.load_program(prog)
    except Exception: continue
    fc,fd=full(c),full(d)
    if fc!=fd:
        bad+=1; print("RELOAD!=FRESH",it,{k:(fc[k],fd[k]) for k in fc if fc[k]!=fd[k]}); print(prog)
print("done",N,"bad",bad)
