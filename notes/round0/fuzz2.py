import random, sys
from fuzz1 import run
R3=["add","sub","or"]
def reg(r): return "x%d"%r.choice([0,1,2,3,10,17])
def gen(r,n):
    lines=[]
    for i in range(n):
        k=r.random()
        if k<0.25: lines.append(f"{r.choice(R3)} {reg(r)}, {reg(r)}, {reg(r)}")
        elif k<0.4: lines.append(f"addi {reg(r)}, {reg(r)}, {r.choice([-1,0,1,4])}")
        elif k<0.5: lines.append(f"lw {reg(r)}, {r.choice([0,4])}(x5)")
        elif k<0.6: lines.append(f"sw {reg(r)}, {r.choice([0,4])}(x5)")
        elif k<0.75: lines.append(f"{r.choice(['beq','bne'])} {reg(r)}, {reg(r)}, {r.choice([-8,-4,4,8,12,16])}")
        elif k<0.8: lines.append(f"jal {reg(r)}, {4*r.randint(0,n)}")
        else: lines.append("ecall")
    return "\n".join(lines)
if __name__=="__main__":
    seed=int(sys.argv[1]); N=int(sys.argv[2]); hz=sys.argv[3]=="1"
    r=random.Random(seed); bad=0
    for it in range(N):
        n=r.randint(1,10)
        prog=gen(r,n)
        regs={1:r.choice([0,1,4,8]),2:r.choice([0,1,4]),3:r.choice([0,5]),5:0x4000,10:r.choice([65,66,7]),17:r.choice([1,11,34,36,10,93,1,1])}
        a,ca=run(prog,"single_stage_pipeline",regs,maxsteps=300)
        if a['timeout']: continue
        b,cb=run(prog,"five_stage_pipeline",regs,hz=hz,maxsteps=3000)
        if a['exc'] or b['exc']:
            for k in ('ic','bc','pc_'): a[k]=b[k]=None
        if not hz:
            if len(a['out'])!=len(b['out']) and not b['timeout'] and not a['exc'] and not b['exc']:
                bad+=1
                if bad<4: print("=== OUTLEN MISMATCH", it); print(prog); print(regs); print(a['out'],'|',b['out'])
            continue
        if a!=b:
            bad+=1
            if bad<4:
                print("=== MISMATCH", it); print(prog); print(regs)
                for k in a:
                    if a[k]!=b[k]: print(" ",k,a[k],"|",b[k])
    print("done",N,"bad",bad)
