(* GENEQ lemma=gen_SW_behavior_eq requires=gen_SW_behavior_mem_addr,gen_SW_behavior_mem_value properties=C01 *)
From ArchSimGenEq Require Import GenEqTac.
From ArchSim Require Import Model.RV Model.RVSplit.
From ArchSimGen Require Import GenRVTypes GenRV.
Open Scope Z_scope.

Lemma gen_SW_behavior_eq imm a v :
    gen_SW_behavior_mem_addr imm a = U32 (a + U32 imm) /\
    (0 <= v < 2 ^ 32 -> gen_SW_behavior_mem_value v = U (store_bits SW) v).
Proof.
  unfold gen_SW_behavior_mem_addr, gen_SW_behavior_mem_value, store_bits.
  split; [ gen_eq | intros Hv; unfold U; rewrite Z.mod_small by exact Hv; reflexivity ].
Qed.

Print Assumptions gen_SW_behavior_eq.
