(* GENEQ lemma=gen_byte_from_block_eq requires=gen_byte_from_block properties=C03,C09 *)
From ArchSimGenEq Require Import GenEqTac.
From ArchSim Require Import Model.Mem Model.Cache.
From ArchSimGen Require Import GenIntManip.
Open Scope Z_scope.

Lemma gen_byte_from_block_eq da blk : from_block 8 da blk = Ok (gen_byte_from_block (da_byoff da) (nthZ blk (da_boff da) 0)).
Proof.
  unfold from_block, gen_byte_from_block.
  closed_tests. gen_eq.
Qed.

Print Assumptions gen_byte_from_block_eq.
