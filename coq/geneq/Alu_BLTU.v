(* GENEQ lemma=gen_BLTU_alu_compute_eq requires=gen_BLTU_alu_compute properties=C02 *)
From ArchSimGenEq Require Import GenEqTac.
From ArchSim Require Import Model.RV Model.RVSplit.
From ArchSimGen Require Import GenRVTypes GenRV.
Open Scope Z_scope.

Lemma gen_BLTU_alu_compute_eq a b : gen_BLTU_alu_compute a b = (b_alu BLTU a b, tt).
Proof.
  unfold gen_BLTU_alu_compute, b_alu.
  gen_eq.
Qed.

Print Assumptions gen_BLTU_alu_compute_eq.
