(* GENEQ lemma=gen_JAL_init_eq requires=gen_JAL_init_rd,gen_JAL_init_imm,gen_JAL_init_abs_addr properties=C01 *)
From ArchSimGenEq Require Import GenEqTac.
From ArchSim Require Import Model.RV Model.RVSplit.
From ArchSimGen Require Import GenRVTypes GenRV.
Open Scope Z_scope.

Lemma gen_JAL_init_eq rd imm abs_addr : mk (IJal rd imm abs_addr) = IJal (gen_JAL_init_rd rd imm abs_addr) (gen_JAL_init_imm rd imm abs_addr) (gen_JAL_init_abs_addr rd imm abs_addr).
Proof.
  unfold gen_JAL_init_rd, gen_JAL_init_imm, gen_JAL_init_abs_addr, mk, sext12, sext13, sext20, sext21.
  gen_eq.
Qed.

Print Assumptions gen_JAL_init_eq.
