(* GENEQ lemma=gen_RiscvInstruction_attr_length_eq requires=gen_RiscvInstruction_attr_length properties=C01 *)
From ArchSimGenEq Require Import GenEqTac.
From ArchSim Require Import Model.RV Model.RVSplit.
From ArchSimGen Require Import GenRVTypes GenRV.
Open Scope Z_scope.

Lemma gen_RiscvInstruction_attr_length_eq : gen_RiscvInstruction_attr_length = 4.
Proof.
  reflexivity.
Qed.

Print Assumptions gen_RiscvInstruction_attr_length_eq.
