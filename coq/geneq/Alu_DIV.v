(* GENEQ lemma=gen_DIV_alu_compute_eq requires=gen_DIV_alu_compute properties=C02 *)
From ArchSimGenEq Require Import GenEqTac.
From ArchSim Require Import Model.RV Model.RVSplit.
From ArchSimGen Require Import GenRVTypes GenRV.
Open Scope Z_scope.

Lemma gen_DIV_alu_compute_eq a b : gen_DIV_alu_compute a b = (tt, r_alu DIV a b).
Proof.
  unfold gen_DIV_alu_compute, r_alu.
  gen_eq.
Qed.

Print Assumptions gen_DIV_alu_compute_eq.
