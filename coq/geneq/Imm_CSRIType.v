(* GENEQ lemma=gen_CSRITypeInstruction_init_uimm_eq requires=gen_CSRITypeInstruction_init_uimm properties=C01 *)
From ArchSimGenEq Require Import GenEqTac.
From ArchSim Require Import Model.RV Model.RVSplit.
From ArchSimGen Require Import GenRVTypes GenRV.
Open Scope Z_scope.

Lemma gen_CSRITypeInstruction_init_uimm_eq rd csr uimm : gen_CSRITypeInstruction_init_uimm rd csr uimm = Z.land uimm 31.
Proof.
  unfold gen_CSRITypeInstruction_init_uimm.
  gen_eq.
Qed.

Print Assumptions gen_CSRITypeInstruction_init_uimm_eq.
