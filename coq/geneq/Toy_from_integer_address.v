(* GENEQ lemma=gen_toy_from_integer_address_eq requires=gen_toy_ToyInstruction_from_integer_address properties=C06,C19 *)
From ArchSimGenEq Require Import GenEqTac.
From ArchSim Require Import Model.Mem Model.Toy.
From ArchSimGen Require Import GenToy.
Open Scope Z_scope.

Lemma gen_toy_from_integer_address_eq w : taddr (toy_decode w) = gen_toy_ToyInstruction_from_integer_address w.
Proof.
  unfold toy_decode, mk_tinstr, gen_toy_ToyInstruction_from_integer_address.
  cbn [taddr]. gen_eq.
Qed.

Print Assumptions gen_toy_from_integer_address_eq.
