(* GENEQ lemma=gen_toy_attr_length_eq requires=gen_toy_ToyInstruction_attr_length properties=C06,C19 *)
From ArchSimGenEq Require Import GenEqTac.
From ArchSim Require Import Model.Mem Model.Toy.
From ArchSimGen Require Import GenToy.
Open Scope Z_scope.

Lemma gen_toy_attr_length_eq : gen_toy_ToyInstruction_attr_length = 1.
Proof.
  reflexivity.
Qed.

Print Assumptions gen_toy_attr_length_eq.
