(* GENEQ lemma=gen_toy_BRZ_behavior_eq requires=gen_toy_BRZ_behavior_pc,gen_toy_BRZ_behavior_branch_count,gen_toy_BRZ_behavior_vis_jump properties=C06,C19 *)
From ArchSimGenEq Require Import GenEqTac.
From ArchSim Require Import Model.Mem Model.Toy.
From ArchSimGen Require Import GenToy.
Open Scope Z_scope.

Lemma gen_toy_BRZ_behavior_eq a s :
    toy_behavior {| top := 2; taddr := a |} s =
      (t_with_core s (gen_toy_BRZ_behavior_pc a (t_pc s) (t_accu s)) (t_accu s) (t_mem s)
         {| v_accu_old := None; v_alu_out := None; v_jump := gen_toy_BRZ_behavior_vis_jump (t_accu s);
            v_ram_out := None; v_op_old := None; v_pc_old := None |}
         (gen_toy_BRZ_behavior_branch_count (t_accu s) (t_bcount s)), None).
Proof.
  unfold toy_behavior, gen_toy_BRZ_behavior_pc, gen_toy_BRZ_behavior_branch_count, gen_toy_BRZ_behavior_vis_jump.
  cbn [top taddr]. closed_tests. cbv zeta.
  destruct (t_accu s =? 0); gen_eq.
Qed.

Print Assumptions gen_toy_BRZ_behavior_eq.
