(* GENEQ lemma=gen_CSRRCI_init_eq requires=gen_CSRRCI_init_rd,gen_CSRRCI_init_csr,gen_CSRRCI_init_uimm properties=C01 *)
From ArchSimGenEq Require Import GenEqTac.
From ArchSim Require Import Model.RV Model.RVSplit.
From ArchSimGen Require Import GenRVTypes GenRV.
Open Scope Z_scope.

Lemma gen_CSRRCI_init_eq rd csr uimm : mk (ICsri CSRRCI rd csr uimm) = ICsri CSRRCI (gen_CSRRCI_init_rd rd csr uimm) (gen_CSRRCI_init_csr rd csr uimm) (gen_CSRRCI_init_uimm rd csr uimm).
Proof.
  unfold gen_CSRRCI_init_rd, gen_CSRRCI_init_csr, gen_CSRRCI_init_uimm, mk, sext12, sext13, sext20, sext21.
  gen_eq.
Qed.

Print Assumptions gen_CSRRCI_init_eq.
