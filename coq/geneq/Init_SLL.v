(* GENEQ lemma=gen_SLL_init_eq requires=gen_SLL_init_rd,gen_SLL_init_rs1,gen_SLL_init_rs2 properties=C01 *)
From ArchSimGenEq Require Import GenEqTac.
From ArchSim Require Import Model.RV Model.RVSplit.
From ArchSimGen Require Import GenRVTypes GenRV.
Open Scope Z_scope.

Lemma gen_SLL_init_eq rd rs1 rs2 : mk (IR SLL rd rs1 rs2) = IR SLL (gen_SLL_init_rd rd rs1 rs2) (gen_SLL_init_rs1 rd rs1 rs2) (gen_SLL_init_rs2 rd rs1 rs2).
Proof.
  unfold gen_SLL_init_rd, gen_SLL_init_rs1, gen_SLL_init_rs2, mk, sext12, sext13, sext20, sext21.
  gen_eq.
Qed.

Print Assumptions gen_SLL_init_eq.
