(* GENEQ lemma=gen_SRAI_init_eq requires=gen_SRAI_init_rd,gen_SRAI_init_rs1,gen_SRAI_init_imm properties=C01 *)
From ArchSimGenEq Require Import GenEqTac.
From ArchSim Require Import Model.RV Model.RVSplit.
From ArchSimGen Require Import GenRVTypes GenRV.
Open Scope Z_scope.

Lemma gen_SRAI_init_eq rd rs1 imm : mk (ISh SRAI rd rs1 imm) = ISh SRAI (gen_SRAI_init_rd rd rs1 imm) (gen_SRAI_init_rs1 rd rs1 imm) (gen_SRAI_init_imm rd rs1 imm).
Proof.
  unfold gen_SRAI_init_rd, gen_SRAI_init_rs1, gen_SRAI_init_imm, mk, sext12, sext13, sext20, sext21.
  gen_eq.
Qed.

Print Assumptions gen_SRAI_init_eq.
