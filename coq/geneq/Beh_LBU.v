(* GENEQ lemma=gen_LBU_behavior_eq requires=gen_LBU_behavior_rd,gen_LBU_behavior_mem_addr properties=C01 *)
From ArchSimGenEq Require Import GenEqTac.
From ArchSim Require Import Model.RV Model.RVSplit.
From ArchSimGen Require Import GenRVTypes GenRV.
Open Scope Z_scope.

Lemma gen_LBU_behavior_eq v imm a :
    gen_LBU_behavior_rd v = load_ext LBU v /\
    gen_LBU_behavior_mem_addr imm a = a + imm.
Proof.
  unfold gen_LBU_behavior_rd, gen_LBU_behavior_mem_addr, load_ext.
  repeat split; gen_eq.
Qed.

Print Assumptions gen_LBU_behavior_eq.
