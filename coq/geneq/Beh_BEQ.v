(* GENEQ lemma=gen_BEQ_behavior_eq requires=gen_BEQ_behavior_pc,gen_BEQ_behavior_branch_count properties=C01 *)
From ArchSimGenEq Require Import GenEqTac.
From ArchSim Require Import Model.RV Model.RVSplit.
From ArchSimGen Require Import GenRVTypes GenRV.
Open Scope Z_scope.

Lemma gen_BEQ_behavior_eq imm a b pc bc :
    gen_BEQ_behavior_pc imm 4 a b pc = (if b_cond BEQ a b then pc + (imm - 4) else pc) /\
    gen_BEQ_behavior_branch_count a b bc = (if b_cond BEQ a b then bc + 1 else bc).
Proof.
  unfold gen_BEQ_behavior_pc, gen_BEQ_behavior_branch_count, b_cond.
  repeat split; gen_eq.
Qed.

Print Assumptions gen_BEQ_behavior_eq.
