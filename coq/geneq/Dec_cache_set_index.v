(* GENEQ lemma=gen_DecodedAddress_init_cache_set_index_eq requires=gen_DecodedAddress_init_cache_set_index properties=C03,C09 *)
From ArchSimGenEq Require Import GenEqTac.
From ArchSim Require Import Model.Mem Model.Cache.
From ArchSimGen Require Import GenDecoded.
Open Scope Z_scope.

Lemma gen_DecodedAddress_init_cache_set_index_eq ib bb a : da_idx (decode_addr ib bb a) = gen_DecodedAddress_init_cache_set_index ib bb a.
Proof.
  unfold decode_addr, gen_DecodedAddress_init_cache_set_index.
  cbn [da_idx]. gen_eq.
Qed.

Print Assumptions gen_DecodedAddress_init_cache_set_index_eq.
