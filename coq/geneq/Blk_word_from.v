(* GENEQ lemma=gen_word_from_block_eq requires=gen_word_from_block,gen_word_from_block_raises,gen_word_from_block_raise_args properties=C03,C09 *)
From ArchSimGenEq Require Import GenEqTac.
From ArchSim Require Import Model.Mem Model.Cache.
From ArchSimGen Require Import GenIntManip.
Open Scope Z_scope.

Lemma gen_word_from_block_eq da blk :
    from_block 32 da blk =
      if gen_word_from_block_raises (da_byoff da)
      then Err (EOffset (fst (gen_word_from_block_raise_args (da_byoff da))) (snd (gen_word_from_block_raise_args (da_byoff da))))
      else Ok (gen_word_from_block (nthZ blk (da_boff da) 0)).
Proof.
  unfold from_block, gen_word_from_block, gen_word_from_block_raises, gen_word_from_block_raise_args.
  closed_tests. cbn [fst snd]. gen_eq.
Qed.

Print Assumptions gen_word_from_block_eq.
