(* GENEQ lemma=gen_halfword_from_block_eq requires=gen_halfword_from_block,gen_halfword_from_block_raises,gen_halfword_from_block_raise_args properties=C03,C09 *)
From ArchSimGenEq Require Import GenEqTac.
From ArchSim Require Import Model.Mem Model.Cache.
From ArchSimGen Require Import GenIntManip.
Open Scope Z_scope.

Lemma gen_halfword_from_block_eq da blk :
    from_block 16 da blk =
      if gen_halfword_from_block_raises (da_byoff da)
      then Err (EOffset (fst (gen_halfword_from_block_raise_args (da_byoff da))) (snd (gen_halfword_from_block_raise_args (da_byoff da))))
      else Ok (gen_halfword_from_block (da_byoff da) (nthZ blk (da_boff da) 0)).
Proof.
  unfold from_block, gen_halfword_from_block, gen_halfword_from_block_raises, gen_halfword_from_block_raise_args.
  closed_tests. cbn [fst snd]. gen_eq.
Qed.

Print Assumptions gen_halfword_from_block_eq.
