(* GENEQ lemma=gen_JTypeInstruction_init_imm_eq requires=gen_JTypeInstruction_init_imm properties=C01 *)
From ArchSimGenEq Require Import GenEqTac.
From ArchSim Require Import Model.RV Model.RVSplit.
From ArchSimGen Require Import GenRVTypes GenRV.
Open Scope Z_scope.

Lemma gen_JTypeInstruction_init_imm_eq rd imm abs : gen_JTypeInstruction_init_imm rd imm abs = sext21 imm.
Proof.
  unfold gen_JTypeInstruction_init_imm, sext21.
  gen_eq.
Qed.

Print Assumptions gen_JTypeInstruction_init_imm_eq.
