(* GENEQ lemma=gen_UTypeInstruction_init_imm_eq requires=gen_UTypeInstruction_init_imm properties=C01 *)
From ArchSimGenEq Require Import GenEqTac.
From ArchSim Require Import Model.RV Model.RVSplit.
From ArchSimGen Require Import GenRVTypes GenRV.
Open Scope Z_scope.

Lemma gen_UTypeInstruction_init_imm_eq rd imm : gen_UTypeInstruction_init_imm rd imm = sext20 imm.
Proof.
  unfold gen_UTypeInstruction_init_imm, sext20.
  gen_eq.
Qed.

Print Assumptions gen_UTypeInstruction_init_imm_eq.
