(* GENEQ lemma=gen_ITypeInstruction_init_imm_eq requires=gen_ITypeInstruction_init_imm properties=C01 *)
From ArchSimGenEq Require Import GenEqTac.
From ArchSim Require Import Model.RV Model.RVSplit.
From ArchSimGen Require Import GenRVTypes GenRV.
Open Scope Z_scope.

Lemma gen_ITypeInstruction_init_imm_eq rd rs1 imm : gen_ITypeInstruction_init_imm rd rs1 imm = sext12 imm.
Proof.
  unfold gen_ITypeInstruction_init_imm, sext12.
  gen_eq.
Qed.

Print Assumptions gen_ITypeInstruction_init_imm_eq.
