(* GENEQ lemma=gen_AUIPC_init_eq requires=gen_AUIPC_init_rd,gen_AUIPC_init_imm properties=C01 *)
From ArchSimGenEq Require Import GenEqTac.
From ArchSim Require Import Model.RV Model.RVSplit.
From ArchSimGen Require Import GenRVTypes GenRV.
Open Scope Z_scope.

Lemma gen_AUIPC_init_eq rd imm : mk (IAuipc rd imm) = IAuipc (gen_AUIPC_init_rd rd imm) (gen_AUIPC_init_imm rd imm).
Proof.
  unfold gen_AUIPC_init_rd, gen_AUIPC_init_imm, mk, sext12, sext13, sext20, sext21.
  gen_eq.
Qed.

Print Assumptions gen_AUIPC_init_eq.
