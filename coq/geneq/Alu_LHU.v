(* GENEQ lemma=gen_LHU_alu_compute_eq requires=gen_LHU_alu_compute properties=C02 *)
From ArchSimGenEq Require Import GenEqTac.
From ArchSim Require Import Model.RV Model.RVSplit.
From ArchSimGen Require Import GenRVTypes GenRV.
Open Scope Z_scope.

Lemma gen_LHU_alu_compute_eq a b : gen_LHU_alu_compute a b = (tt, U32 a + b).
Proof.
  unfold gen_LHU_alu_compute.
  gen_eq.
Qed.

Print Assumptions gen_LHU_alu_compute_eq.
