(* GENEQ lemma=gen_toy_address_section_value_eq requires=gen_toy_ToyInstruction_address_section_value properties=C06,C19 *)
From ArchSimGenEq Require Import GenEqTac.
From ArchSim Require Import Model.Mem Model.Toy.
From ArchSimGen Require Import GenToy.
Open Scope Z_scope.

Lemma gen_toy_address_section_value_eq i : address_section_value i = gen_toy_ToyInstruction_address_section_value (taddr i) (top i).
Proof.
  unfold address_section_value, toy_encode, gen_toy_ToyInstruction_address_section_value.
  gen_eq.
Qed.

Print Assumptions gen_toy_address_section_value_eq.
