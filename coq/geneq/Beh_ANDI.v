(* GENEQ lemma=gen_ANDI_behavior_eq requires=gen_ANDI_behavior_rd properties=C01 *)
From ArchSimGenEq Require Import GenEqTac.
From ArchSim Require Import Model.RV Model.RVSplit.
From ArchSimGen Require Import GenRVTypes GenRV.
Open Scope Z_scope.

Lemma gen_ANDI_behavior_eq imm a :
    gen_ANDI_behavior_rd imm a = i_behavior ANDI a imm.
Proof.
  unfold gen_ANDI_behavior_rd, i_behavior.
  gen_eq.
Qed.

Print Assumptions gen_ANDI_behavior_eq.
