(* GENEQ lemma=gen_DIVU_alu_compute_eq requires=gen_DIVU_alu_compute properties=C02 *)
From ArchSimGenEq Require Import GenEqTac.
From ArchSim Require Import Model.RV Model.RVSplit.
From ArchSimGen Require Import GenRVTypes GenRV.
Open Scope Z_scope.

Lemma gen_DIVU_alu_compute_eq a b : gen_DIVU_alu_compute a b = (tt, r_alu DIVU a b).
Proof.
  unfold gen_DIVU_alu_compute, r_alu.
  gen_eq.
Qed.

Print Assumptions gen_DIVU_alu_compute_eq.
