(* GENEQ lemma=gen_BGE_alu_compute_eq requires=gen_BGE_alu_compute properties=C02 *)
From ArchSimGenEq Require Import GenEqTac.
From ArchSim Require Import Model.RV Model.RVSplit.
From ArchSimGen Require Import GenRVTypes GenRV.
Open Scope Z_scope.

Lemma gen_BGE_alu_compute_eq a b : gen_BGE_alu_compute a b = (b_alu BGE a b, tt).
Proof.
  unfold gen_BGE_alu_compute, b_alu.
  gen_eq.
Qed.

Print Assumptions gen_BGE_alu_compute_eq.
