(* GENEQ lemma=gen_toy_STO_behavior_eq requires=gen_toy_STO_behavior_mem_addr,gen_toy_STO_behavior_mem_value,gen_toy_STO_behavior_vis_alu_out properties=C06,C19 *)
From ArchSimGenEq Require Import GenEqTac.
From ArchSim Require Import Model.Mem Model.Toy.
From ArchSimGen Require Import GenToy.
Open Scope Z_scope.

Lemma gen_toy_STO_behavior_eq acc a :
    gen_toy_STO_behavior_mem_addr a = a /\ gen_toy_STO_behavior_mem_value acc = acc /\
    gen_toy_STO_behavior_vis_alu_out acc = acc.
Proof.
  unfold gen_toy_STO_behavior_mem_addr, gen_toy_STO_behavior_mem_value, gen_toy_STO_behavior_vis_alu_out.
  repeat split; gen_eq.
Qed.

Print Assumptions gen_toy_STO_behavior_eq.
