(* GENEQ lemma=gen_BGE_init_eq requires=gen_BGE_init_rs1,gen_BGE_init_rs2,gen_BGE_init_imm properties=C01 *)
From ArchSimGenEq Require Import GenEqTac.
From ArchSim Require Import Model.RV Model.RVSplit.
From ArchSimGen Require Import GenRVTypes GenRV.
Open Scope Z_scope.

Lemma gen_BGE_init_eq rs1 rs2 imm : mk (IBranch BGE rs1 rs2 imm) = IBranch BGE (gen_BGE_init_rs1 rs1 rs2 imm) (gen_BGE_init_rs2 rs1 rs2 imm) (gen_BGE_init_imm rs1 rs2 imm).
Proof.
  unfold gen_BGE_init_rs1, gen_BGE_init_rs2, gen_BGE_init_imm, mk, sext12, sext13, sext20, sext21.
  gen_eq.
Qed.

Print Assumptions gen_BGE_init_eq.
