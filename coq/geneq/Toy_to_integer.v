(* GENEQ lemma=gen_toy_to_integer_eq requires=gen_toy_ToyInstruction_to_integer properties=C06,C19 *)
From ArchSimGenEq Require Import GenEqTac.
From ArchSim Require Import Model.Mem Model.Toy.
From ArchSimGen Require Import GenToy.
Open Scope Z_scope.

Lemma gen_toy_to_integer_eq i : toy_encode i = gen_toy_ToyInstruction_to_integer (taddr i) (top i).
Proof.
  unfold toy_encode, gen_toy_ToyInstruction_to_integer.
  gen_eq.
Qed.

Print Assumptions gen_toy_to_integer_eq.
