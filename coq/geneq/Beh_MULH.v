(* GENEQ lemma=gen_MULH_behavior_eq requires=gen_MULH_behavior_rd properties=C01 *)
From ArchSimGenEq Require Import GenEqTac.
From ArchSim Require Import Model.RV Model.RVSplit.
From ArchSimGen Require Import GenRVTypes GenRV.
Open Scope Z_scope.

Lemma gen_MULH_behavior_eq a b :
    gen_MULH_behavior_rd a b = r_behavior MULH a b.
Proof.
  unfold gen_MULH_behavior_rd, r_behavior.
  gen_eq.
Qed.

Print Assumptions gen_MULH_behavior_eq.
