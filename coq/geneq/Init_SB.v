(* GENEQ lemma=gen_SB_init_eq requires=gen_SB_init_rs1,gen_SB_init_rs2,gen_SB_init_imm properties=C01 *)
From ArchSimGenEq Require Import GenEqTac.
From ArchSim Require Import Model.RV Model.RVSplit.
From ArchSimGen Require Import GenRVTypes GenRV.
Open Scope Z_scope.

Lemma gen_SB_init_eq rs1 rs2 imm : mk (IStore SB rs1 rs2 imm) = IStore SB (gen_SB_init_rs1 rs1 rs2 imm) (gen_SB_init_rs2 rs1 rs2 imm) (gen_SB_init_imm rs1 rs2 imm).
Proof.
  unfold gen_SB_init_rs1, gen_SB_init_rs2, gen_SB_init_imm, mk, sext12, sext13, sext20, sext21.
  gen_eq.
Qed.

Print Assumptions gen_SB_init_eq.
