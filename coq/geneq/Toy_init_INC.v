(* GENEQ lemma=gen_toy_INC_init_eq requires=gen_toy_INC_init_opcode,gen_toy_INC_init_address properties=C06,C19 *)
From ArchSimGenEq Require Import GenEqTac.
From ArchSim Require Import Model.Mem Model.Toy.
From ArchSimGen Require Import GenToy.
Open Scope Z_scope.

Lemma gen_toy_INC_init_eq a : mk_tinstr 9 a = {| top := gen_toy_INC_init_opcode a; taddr := gen_toy_INC_init_address a |}.
Proof.
  unfold mk_tinstr, gen_toy_INC_init_opcode, gen_toy_INC_init_address.
  gen_eq.
Qed.

Print Assumptions gen_toy_INC_init_eq.
