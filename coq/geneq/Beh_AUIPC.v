(* GENEQ lemma=gen_AUIPC_behavior_eq requires=gen_AUIPC_behavior_rd properties=C01 *)
From ArchSimGenEq Require Import GenEqTac.
From ArchSim Require Import Model.RV Model.RVSplit.
From ArchSimGen Require Import GenRVTypes GenRV.
Open Scope Z_scope.

Lemma gen_AUIPC_behavior_eq imm pc :
    gen_AUIPC_behavior_rd imm pc = U32 (pc + Z.shiftl imm 12).
Proof.
  unfold gen_AUIPC_behavior_rd.
  gen_eq.
Qed.

Print Assumptions gen_AUIPC_behavior_eq.
