(* GENEQ lemma=gen_ECALL_init_eq requires=gen_ECALL_init_rd,gen_ECALL_init_rs1,gen_ECALL_init_imm properties=C01 *)
From ArchSimGenEq Require Import GenEqTac.
From ArchSim Require Import Model.RV Model.RVSplit.
From ArchSimGen Require Import GenRVTypes GenRV.
Open Scope Z_scope.

Lemma gen_ECALL_init_eq rd rs1 imm :
    gen_ECALL_init_rd rd rs1 imm = 0 /\ gen_ECALL_init_rs1 rd rs1 imm = 0 /\ gen_ECALL_init_imm rd rs1 imm = 0.
Proof.
  unfold gen_ECALL_init_rd, gen_ECALL_init_rs1, gen_ECALL_init_imm.
  repeat split; gen_eq.
Qed.

Print Assumptions gen_ECALL_init_eq.
