(* GENEQ lemma=gen_JALR_behavior_eq requires=gen_JALR_behavior_rd,gen_JALR_behavior_pc properties=C01 *)
From ArchSimGenEq Require Import GenEqTac.
From ArchSim Require Import Model.RV Model.RVSplit.
From ArchSimGen Require Import GenRVTypes GenRV.
Open Scope Z_scope.

Lemma gen_JALR_behavior_eq pc imm a :
    gen_JALR_behavior_rd pc = U32 (pc + 4) /\
    gen_JALR_behavior_pc imm 4 a = Z.land (I32 (I32 a + I16 imm)) (2 ^ 32 - 2) - 4.
Proof.
  unfold gen_JALR_behavior_rd, gen_JALR_behavior_pc.
  repeat split; gen_eq.
Qed.

Print Assumptions gen_JALR_behavior_eq.
