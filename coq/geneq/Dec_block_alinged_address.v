(* GENEQ lemma=gen_DecodedAddress_init_block_alinged_address_eq requires=gen_DecodedAddress_init_block_alinged_address properties=C03,C09 *)
From ArchSimGenEq Require Import GenEqTac.
From ArchSim Require Import Model.Mem Model.Cache.
From ArchSimGen Require Import GenDecoded.
Open Scope Z_scope.

Lemma gen_DecodedAddress_init_block_alinged_address_eq ib bb a : da_balign (decode_addr ib bb a) = gen_DecodedAddress_init_block_alinged_address ib bb a.
Proof.
  unfold decode_addr, gen_DecodedAddress_init_block_alinged_address.
  cbn [da_balign]. gen_eq.
Qed.

Print Assumptions gen_DecodedAddress_init_block_alinged_address_eq.
