(* GENEQ lemma=gen_LH_behavior_eq requires=gen_LH_behavior_rd,gen_LH_behavior_mem_addr properties=C01 *)
From ArchSimGenEq Require Import GenEqTac.
From ArchSim Require Import Model.RV Model.RVSplit.
From ArchSimGen Require Import GenRVTypes GenRV.
Open Scope Z_scope.

Lemma gen_LH_behavior_eq v imm a :
    gen_LH_behavior_rd v = load_ext LH v /\
    gen_LH_behavior_mem_addr imm a = a + imm.
Proof.
  unfold gen_LH_behavior_rd, gen_LH_behavior_mem_addr, load_ext.
  repeat split; gen_eq.
Qed.

Print Assumptions gen_LH_behavior_eq.
