(* GENEQ lemma=gen_REM_init_eq requires=gen_REM_init_rd,gen_REM_init_rs1,gen_REM_init_rs2 properties=C01 *)
From ArchSimGenEq Require Import GenEqTac.
From ArchSim Require Import Model.RV Model.RVSplit.
From ArchSimGen Require Import GenRVTypes GenRV.
Open Scope Z_scope.

Lemma gen_REM_init_eq rd rs1 rs2 : mk (IR REM rd rs1 rs2) = IR REM (gen_REM_init_rd rd rs1 rs2) (gen_REM_init_rs1 rd rs1 rs2) (gen_REM_init_rs2 rd rs1 rs2).
Proof.
  unfold gen_REM_init_rd, gen_REM_init_rs1, gen_REM_init_rs2, mk, sext12, sext13, sext20, sext21.
  gen_eq.
Qed.

Print Assumptions gen_REM_init_eq.
