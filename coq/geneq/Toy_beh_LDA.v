(* GENEQ lemma=gen_toy_LDA_behavior_eq requires=gen_toy_LDA_behavior_accu,gen_toy_LDA_behavior_vis_alu_out,gen_toy_LDA_behavior_vis_ram_out,gen_toy_LDA_behavior_mem_addr properties=C06,C19 *)
From ArchSimGenEq Require Import GenEqTac.
From ArchSim Require Import Model.Mem Model.Toy.
From ArchSimGen Require Import GenToy.
Open Scope Z_scope.

Lemma gen_toy_LDA_behavior_eq v a :
    gen_toy_LDA_behavior_accu v = v /\ gen_toy_LDA_behavior_vis_alu_out v = v /\
    gen_toy_LDA_behavior_vis_ram_out v = v /\ gen_toy_LDA_behavior_mem_addr a = a.
Proof.
  unfold gen_toy_LDA_behavior_accu, gen_toy_LDA_behavior_vis_alu_out, gen_toy_LDA_behavior_vis_ram_out, gen_toy_LDA_behavior_mem_addr.
  repeat split; gen_eq.
Qed.

Print Assumptions gen_toy_LDA_behavior_eq.
