(* GENEQ lemma=gen_BTypeInstruction_init_imm_eq requires=gen_BTypeInstruction_init_imm properties=C01 *)
From ArchSimGenEq Require Import GenEqTac.
From ArchSim Require Import Model.RV Model.RVSplit.
From ArchSimGen Require Import GenRVTypes GenRV.
Open Scope Z_scope.

Lemma gen_BTypeInstruction_init_imm_eq rs1 rs2 imm : gen_BTypeInstruction_init_imm rs1 rs2 imm = sext13 imm.
Proof.
  unfold gen_BTypeInstruction_init_imm, sext13.
  gen_eq.
Qed.

Print Assumptions gen_BTypeInstruction_init_imm_eq.
