(* GENEQ lemma=gen_LUI_init_eq requires=gen_LUI_init_rd,gen_LUI_init_imm properties=C01 *)
From ArchSimGenEq Require Import GenEqTac.
From ArchSim Require Import Model.RV Model.RVSplit.
From ArchSimGen Require Import GenRVTypes GenRV.
Open Scope Z_scope.

Lemma gen_LUI_init_eq rd imm : mk (ILui rd imm) = ILui (gen_LUI_init_rd rd imm) (gen_LUI_init_imm rd imm).
Proof.
  unfold gen_LUI_init_rd, gen_LUI_init_imm, mk, sext12, sext13, sext20, sext21.
  gen_eq.
Qed.

Print Assumptions gen_LUI_init_eq.
