(* GENEQ lemma=gen_DecodedAddress_init_tag_eq requires=gen_DecodedAddress_init_tag properties=C03,C09 *)
From ArchSimGenEq Require Import GenEqTac.
From ArchSim Require Import Model.Mem Model.Cache.
From ArchSimGen Require Import GenDecoded.
Open Scope Z_scope.

Lemma gen_DecodedAddress_init_tag_eq ib bb a : da_tag (decode_addr ib bb a) = gen_DecodedAddress_init_tag ib bb a.
Proof.
  unfold decode_addr, gen_DecodedAddress_init_tag.
  cbn [da_tag]. gen_eq.
Qed.

Print Assumptions gen_DecodedAddress_init_tag_eq.
