(* GENEQ lemma=gen_CSRRW_init_eq requires=gen_CSRRW_init_rd,gen_CSRRW_init_csr,gen_CSRRW_init_rs1 properties=C01 *)
From ArchSimGenEq Require Import GenEqTac.
From ArchSim Require Import Model.RV Model.RVSplit.
From ArchSimGen Require Import GenRVTypes GenRV.
Open Scope Z_scope.

Lemma gen_CSRRW_init_eq rd csr rs1 : mk (ICsr CSRRW rd csr rs1) = ICsr CSRRW (gen_CSRRW_init_rd rd csr rs1) (gen_CSRRW_init_csr rd csr rs1) (gen_CSRRW_init_rs1 rd csr rs1).
Proof.
  unfold gen_CSRRW_init_rd, gen_CSRRW_init_csr, gen_CSRRW_init_rs1, mk, sext12, sext13, sext20, sext21.
  gen_eq.
Qed.

Print Assumptions gen_CSRRW_init_eq.
