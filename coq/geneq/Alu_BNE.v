(* GENEQ lemma=gen_BNE_alu_compute_eq requires=gen_BNE_alu_compute properties=C02 *)
From ArchSimGenEq Require Import GenEqTac.
From ArchSim Require Import Model.RV Model.RVSplit.
From ArchSimGen Require Import GenRVTypes GenRV.
Open Scope Z_scope.

Lemma gen_BNE_alu_compute_eq a b : gen_BNE_alu_compute a b = (b_alu BNE a b, tt).
Proof.
  unfold gen_BNE_alu_compute, b_alu.
  gen_eq.
Qed.

Print Assumptions gen_BNE_alu_compute_eq.
