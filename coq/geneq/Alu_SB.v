(* GENEQ lemma=gen_SB_alu_compute_eq requires=gen_SB_alu_compute properties=C02 *)
From ArchSimGenEq Require Import GenEqTac.
From ArchSim Require Import Model.RV Model.RVSplit.
From ArchSimGen Require Import GenRVTypes GenRV.
Open Scope Z_scope.

Lemma gen_SB_alu_compute_eq a b : gen_SB_alu_compute a b = (tt, match a, b with Some x, Some y => Some (x + y) | _, _ => None end).
Proof.
  unfold gen_SB_alu_compute, gen_STypeInstruction_alu_compute.
  gen_eq.
Qed.

Print Assumptions gen_SB_alu_compute_eq.
