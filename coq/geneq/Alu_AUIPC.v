(* GENEQ lemma=gen_AUIPC_alu_compute_eq requires=gen_AUIPC_alu_compute properties=C02 *)
From ArchSimGenEq Require Import GenEqTac.
From ArchSim Require Import Model.RV Model.RVSplit.
From ArchSimGen Require Import GenRVTypes GenRV.
Open Scope Z_scope.

Lemma gen_AUIPC_alu_compute_eq a b : gen_AUIPC_alu_compute a b = (tt, a + b).
Proof.
  unfold gen_AUIPC_alu_compute.
  gen_eq.
Qed.

Print Assumptions gen_AUIPC_alu_compute_eq.
