(* GENEQ lemma=gen_LUI_behavior_eq requires=gen_LUI_behavior_rd properties=C01 *)
From ArchSimGenEq Require Import GenEqTac.
From ArchSim Require Import Model.RV Model.RVSplit.
From ArchSimGen Require Import GenRVTypes GenRV.
Open Scope Z_scope.

Lemma gen_LUI_behavior_eq imm :
    gen_LUI_behavior_rd imm = U32 (Z.shiftl imm 12).
Proof.
  unfold gen_LUI_behavior_rd.
  gen_eq.
Qed.

Print Assumptions gen_LUI_behavior_eq.
