(* GENEQ lemma=gen_toy_INC_behavior_eq requires=gen_toy_INC_behavior_accu,gen_toy_INC_behavior_vis_alu_out,gen_toy_INC_behavior_vis_accu_old properties=C06,C19 *)
From ArchSimGenEq Require Import GenEqTac.
From ArchSim Require Import Model.Mem Model.Toy.
From ArchSimGen Require Import GenToy.
Open Scope Z_scope.

Lemma gen_toy_INC_behavior_eq a s :
    toy_behavior {| top := 9; taddr := a |} s =
      (t_with_core s (t_pc s) (gen_toy_INC_behavior_accu (t_accu s)) (t_mem s)
         (unary_vis (gen_toy_INC_behavior_vis_accu_old (t_accu s)) (gen_toy_INC_behavior_vis_alu_out (t_accu s)))
         (t_bcount s), None).
Proof.
  unfold toy_behavior, gen_toy_INC_behavior_accu, gen_toy_INC_behavior_vis_alu_out, gen_toy_INC_behavior_vis_accu_old.
  cbn [top taddr]. closed_tests. cbv zeta. gen_eq.
Qed.

Print Assumptions gen_toy_INC_behavior_eq.
