(* GENEQ lemma=gen_halfword_into_block_eq requires=gen_halfword_into_block_store_index,gen_halfword_into_block_store_value,gen_halfword_into_block_raises,gen_halfword_into_block_raise_args properties=C03,C09 *)
From ArchSimGenEq Require Import GenEqTac.
From ArchSim Require Import Model.Mem Model.Cache.
From ArchSimGen Require Import GenIntManip.
Open Scope Z_scope.

Lemma gen_halfword_into_block_eq da blk v :
    into_block 16 da blk v =
      if gen_halfword_into_block_raises v (da_byoff da)
      then Err (EOffset (fst (gen_halfword_into_block_raise_args v (da_byoff da))) (snd (gen_halfword_into_block_raise_args v (da_byoff da))))
      else Ok (set_nthZ blk (gen_halfword_into_block_store_index v (da_boff da))
                 (gen_halfword_into_block_store_value v (da_byoff da) (nthZ blk (da_boff da) 0))).
Proof.
  unfold into_block, gen_halfword_into_block_store_index, gen_halfword_into_block_store_value, gen_halfword_into_block_raises, gen_halfword_into_block_raise_args.
  closed_tests. cbn [fst snd]. gen_eq.
Qed.

Print Assumptions gen_halfword_into_block_eq.
