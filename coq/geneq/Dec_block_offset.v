(* GENEQ lemma=gen_DecodedAddress_init_block_offset_eq requires=gen_DecodedAddress_init_block_offset properties=C03,C09 *)
From ArchSimGenEq Require Import GenEqTac.
From ArchSim Require Import Model.Mem Model.Cache.
From ArchSimGen Require Import GenDecoded.
Open Scope Z_scope.

Lemma gen_DecodedAddress_init_block_offset_eq ib bb a : da_boff (decode_addr ib bb a) = gen_DecodedAddress_init_block_offset ib bb a.
Proof.
  unfold decode_addr, gen_DecodedAddress_init_block_offset.
  cbn [da_boff]. gen_eq.
Qed.

Print Assumptions gen_DecodedAddress_init_block_offset_eq.
