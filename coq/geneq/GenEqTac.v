(* GenEqTac.v -- shared tactics for the equality lemmas "generated definition = hand model"
   (DESIGN.md section 4.2).  Every lemma file of this directory ends with [gen_eq] after unfolding
   the generated definition and the model definition it is compared with.

   [gen_eq] never calls [reflexivity] on terms that are not syntactically equal: conversion on two
   different word-arithmetic terms (nested [Z.modulo]) can diverge, and a broken obligation must
   fail quickly.  It descends through equal heads ([f_equal]) and closes the leaves by linear
   arithmetic over the exposed [mod 2^n] of the fixedint casts, so that harmless rewrites of the
   Python source (commuted operands, a redundant cast, a re-associated sum) keep the lemma alive,
   while a changed constant, operator, cast or comparison breaks it. *)
From Coq Require Export ZArith Lia Bool ZifyBool.
From ArchSim Require Export Model.Base.
From ArchSim Require Import Model.RV.
Open Scope Z_scope.

(* no shared cache file: the lemma files are compiled in parallel *)
#[global] Unset Lia Cache.
#[global] Unset Nia Cache.

Ltac Zify.zify_post_hook ::= Z.to_euclidean_division_equations.

Lemma div_in32 a b : 0 <= a < 4294967296 -> 0 < b -> (a / b) mod 4294967296 = a / b.
Proof.
  intros Ha Hb. apply Z.mod_small. split.
  - apply Z.div_pos; lia.
  - apply Z.div_lt_upper_bound; nia.
Qed.

Lemma mod_in32 a b : 0 <= a < 4294967296 -> 0 < b -> (a mod b) mod 4294967296 = a mod b.
Proof.
  intros Ha Hb. apply Z.mod_small.
  pose proof (Z.mod_pos_bound a b Hb). pose proof (Z.mod_le a b ltac:(lia) Hb). lia.
Qed.

Lemma land15_range x : 0 <= Z.land x 15 < 16.
Proof.
  change 15 with (Z.ones 4). rewrite Z.land_ones by lia. apply Z.mod_pos_bound. reflexivity.
Qed.

(* expose the modular arithmetic hidden in the fixedint casts, with literal moduli *)
Ltac word_norm :=
  cbv beta delta [U32 U16 U8 U12 I32 I16 I8 U I b2z] in *; cbv zeta in *;
  change (2 ^ 8) with 256 in *; change (2 ^ (8 - 1)) with 128 in *;
  change (2 ^ 12) with 4096 in *; change (2 ^ (12 - 1)) with 2048 in *;
  change (2 ^ 16) with 65536 in *; change (2 ^ (16 - 1)) with 32768 in *;
  change (2 ^ 32) with 4294967296 in *; change (2 ^ (32 - 1)) with 2147483648 in *;
  change (2 ^ 64) with 18446744073709551616 in *;
  change (2 ^ (64 - 1)) with 9223372036854775808 in *.

(* syntactic equality only (a non-linear Ltac pattern would test convertibility) *)
Ltac syn_refl := match goal with |- ?x = ?y => constr_eq x y; reflexivity end.

(* both sides closed (no variable at all): evaluate *)
Ltac has_var t := match t with context [?v] => is_var v end.
Ltac closed_refl :=
  match goal with
  | |- ?x = ?y =>
      tryif has_var x then fail else
      tryif has_var y then fail else (vm_compute; reflexivity)
  end.

(* [f_equal] only below syntactically equal heads (it pairs arguments positionally otherwise) *)
Ltac head_of t := match t with ?f _ => head_of f | _ => t end.
Ltac same_head :=
  match goal with
  | |- ?x = ?y => let hx := head_of x in let hy := head_of y in constr_eq hx hy
  end.

Ltac split_ifs :=
  repeat match goal with
         | |- context [if ?c then _ else _] => destruct c eqn:?
         end.

(* a leaf: expose the casts and decide by linear arithmetic (case split on the signed casts);
   the two non-linear facts needed by DIVU/REMU are supplied as lemmas *)
Ltac leaf :=
  word_norm;
  solve [ lia | split_ifs; lia | apply div_in32; lia | apply mod_in32; lia | closed_refl ].

(* equal heads: descend; otherwise the two sides must be equal as word-arithmetic terms *)
Ltac peel :=
  first
    [ syn_refl
    | solve [ same_head; progress f_equal; peel ]
    | solve [ leaf ]
    | match goal with
      | |- context [if ?c then _ else _] => solve [ destruct c eqn:?; peel ]
      | |- context [match ?x with Some _ => _ | None => _ end] => solve [ destruct x; peel ]
      end ].

Ltac gen_eq := intros; cbv beta iota delta [U32 U16 U8 U12 I32 I16 I8 b2z]; peel.

(* evaluate the closed opcode tests of [toy_behavior] / [from_block] / [into_block] *)
Ltac closed_tests :=
  repeat match goal with
         | |- context [Z.eqb ?a ?b] =>
             let v := eval vm_compute in (Z.eqb a b) in
             match v with true => idtac | false => idtac end;
             change (Z.eqb a b) with v
         | |- context [Z.leb ?a ?b] =>
             let v := eval vm_compute in (Z.leb a b) in
             match v with true => idtac | false => idtac end;
             change (Z.leb a b) with v
         end;
  cbv beta iota.
