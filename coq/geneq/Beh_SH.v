(* GENEQ lemma=gen_SH_behavior_eq requires=gen_SH_behavior_mem_addr,gen_SH_behavior_mem_value properties=C01 *)
From ArchSimGenEq Require Import GenEqTac.
From ArchSim Require Import Model.RV Model.RVSplit.
From ArchSimGen Require Import GenRVTypes GenRV.
Open Scope Z_scope.

Lemma gen_SH_behavior_eq imm a v :
    gen_SH_behavior_mem_addr imm a = U32 (a + U32 imm) /\
    gen_SH_behavior_mem_value v = U (store_bits SH) v.
Proof.
  unfold gen_SH_behavior_mem_addr, gen_SH_behavior_mem_value, store_bits.
  repeat split; gen_eq.
Qed.

Print Assumptions gen_SH_behavior_eq.
