(* GENEQ lemma=gen_JAL_behavior_eq requires=gen_JAL_behavior_rd,gen_JAL_behavior_pc,gen_JAL_behavior_procedure_count properties=C01 *)
From ArchSimGenEq Require Import GenEqTac.
From ArchSim Require Import Model.RV Model.RVSplit.
From ArchSimGen Require Import GenRVTypes GenRV.
Open Scope Z_scope.

Lemma gen_JAL_behavior_eq pc imm n :
    gen_JAL_behavior_rd pc = U32 (pc + 4) /\
    gen_JAL_behavior_pc imm 4 pc = pc + (imm - 4) /\
    gen_JAL_behavior_procedure_count n = n + 1.
Proof.
  unfold gen_JAL_behavior_rd, gen_JAL_behavior_pc, gen_JAL_behavior_procedure_count.
  repeat split; gen_eq.
Qed.

Print Assumptions gen_JAL_behavior_eq.
