(* GENEQ lemma=gen_word_into_block_eq requires=gen_word_into_block_store_index,gen_word_into_block_store_value,gen_word_into_block_raises,gen_word_into_block_raise_args properties=C03,C09 *)
From ArchSimGenEq Require Import GenEqTac.
From ArchSim Require Import Model.Mem Model.Cache.
From ArchSimGen Require Import GenIntManip.
Open Scope Z_scope.

Lemma gen_word_into_block_eq da blk v :
    into_block 32 da blk v =
      if gen_word_into_block_raises v (da_byoff da)
      then Err (EOffset (fst (gen_word_into_block_raise_args v (da_byoff da))) (snd (gen_word_into_block_raise_args v (da_byoff da))))
      else Ok (set_nthZ blk (gen_word_into_block_store_index v (da_boff da)) (gen_word_into_block_store_value v)).
Proof.
  unfold into_block, gen_word_into_block_store_index, gen_word_into_block_store_value, gen_word_into_block_raises, gen_word_into_block_raise_args.
  closed_tests. cbn [fst snd]. gen_eq.
Qed.

Print Assumptions gen_word_into_block_eq.
