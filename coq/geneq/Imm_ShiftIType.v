(* GENEQ lemma=gen_ShiftITypeInstruction_init_imm_eq requires=gen_ShiftITypeInstruction_init_imm properties=C01 *)
From ArchSimGenEq Require Import GenEqTac.
From ArchSim Require Import Model.RV Model.RVSplit.
From ArchSimGen Require Import GenRVTypes GenRV.
Open Scope Z_scope.

Lemma gen_ShiftITypeInstruction_init_imm_eq rd rs1 imm : gen_ShiftITypeInstruction_init_imm rd rs1 imm = Z.land imm 31.
Proof.
  unfold gen_ShiftITypeInstruction_init_imm.
  gen_eq.
Qed.

Print Assumptions gen_ShiftITypeInstruction_init_imm_eq.
