(* GENEQ lemma=gen_SRAI_alu_compute_eq requires=gen_SRAI_alu_compute properties=C02 *)
From ArchSimGenEq Require Import GenEqTac.
From ArchSim Require Import Model.RV Model.RVSplit.
From ArchSimGen Require Import GenRVTypes GenRV.
Open Scope Z_scope.

Lemma gen_SRAI_alu_compute_eq a b : gen_SRAI_alu_compute a b = (tt, sh_alu SRAI a b).
Proof.
  unfold gen_SRAI_alu_compute, sh_alu.
  gen_eq.
Qed.

Print Assumptions gen_SRAI_alu_compute_eq.
