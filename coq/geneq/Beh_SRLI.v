(* GENEQ lemma=gen_SRLI_behavior_eq requires=gen_SRLI_behavior_rd properties=C01 *)
From ArchSimGenEq Require Import GenEqTac.
From ArchSim Require Import Model.RV Model.RVSplit.
From ArchSimGen Require Import GenRVTypes GenRV.
Open Scope Z_scope.

Lemma gen_SRLI_behavior_eq imm a :
    gen_SRLI_behavior_rd imm a = sh_behavior SRLI a imm.
Proof.
  unfold gen_SRLI_behavior_rd, sh_behavior.
  gen_eq.
Qed.

Print Assumptions gen_SRLI_behavior_eq.
