(* GENEQ lemma=gen_ORI_behavior_eq requires=gen_ORI_behavior_rd properties=C01 *)
From ArchSimGenEq Require Import GenEqTac.
From ArchSim Require Import Model.RV Model.RVSplit.
From ArchSimGen Require Import GenRVTypes GenRV.
Open Scope Z_scope.

Lemma gen_ORI_behavior_eq imm a :
    gen_ORI_behavior_rd imm a = i_behavior ORI a imm.
Proof.
  unfold gen_ORI_behavior_rd, i_behavior.
  gen_eq.
Qed.

Print Assumptions gen_ORI_behavior_eq.
