(* GENEQ lemma=gen_DecodedAddress_init_full_address_eq requires=gen_DecodedAddress_init_full_address properties=C03,C09 *)
From ArchSimGenEq Require Import GenEqTac.
From ArchSim Require Import Model.Mem Model.Cache.
From ArchSimGen Require Import GenDecoded.
Open Scope Z_scope.

Lemma gen_DecodedAddress_init_full_address_eq ib bb a : da_full (decode_addr ib bb a) = gen_DecodedAddress_init_full_address ib bb a.
Proof.
  unfold decode_addr, gen_DecodedAddress_init_full_address.
  cbn [da_full]. gen_eq.
Qed.

Print Assumptions gen_DecodedAddress_init_full_address_eq.
