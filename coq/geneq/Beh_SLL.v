(* GENEQ lemma=gen_SLL_behavior_eq requires=gen_SLL_behavior_rd properties=C01 *)
From ArchSimGenEq Require Import GenEqTac.
From ArchSim Require Import Model.RV Model.RVSplit.
From ArchSimGen Require Import GenRVTypes GenRV.
Open Scope Z_scope.

Lemma gen_SLL_behavior_eq a b :
    gen_SLL_behavior_rd a b = r_behavior SLL a b.
Proof.
  unfold gen_SLL_behavior_rd, r_behavior.
  gen_eq.
Qed.

Print Assumptions gen_SLL_behavior_eq.
