(* GENEQ lemma=gen_toy_SUB_behavior_eq requires=gen_toy_SUB_behavior_accu,gen_toy_SUB_behavior_vis_alu_out,gen_toy_SUB_behavior_vis_accu_old,gen_toy_SUB_behavior_vis_ram_out,gen_toy_SUB_behavior_mem_addr properties=C06,C19 *)
From ArchSimGenEq Require Import GenEqTac.
From ArchSim Require Import Model.Mem Model.Toy.
From ArchSimGen Require Import GenToy.
Open Scope Z_scope.

Lemma gen_toy_SUB_behavior_eq acc v a :
    gen_toy_SUB_behavior_accu acc v = toy_alu 4 acc v /\
    gen_toy_SUB_behavior_vis_alu_out acc v = toy_alu 4 acc v /\
    gen_toy_SUB_behavior_vis_accu_old acc = acc /\
    gen_toy_SUB_behavior_vis_ram_out v = v /\
    gen_toy_SUB_behavior_mem_addr a = a.
Proof.
  unfold gen_toy_SUB_behavior_accu, gen_toy_SUB_behavior_vis_alu_out, gen_toy_SUB_behavior_vis_accu_old, gen_toy_SUB_behavior_vis_ram_out, gen_toy_SUB_behavior_mem_addr, toy_alu.
  closed_tests. repeat split; gen_eq.
Qed.

Print Assumptions gen_toy_SUB_behavior_eq.
