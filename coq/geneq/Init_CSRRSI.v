(* GENEQ lemma=gen_CSRRSI_init_eq requires=gen_CSRRSI_init_rd,gen_CSRRSI_init_csr,gen_CSRRSI_init_uimm properties=C01 *)
From ArchSimGenEq Require Import GenEqTac.
From ArchSim Require Import Model.RV Model.RVSplit.
From ArchSimGen Require Import GenRVTypes GenRV.
Open Scope Z_scope.

Lemma gen_CSRRSI_init_eq rd csr uimm : mk (ICsri CSRRSI rd csr uimm) = ICsri CSRRSI (gen_CSRRSI_init_rd rd csr uimm) (gen_CSRRSI_init_csr rd csr uimm) (gen_CSRRSI_init_uimm rd csr uimm).
Proof.
  unfold gen_CSRRSI_init_rd, gen_CSRRSI_init_csr, gen_CSRRSI_init_uimm, mk, sext12, sext13, sext20, sext21.
  gen_eq.
Qed.

Print Assumptions gen_CSRRSI_init_eq.
