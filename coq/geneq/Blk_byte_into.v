(* GENEQ lemma=gen_byte_into_block_eq requires=gen_byte_into_block_store_index,gen_byte_into_block_store_value properties=C03,C09 *)
From ArchSimGenEq Require Import GenEqTac.
From ArchSim Require Import Model.Mem Model.Cache.
From ArchSimGen Require Import GenIntManip.
Open Scope Z_scope.

Lemma gen_byte_into_block_eq da blk v :
    into_block 8 da blk v =
      Ok (set_nthZ blk (gen_byte_into_block_store_index v (da_boff da))
            (gen_byte_into_block_store_value v (da_byoff da) (nthZ blk (da_boff da) 0))).
Proof.
  unfold into_block, gen_byte_into_block_store_index, gen_byte_into_block_store_value.
  closed_tests. gen_eq.
Qed.

Print Assumptions gen_byte_into_block_eq.
