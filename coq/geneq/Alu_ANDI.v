(* GENEQ lemma=gen_ANDI_alu_compute_eq requires=gen_ANDI_alu_compute properties=C02 *)
From ArchSimGenEq Require Import GenEqTac.
From ArchSim Require Import Model.RV Model.RVSplit.
From ArchSimGen Require Import GenRVTypes GenRV.
Open Scope Z_scope.

Lemma gen_ANDI_alu_compute_eq a b : gen_ANDI_alu_compute a b = (tt, i_alu ANDI a b).
Proof.
  unfold gen_ANDI_alu_compute, i_alu.
  gen_eq.
Qed.

Print Assumptions gen_ANDI_alu_compute_eq.
