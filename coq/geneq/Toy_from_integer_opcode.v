(* GENEQ lemma=gen_toy_from_integer_opcode_eq requires=gen_toy_ToyInstruction_from_integer_opcode properties=C06,C19 *)
From ArchSimGenEq Require Import GenEqTac.
From ArchSim Require Import Model.Mem Model.Toy.
From ArchSimGen Require Import GenToy.
Open Scope Z_scope.

Lemma gen_toy_from_integer_opcode_eq w : top (toy_decode w) = gen_toy_ToyInstruction_from_integer_opcode w.
Proof.
  unfold toy_decode, mk_tinstr, gen_toy_ToyInstruction_from_integer_opcode.
  cbn [top].
  pose proof (land15_range (Z.shiftr w 12)).
  set (op := Z.land (Z.shiftr w 12) 15) in *.
  split_ifs; lia.
Qed.

Print Assumptions gen_toy_from_integer_opcode_eq.
