(* GENEQ lemma=gen_JALR_alu_compute_eq requires=gen_JALR_alu_compute properties=C02 *)
From ArchSimGenEq Require Import GenEqTac.
From ArchSim Require Import Model.RV Model.RVSplit.
From ArchSimGen Require Import GenRVTypes GenRV.
Open Scope Z_scope.

Lemma gen_JALR_alu_compute_eq a b : gen_JALR_alu_compute a b = (tt, Z.land (a + b) (2 ^ 32 - 2)).
Proof.
  unfold gen_JALR_alu_compute.
  gen_eq.
Qed.

Print Assumptions gen_JALR_alu_compute_eq.
