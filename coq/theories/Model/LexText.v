(* LexText.v — load_program on a whole source TEXT for RISC-V: str.splitlines() (Model/ToyLex.v: splitlines, the
   model of Python's line splitting incl. \r\n, \v, \f, \x1c-\x1e, \x85, U+2028, U+2029) followed by the line
   pipeline of Model/Lex.v (sanitising, tokenizer) and the assembler of Model/Asm.v. *)
From ArchSim Require Import Model.Base Model.Mem Model.Cache Model.Fmt Model.RV Model.Toy Model.Asm.
From ArchSim Require Model.ToyLex Model.Lex.
Open Scope Z_scope.

Definition rv_lines (text : str) : list str := ToyLex.splitlines text.
Definition rv_load_program_text (s : st) (text : str) : st * option perr * option image :=
  Lex.rv_load_text s (rv_lines text).
