(* Asm.v — the RISC-V assembler AFTER tokenisation (riscv_parser.py, parser.py:_segment), the
   instruction printer (__repr__) and RiscvSimulation.load_program.  Model only.
   Input: per non-blank source line the token tree pyparsing returns, reduced to its named fields
   (label and variable names interned as integers by the harness; literals kept as strings so
   that the int(text, base=0) conversions are part of the model). *)
From Coq Require Import String.
From ArchSim Require Import Model.Base Model.Mem Model.Cache Model.Fmt Model.RV Model.Toy.
Open Scope Z_scope.

(** * Registers *)
Inductive regtok := RAbi (s : str) | RX (d : str).      (* "a0" / ['x', '10'] *)

Definition abi_table : list (str * Z) :=
  map (fun p : string * Z => (codes (fst p), snd p))
    [("zero", 0); ("ra", 1); ("sp", 2); ("gp", 3); ("tp", 4); ("t0", 5); ("t1", 6); ("t2", 7);
     ("s0", 8); ("fp", 8); ("s1", 9); ("a0", 10); ("a1", 11); ("a2", 12); ("a3", 13); ("a4", 14);
     ("a5", 15); ("a6", 16); ("a7", 17); ("s2", 18); ("s3", 19); ("s4", 20); ("s5", 21);
     ("s6", 22); ("s7", 23); ("s8", 24); ("s9", 25); ("s10", 26); ("s11", 27); ("t3", 28);
     ("t4", 29); ("t5", 30); ("t6", 31)]%string.

Fixpoint str_eqb (a b : str) : bool :=
  match a, b with
  | [], [] => true
  | x :: a', y :: b' => (x =? y) && str_eqb a' b'
  | _, _ => false
  end.

Fixpoint assoc_str (t : list (str * Z)) (k : str) : option Z :=
  match t with
  | [] => None
  | (k', v) :: r => if str_eqb k' k then Some v else assoc_str r k
  end.

(* _convert_register_name *)
Definition reg_num (r : regtok) : option Z :=
  match r with
  | RAbi s => assoc_str abi_table s
  | RX d => Some (digits_value 10 d)
  end.

(** * Literals: Python int(text, base=0) on the shapes the token pattern admits
   (optional '-', then 0x<hex> | 0b<bin> | <decimal digits>) *)
Definition all_zero (s : str) : bool := forallb (fun c => c =? 48) s.

Definition py_int0_unsigned (s : str) : option Z :=
  match s with
  | 48 :: 120 :: h => Some (digits_value 16 h)            (* 0x *)
  | 48 :: 98 :: b => Some (digits_value 2 b)              (* 0b *)
  | 48 :: _ :: _ => if all_zero s && (Z.of_nat (List.length s) <=? max_str_digits)
                    then Some 0 else None                  (* leading zero: only 0, 00, ... *)
  | _ => if Z.of_nat (List.length s) >? max_str_digits then None else Some (digits_value 10 s)
  end.

Definition py_int0 (s : str) : option Z :=
  match s with
  | 45 :: r => match py_int0_unsigned r with Some z => Some (- z) | None => None end
  | _ => py_int0_unsigned s
  end.

(* int(text) in base 10 (the .zero count) *)
Definition py_int10 (s : str) : option Z :=
  if Z.of_nat (List.length s) >? max_str_digits then None else Some (digits_value 10 s).

(** * Token trees *)
Record itok := {
  k_mn : Z;                                  (* mnemonic number; 54 li, 55 la, 56 mv *)
  k_rd : option regtok; k_rs1 : option regtok; k_rs2 : option regtok;
  k_reg1 : option regtok; k_reg2 : option regtok; k_rs : option regtok;
  k_imm : option str; k_csr : option str; k_uimm : option str; k_offset : option str;
  k_label : option Z;
  k_var : option (Z * option str) }.           (* variable name, index digits *)

Inductive tbody :=
| BStr (k : Z)            (* 0 "ecall" | 1 "ebreak" | 2 "nop" *)
| BIns (i : itok)
| BOther.                 (* a group without mnemonic (declaration or directive inside .text) *)

Inductive rline :=
| RDirective (d : Z)                                   (* 0 .text, 1 .data *)
| RVarDecl (name : Z) (ty : Z) (vals : list str)       (* ty: 0 byte, 1 half, 2 word *)
| RStrDecl (name : Z) (s : str)                        (* quoted string incl. the quotes *)
| RZeroDecl (name : Z) (v : str)
| RLabelDecl (name : Z)
| RInstr (inl : option Z) (b : tbody).

Definition rdir_of (l : rline) : option Z := match l with RDirective d => Some d | _ => None end.

(* entries of self.text after _list_access_at_zero_and_remove_inline_labels *)
Inductive tentry := ELabel (name : Z) | EBody (b : tbody).

Definition itok0 (mn : Z) : itok :=
  {| k_mn := mn; k_rd := None; k_rs1 := None; k_rs2 := None; k_reg1 := None; k_reg2 := None;
     k_rs := None; k_imm := None; k_csr := None; k_uimm := None; k_offset := None; k_label := None;
     k_var := None |}.

(* the token trees the expansions obtain by re-parsing formatted strings *)
Definition tok_rri (mn : Z) (r1 r2 : regtok) (imm : str) : itok :=   (* "mn r1, r2, imm" / "mn r1, imm(r2)" *)
  {| k_mn := mn; k_rd := None; k_rs1 := None; k_rs2 := None; k_reg1 := Some r1; k_reg2 := Some r2;
     k_rs := None; k_imm := Some imm; k_csr := None; k_uimm := None; k_offset := None; k_label := None;
     k_var := None |}.
Definition tok_u (mn : Z) (rd : regtok) (imm : str) : itok :=
  {| k_mn := mn; k_rd := Some rd; k_rs1 := None; k_rs2 := None; k_reg1 := None; k_reg2 := None;
     k_rs := None; k_imm := Some imm; k_csr := None; k_uimm := None; k_offset := None; k_label := None;
     k_var := None |}.

Definition x0tok : regtok := RX [48].
Definition MN_ADDI := 18. Definition MN_LUI := 43. Definition MN_JAL := 45. Definition MN_JALR := 32.
Definition MN_LI := 54. Definition MN_LA := 55. Definition MN_MV := 56.

Definition rop_of_mn (n : Z) : rop :=
  match n with
  | 0 => ADD | 1 => SUB | 2 => SLL | 3 => SLT | 4 => SLTU | 5 => XOR | 6 => SRL | 7 => SRA
  | 8 => OR | 9 => AND | 10 => MUL | 11 => MULH | 12 => MULHU | 13 => MULHSU | 14 => DIV
  | 15 => DIVU | 16 => REM | _ => REMU
  end.
Definition iop_of_mn (n : Z) : iop :=
  match n with 18 => ADDI | 19 => SLTI | 20 => SLTIU | 21 => XORI | 22 => ORI | _ => ANDI end.
Definition shop_of_mn (n : Z) : shop := match n with 24 => SLLI | 25 => SRLI | _ => SRAI end.
Definition lop_of_mn (n : Z) : lop :=
  match n with 27 => LB | 28 => LH | 29 => LW | 30 => LBU | _ => LHU end.
Definition sop_of_mn (n : Z) : sop := match n with 34 => SB | 35 => SH | _ => SW end.
Definition bop_of_mn (n : Z) : bop :=
  match n with 37 => BEQ | 38 => BNE | 39 => BLT | 40 => BGE | 41 => BLTU | _ => BGEU end.
Definition csrop_of_mn (n : Z) : csrop := match n with 48 => CSRRW | 49 => CSRRS | _ => CSRRC end.
Definition csriop_of_mn (n : Z) : csriop := match n with 51 => CSRRWI | 52 => CSRRSI | _ => CSRRCI end.

Definition is_load_mn (m : Z) : bool := (27 <=? m) && (m <=? 32).       (* lb lh lw lbu lhu jalr *)
Definition is_store_mn (m : Z) : bool := (34 <=? m) && (m <=? 36).
Definition in_instruction_map (m : Z) : bool := (0 <=? m) && (m <=? 53).

(** * Data segment (_write_data) *)
Definition vartab := list (Z * (Z * Z)).      (* name -> (address, element size) *)
Fixpoint var_lookup (t : vartab) (n : Z) : option (Z * Z) :=
  match t with
  | [] => None
  | (k, v) :: r => if k =? n then Some v else var_lookup r n
  end.

Definition align4 (a : Z) : Z := if a mod 4 =? 0 then a else a + (4 - a mod 4).

(* directly_write_to_lower_memory writes; an address error aborts the load *)
Definition dwrite (m : memsys) (nbits a v : Z) : pres memsys :=
  match ms_write m nbits a v true with
  | (None, m', _) => POk m'
  | (Some (EAddr x _ _ _), _, _) => PErr (PMemAddr x)
  | (Some _, _, _) => PErr (PUncaught 0)
  end.

Fixpoint write_vals (m : memsys) (nbits stride a : Z) (vals : list str) (ln : Z) : pres (memsys * Z) :=
  match vals with
  | [] => POk (m, a)
  | v :: t =>
      match py_int0 v with
      | None => PErr (PSyntax ln)            (* literal the tokenizer accepts but int() rejects *)
      | Some z =>
          match dwrite m nbits a (U nbits z) with
          | PErr e => PErr e
          | POk m' => write_vals m' nbits stride (a + stride) t ln
          end
      end
  end.

Fixpoint write_chars (m : memsys) (a : Z) (cs : str) : pres (memsys * Z) :=
  match cs with
  | [] => POk (m, a)
  | c :: t => match dwrite m 8 a (U8 c) with
              | PErr e => PErr e
              | POk m' => write_chars m' (a + 1) t
              end
  end.

Definition strip_quotes (s : str) : str := removelast (tl s).

Definition zero_elem_size (num_words : Z) : Z := 4.      (* element size recorded for .zero *)
(* the data segment must end at or below the end of the address space (MemorySizeException otherwise) *)
Definition data_limit : Z := 4294967296.

Fixpoint write_data (data : list (Z * rline)) (m : memsys) (a : Z) (vars : vartab)
  : pres (memsys * vartab) :=
  match data with
  | [] => POk (m, vars)
  | (ln, l) :: t =>
      let dup (name : Z) := match var_lookup vars name with Some _ => true | None => false end in
      match l with
      | RVarDecl name ty vals =>
          if dup name then PErr (PDataDup ln)
          else
            let a0 := align4 a in
            let '(nbits, stride) := if ty =? 0 then (8, 1) else if ty =? 1 then (16, 2) else (32, 4) in
            match write_vals m nbits stride a0 vals ln with
            | PErr e => PErr e
            | POk (m', a') =>
                if a' >? data_limit then PErr (PMemSize (data_limit / 4))
                else write_data t m' a' (vars ++ [(name, (a0, stride))])
            end
      | RStrDecl name s =>
          if dup name then PErr (PDataDup ln)
          else
            let a0 := align4 a in
            match write_chars m a0 (strip_quotes s) with
            | PErr e => PErr e
            | POk (m', a') =>
                match dwrite m' 8 a' 0 with
                | PErr e => PErr e
                | POk m'' =>
                    if a' + 1 >? data_limit then PErr (PMemSize (data_limit / 4))
                    else write_data t m'' (a' + 1) (vars ++ [(name, (a0, 1))])
                end
            end
      | RZeroDecl name v =>
          if dup name then PErr (PDataDup ln)
          else
            let a0 := align4 a in
            match py_int10 v with
            | None => PErr (PSyntax ln)
            | Some n =>
                if a0 + 4 * n >? data_limit then PErr (PMemSize (data_limit / 4))
                else write_data t m (a0 + 4 * n) (vars ++ [(name, (a0, zero_elem_size n))])
            end
      | _ => PErr (PDataSyntax ln)
      end
  end.

(** * _list_access_at_zero_and_remove_inline_labels *)
Fixpoint split_inline (text : list (Z * rline)) : list (Z * tentry) * zmap (* ln -> label *) :=
  match text with
  | [] => ([], [])
  | (ln, l) :: t =>
      let '(es, labs) := split_inline t in
      match l with
      | RLabelDecl name => ((ln, ELabel name) :: es, labs)
      | RInstr (Some name) b => ((ln, EBody b) :: es, (ln, name) :: labs)
      | RInstr None b => ((ln, EBody b) :: es, labs)
      | _ => ((ln, EBody BOther) :: es, labs)
      end
  end.

(** * Pseudo-instruction expansion (_process_pseudo_instructions) *)
(* lui/addi split of a 32-bit constant *)
Definition hi_lo (v : Z) : Z * Z :=
  let u := U32 v in
  let lo := Z.land u 4095 in
  let hi := Z.shiftr u 12 in
  (if (lo >? 2047) || (lo <? -2048) then hi + 1 else hi, lo).

Definition var_address (vars : vartab) (v : Z * option str) (ln : Z) : pres Z :=
  match var_lookup vars (fst v) with
  | None => PErr (PVariable ln)
  | Some (a, size) =>
      match snd v with
      | None => POk a
      | Some d => match py_int10 d with
                  | Some i => POk (a + size * i)
                  | None => PErr (PSyntax ln)
                  end
      end
  end.

Definition expand_one (vars : vartab) (ln : Z) (b : tbody) : pres (list tbody) :=
  match b with
  | BStr 2 => POk [BIns (tok_rri MN_ADDI x0tok x0tok [48])]             (* nop *)
  | BIns i =>
      let mn := k_mn i in
      if mn =? MN_LI then
        match k_rd i, k_imm i with
        | Some rd, Some s =>
            match py_int0 s with
            | None => PErr (PSyntax ln)
            | Some imm =>
                let '(hi, lo) := hi_lo imm in
                if (imm >? 2047) || (imm <? -2048) then
                  POk [BIns (tok_u MN_LUI rd (str_dec hi)); BIns (tok_rri MN_ADDI rd rd (str_dec lo))]
                else POk [BIns (tok_rri MN_ADDI rd x0tok (str_dec imm))]
            end
        | _, _ => PErr (PUncaught ln)
        end
      else if is_load_mn mn || (mn =? MN_LA) then
        match k_var i with
        | None => POk [b]
        | Some v =>
            match var_address vars v ln, k_reg1 i with
            | PErr e, _ => PErr e
            | POk a, Some r =>
                let '(hi, lo) := hi_lo a in
                let base := [BIns (tok_u MN_LUI r (str_dec hi)); BIns (tok_rri MN_ADDI r r (str_dec lo))] in
                if is_load_mn mn then POk (base ++ [BIns (tok_rri mn r r [48])]) else POk base
            | POk _, None => PErr (PUncaught ln)
            end
        end
      else if is_store_mn mn then
        match k_var i with
        | None => POk [b]
        | Some v =>
            match var_address vars v ln, k_reg1 i, k_reg2 i with
            | PErr e, _, _ => PErr e
            | POk a, Some r, Some rt =>
                let '(hi, lo) := hi_lo a in
                POk [BIns (tok_u MN_LUI rt (str_dec hi)); BIns (tok_rri MN_ADDI rt rt (str_dec lo));
                     BIns (tok_rri mn r rt [48])]
            | POk _, _, _ => PErr (PUncaught ln)
            end
        end
      else if mn =? MN_MV then
        match k_rd i, k_rs i with
        | Some rd, Some rs => POk [BIns (tok_rri MN_ADDI rd rs [48])]
        | _, _ => PErr (PUncaught ln)
        end
      else POk [b]
  | _ => POk [b]
  end.

Fixpoint expand_all (vars : vartab) (text : list (Z * tentry)) : pres (list (Z * tentry)) :=
  match text with
  | [] => POk []
  | (ln, e) :: t =>
      match e with
      | ELabel _ => match expand_all vars t with POk r => POk ((ln, e) :: r) | PErr x => PErr x end
      | EBody b =>
          match expand_one vars ln b with
          | PErr x => PErr x
          | POk bs =>
              match expand_all vars t with
              | POk r => POk (map (fun b' => (ln, EBody b')) bs ++ r)
              | PErr x => PErr x
              end
          end
      end
  end.

(** * Labels (_process_labels) *)
Definition body_is_instruction (b : tbody) : bool :=
  match b with
  | BStr k => (k =? 0) || (k =? 1)          (* ecall, ebreak; "nop" has been replaced *)
  | BIns i => in_instruction_map (k_mn i)
  | BOther => false
  end.

(* the in-line label of a source line is registered at the first entry of that line only *)
Fixpoint rv_labels (text : list (Z * tentry)) (inl : zmap) (addr : Z) (labels : zmap) (last_ln : option Z)
  : pres zmap :=
  match text with
  | [] => POk labels
  | (ln, e) :: t =>
      match e with
      | ELabel name =>
          match add_label labels name addr ln with
          | POk lb => rv_labels t inl addr lb (Some ln)
          | PErr x => PErr x
          end
      | EBody b =>
          let first := match last_ln with Some l => negb (l =? ln) | None => true end in
          let r := match mget_opt inl ln with
                   | Some name => if first then add_label labels name addr ln else POk labels
                   | None => POk labels
                   end in
          match r with
          | PErr x => PErr x
          | POk lb => rv_labels t inl (if body_is_instruction b then addr + 4 else addr) lb (Some ln)
          end
      end
  end.

(** * Instantiation (_write_instructions) *)
Definition need_reg (r : option regtok) (ln : Z) : pres Z :=
  match r with
  | Some t => match reg_num t with Some n => POk n | None => PErr (PUncaught ln) end
  | None => PErr (PUncaught ln)
  end.
Definition need_int (s : option str) (ln : Z) : pres Z :=
  match s with
  | Some t => match py_int0 t with Some z => POk z | None => PErr (PSyntax ln) end
  | None => PErr (PUncaught ln)
  end.

Definition pbind {A B} (r : pres A) (f : A -> pres B) : pres B :=
  match r with POk a => f a | PErr e => PErr e end.

(* _convert_label_or_imm *)
Definition label_or_imm (i : itok) (labels : zmap) (addr ln : Z) : pres Z :=
  match k_imm i with
  | Some s =>
      pbind (need_int (Some s) ln) (fun v => if v mod 2 =? 0 then POk v else PErr (POdd ln))
  | None =>
      pbind (match k_offset i with Some o => need_int (Some o) ln | None => POk 0 end) (fun off =>
      match k_label i with
      | Some l => match mget_opt labels l with
                  | Some a => POk (a + off - addr)
                  | None => PErr (PLabel ln)
                  end
      | None => PErr (PLabel ln)
      end)
  end.

Definition instantiate_one (i : itok) (labels : zmap) (addr ln : Z) : pres instr :=
  let mn := k_mn i in
  if negb (in_instruction_map mn) then PErr (PSyntax ln)
  else if mn <=? 17 then
    pbind (need_reg (k_rs1 i) ln) (fun rs1 => pbind (need_reg (k_rs2 i) ln) (fun rs2 =>
    pbind (need_reg (k_rd i) ln) (fun rd => POk (mk (IR (rop_of_mn mn) rd rs1 rs2)))))
  else if (mn <=? 33) || (mn =? 46) then      (* I-type classes: imm first, then rs1=reg2, rd=reg1 *)
    pbind (need_int (k_imm i) ln) (fun imm => pbind (need_reg (k_reg2 i) ln) (fun rs1 =>
    pbind (need_reg (k_reg1 i) ln) (fun rd =>
      POk (if mn <=? 23 then mk (II (iop_of_mn mn) rd rs1 imm)
           else if mn <=? 26 then mk (ISh (shop_of_mn mn) rd rs1 imm)
           else if mn <=? 31 then mk (ILoad (lop_of_mn mn) rd rs1 imm)
           else if mn =? 32 then mk (IJalr rd rs1 imm)
           else if mn =? 33 then IEcall else IEbreak))))
  else if mn <=? 36 then
    pbind (need_reg (k_reg2 i) ln) (fun rs1 => pbind (need_reg (k_reg1 i) ln) (fun rs2 =>
    pbind (need_int (k_imm i) ln) (fun imm => POk (mk (IStore (sop_of_mn mn) rs1 rs2 imm)))))
  else if mn <=? 42 then
    pbind (label_or_imm i labels addr ln) (fun imm =>
    pbind (need_reg (k_reg1 i) ln) (fun rs1 => pbind (need_reg (k_reg2 i) ln) (fun rs2 =>
      POk (mk (IBranch (bop_of_mn mn) rs1 rs2 imm)))))
  else if mn <=? 44 then
    pbind (need_reg (k_rd i) ln) (fun rd => pbind (need_int (k_imm i) ln) (fun imm =>
      POk (mk (if mn =? 43 then ILui rd imm else IAuipc rd imm))))
  else if mn =? 45 then
    pbind (label_or_imm i labels addr ln) (fun v =>
      let imm := match k_imm i with Some _ => v - addr | None => v end in
      pbind (need_reg (k_rd i) ln) (fun rd => POk (mk (IJal rd imm (imm + addr)))))
  else if mn =? 47 then POk IFence
  else if mn <=? 50 then
    pbind (need_reg (k_rd i) ln) (fun rd => pbind (need_int (k_csr i) ln) (fun csr =>
    pbind (need_reg (k_rs1 i) ln) (fun rs1 => POk (ICsr (csrop_of_mn mn) rd csr rs1))))
  else
    pbind (need_reg (k_rd i) ln) (fun rd => pbind (need_int (k_csr i) ln) (fun csr =>
    pbind (need_int (k_uimm i) ln) (fun u => POk (mk (ICsri (csriop_of_mn mn) rd csr u))))).

Fixpoint instantiate (text : list (Z * tentry)) (labels : zmap) (addr : Z) : pres (list instr) :=
  match text with
  | [] => POk []
  | (ln, e) :: t =>
      match e with
      | ELabel _ => instantiate t labels addr
      | EBody (BStr k) =>
          if k =? 0 then pbind (instantiate t labels (addr + 4)) (fun r => POk (IEcall :: r))
          else if k =? 1 then pbind (instantiate t labels (addr + 4)) (fun r => POk (IEbreak :: r))
          else instantiate t labels addr
      | EBody BOther => PErr (PSyntax ln)
      | EBody (BIns i) =>
          pbind (instantiate_one i labels addr ln) (fun ins =>
          pbind (instantiate t labels (addr + 4)) (fun r => POk (ins :: r)))
      end
  end.

(** * parse + RiscvSimulation.load_program *)
Record image := { i_instrs : list instr; i_labels : zmap; i_vars : vartab }.

Definition imem_limit : Z := 16384.

Definition assemble (toks : list (Z * rline)) (m : memsys) : pres (memsys * image) :=
  pbind (segment rdir_of toks) (fun dt =>
  let '(data, text0) := dt in
  let '(text1, inlabs) := split_inline text0 in
  pbind (write_data data m 16384 []) (fun mv =>
  let '(m', vars) := mv in
  pbind (expand_all vars text1) (fun text2 =>
  pbind (rv_labels text2 inlabs 0 [] None) (fun labels =>
  pbind (instantiate text2 labels 0) (fun ins =>
  (* write_instructions: instruction k at 4k, all inside [0, 2^14) *)
  if 4 * Z.of_nat (List.length ins) >? imem_limit then PErr (PMemAddr imem_limit)
  else POk (m', {| i_instrs := ins; i_labels := labels; i_vars := vars |})))))).

(* load_program: memory.reset(); instruction_memory.reset(); parse.  On an error the model keeps
   the state after the two resets (partial effects of a failing load are not observable through a
   later successful load, which resets again). *)
Definition rv_load (s : st) (toks : list (Z * rline)) : st * option perr * option image :=
  let s0 := with_im (with_ms s (ms_reset (ms s))) (im_reset (im s)) in
  match assemble toks (ms s0) with
  | PErr e => (s0, Some e, None)
  | POk (m', img) =>
      (with_im (with_ms s0 m') {| prog := i_instrs img; icc := icc (im s0) |}, None, Some img)
  end.

(** * __repr__ of instructions *)
Definition xreg (r : Z) : str := 120 :: str_dec r.
Definition sep : str := [44; 32].                       (* ", " *)

Definition mn_name (n : Z) : str :=
  codes (match n with
  | 0 => "add" | 1 => "sub" | 2 => "sll" | 3 => "slt" | 4 => "sltu" | 5 => "xor" | 6 => "srl"
  | 7 => "sra" | 8 => "or" | 9 => "and" | 10 => "mul" | 11 => "mulh" | 12 => "mulhu"
  | 13 => "mulhsu" | 14 => "div" | 15 => "divu" | 16 => "rem" | 17 => "remu"
  | 18 => "addi" | 19 => "slti" | 20 => "sltiu" | 21 => "xori" | 22 => "ori" | 23 => "andi"
  | 24 => "slli" | 25 => "srli" | 26 => "srai"
  | 27 => "lb" | 28 => "lh" | 29 => "lw" | 30 => "lbu" | 31 => "lhu" | 32 => "jalr" | 33 => "ecall"
  | 34 => "sb" | 35 => "sh" | 36 => "sw"
  | 37 => "beq" | 38 => "bne" | 39 => "blt" | 40 => "bge" | 41 => "bltu" | 42 => "bgeu"
  | 43 => "lui" | 44 => "auipc" | 45 => "jal" | 46 => "ebreak" | 47 => "fence"
  | 48 => "csrrw" | 49 => "csrrs" | 50 => "csrrc" | 51 => "csrrwi" | 52 => "csrrsi" | _ => "csrrci"
  end)%string.

Definition lower_hex (c : Z) : Z := if (65 <=? c) && (c <=? 70) then c + 32 else c.
(* Python hex(): "0x" + lower-case digits, "-0x.." for negative numbers *)
Definition py_hex (z : Z) : str :=
  if z <? 0 then 45 :: 48 :: 120 :: map lower_hex (fmt_nat 16 (- z))
  else 48 :: 120 :: map lower_hex (fmt_nat 16 z).

Definition instr_mn (i : instr) : Z :=
  match i with
  | IR o _ _ _ => match o with ADD => 0 | SUB => 1 | SLL => 2 | SLT => 3 | SLTU => 4 | XOR => 5 | SRL => 6
                  | SRA => 7 | OR => 8 | AND => 9 | MUL => 10 | MULH => 11 | MULHU => 12 | MULHSU => 13
                  | DIV => 14 | DIVU => 15 | REM => 16 | REMU => 17 end
  | II o _ _ _ => match o with ADDI => 18 | SLTI => 19 | SLTIU => 20 | XORI => 21 | ORI => 22 | ANDI => 23 end
  | ISh o _ _ _ => match o with SLLI => 24 | SRLI => 25 | SRAI => 26 end
  | ILoad o _ _ _ => match o with LB => 27 | LH => 28 | LW => 29 | LBU => 30 | LHU => 31 end
  | IJalr _ _ _ => 32 | IEcall => 33
  | IStore o _ _ _ => match o with SB => 34 | SH => 35 | SW => 36 end
  | IBranch o _ _ _ => match o with BEQ => 37 | BNE => 38 | BLT => 39 | BGE => 40 | BLTU => 41 | BGEU => 42 end
  | ILui _ _ => 43 | IAuipc _ _ => 44 | IJal _ _ _ => 45 | IEbreak => 46 | IFence => 47
  | ICsr o _ _ _ => match o with CSRRW => 48 | CSRRS => 49 | CSRRC => 50 end
  | ICsri o _ _ _ => match o with CSRRWI => 51 | CSRRSI => 52 | CSRRCI => 53 end
  end.

Definition instr_repr (i : instr) : str :=
  let m := mn_name (instr_mn i) in
  match i with
  | IR _ rd rs1 rs2 => m ++ [32] ++ xreg rd ++ sep ++ xreg rs1 ++ sep ++ xreg rs2
  | II _ rd rs1 imm | ISh _ rd rs1 imm | IJalr rd rs1 imm =>
      m ++ [32] ++ xreg rd ++ sep ++ xreg rs1 ++ sep ++ str_dec imm
  | ILoad _ rd rs1 imm => m ++ [32] ++ xreg rd ++ sep ++ str_dec imm ++ [40] ++ xreg rs1 ++ [41]
  | IStore _ rs1 rs2 imm => m ++ [32] ++ xreg rs2 ++ sep ++ str_dec imm ++ [40] ++ xreg rs1 ++ [41]
  | IBranch _ rs1 rs2 imm => m ++ [32] ++ xreg rs1 ++ sep ++ xreg rs2 ++ sep ++ str_dec imm
  | ILui rd imm | IAuipc rd imm => m ++ [32] ++ xreg rd ++ sep ++ str_dec imm
  | IJal rd _ abs => m ++ [32] ++ xreg rd ++ sep ++ str_dec abs
  | IEcall | IEbreak => m
  | IFence => m
  | ICsr _ rd csr rs1 => m ++ [32] ++ xreg rd ++ sep ++ py_hex csr ++ sep ++ xreg rs1
  | ICsri _ rd csr u => m ++ [32] ++ xreg rd ++ sep ++ py_hex csr ++ sep ++ str_dec u
  end.

(* the token tree the tokenizer produces for the printed text (used by the C14 theorems) *)
Definition xtok (r : Z) : regtok := RX (str_dec r).
Definition repr_tokens (i : instr) : tbody :=
  let mn := instr_mn i in
  match i with
  | IR _ rd rs1 rs2 =>
      BIns {| k_mn := mn; k_rd := Some (xtok rd); k_rs1 := Some (xtok rs1); k_rs2 := Some (xtok rs2);
              k_reg1 := None; k_reg2 := None; k_rs := None; k_imm := None; k_csr := None; k_uimm := None;
              k_offset := None; k_label := None; k_var := None |}
  | II _ rd rs1 imm | ISh _ rd rs1 imm | IJalr rd rs1 imm | ILoad _ rd rs1 imm =>
      BIns (tok_rri mn (xtok rd) (xtok rs1) (str_dec imm))
  | IStore _ rs1 rs2 imm => BIns (tok_rri mn (xtok rs2) (xtok rs1) (str_dec imm))
  | IBranch _ rs1 rs2 imm => BIns (tok_rri mn (xtok rs1) (xtok rs2) (str_dec imm))
  | ILui rd imm | IAuipc rd imm => BIns (tok_u mn (xtok rd) (str_dec imm))
  | IJal rd _ abs => BIns (tok_u mn (xtok rd) (str_dec abs))
  | IEcall => BStr 0
  | IEbreak => BStr 1
  | IFence => BOther
  | ICsr _ rd csr rs1 =>
      BIns {| k_mn := mn; k_rd := Some (xtok rd); k_rs1 := Some (xtok rs1); k_rs2 := None;
              k_reg1 := None; k_reg2 := None; k_rs := None; k_imm := None; k_csr := Some (py_hex csr);
              k_uimm := None; k_offset := None; k_label := None; k_var := None |}
  | ICsri _ rd csr u =>
      BIns {| k_mn := mn; k_rd := Some (xtok rd); k_rs1 := None; k_rs2 := None;
              k_reg1 := None; k_reg2 := None; k_rs := None; k_imm := None; k_csr := Some (py_hex csr);
              k_uimm := Some (str_dec u); k_offset := None; k_label := None; k_var := None |}
  end.
