(* Lex.v — the RISC-V tokenizer INSIDE the model: an executable lexer for one source line that mirrors
   the pyparsing grammar of riscv_parser.py (_pattern_line, lines 89-313) and the line pipeline of
   parser.py (_sanitize, _tokenize).  Input: the code points of one element of str.splitlines();
   output: the named fields of the token tree pyparsing returns (exactly what harness/rv_asm.py
   tokens_of extracts), with label/variable names still as strings; [lex_text] interns them in
   order of first occurrence like tokens_of and yields the [Asm.rline]s that [Asm.rv_load] consumes.

   pyparsing semantics mirrored here (pyparsing 3.3):
   - every element skips " \t\n\r" before matching, EXCEPT inside Combine (immediates, "+0x.." offsets
     after their own leading skip, name[index] references, quoted strings), whose parts must be adjacent;
   - oneOf = longest symbol that is a prefix of the input (no word boundary: "addx1,x2,x3" is add x1,x2,x3);
     caseless oneOf is a re.IGNORECASE regex (also matches U+0130/U+0131 for i, U+017F for s, U+212A for k,
     and then fails with KeyError in its parse action = syntax error if that alternative is selected);
     CaselessLiteral compares text.upper() (U+0131 matches I, U+017F matches S; no error afterwards);
   - "^" (Or) selects the alternative with the longest match, the first listed among equals, and only
     then StringEnd is required: no backtracking into shorter alternatives;
   - Optional / MatchFirst never backtrack once their content matched;
   - parseString expands tabs (str.expandtabs(8)) AFTER the line was stripped, so tabs inside quoted
     strings become spaces depending on the column. *)
From Coq Require Import String.
From ArchSim Require Import Model.Base Model.Mem Model.Cache Model.Fmt Model.RV Model.Toy Model.Asm.
Open Scope Z_scope.

(** * Character classes *)
Definition is_ws (c : Z) : bool := (c =? 32) || (c =? 9) || (c =? 10) || (c =? 13).   (* pyparsing default *)
Definition is_upper (c : Z) : bool := (65 <=? c) && (c <=? 90).
Definition is_lower (c : Z) : bool := (97 <=? c) && (c <=? 122).
Definition is_digit (c : Z) : bool := (48 <=? c) && (c <=? 57).
Definition is_alpha (c : Z) : bool := is_upper c || is_lower c.                      (* pp.alphas: ASCII only *)
Definition is_hex (c : Z) : bool :=
  is_digit c || ((65 <=? c) && (c <=? 70)) || ((97 <=? c) && (c <=? 102)).
Definition is_bin (c : Z) : bool := (c =? 48) || (c =? 49).
Definition is_lab1 (c : Z) : bool := is_alpha c || (c =? 95).
Definition is_labn (c : Z) : bool := is_alpha c || is_digit c || (c =? 95).
(* str.isspace(): the characters str.strip() removes *)
Definition py_isspace (c : Z) : bool :=
  ((9 <=? c) && (c <=? 13)) || ((28 <=? c) && (c <=? 32)) || (c =? 133) || (c =? 160) || (c =? 5760)
  || ((8192 <=? c) && (c <=? 8202)) || (c =? 8232) || (c =? 8233) || (c =? 8239) || (c =? 8287)
  || (c =? 12288).
(* the characters str.splitlines() splits at: they never occur inside a line *)
Definition is_linebreak (c : Z) : bool :=
  ((10 <=? c) && (c <=? 13)) || ((28 <=? c) && (c <=? 30)) || (c =? 133) || (c =? 8232) || (c =? 8233).

(* supported domain of [lex_line]: any sequence of code points that can be an element of splitlines() *)
Definition lex_domain (l : str) : bool := forallb (fun c => (0 <=? c) && negb (is_linebreak c)) l.

(** * _sanitize for one line *)
Fixpoint lstrip (s : str) : str :=
  match s with
  | c :: t => if py_isspace c then lstrip t else s
  | [] => []
  end.
Definition py_strip (s : str) : str := rev (lstrip (rev (lstrip s))).
Fixpoint before_hash (s : str) : str :=            (* line.split("#", 1)[0] *)
  match s with
  | [] => []
  | c :: t => if c =? 35 then [] else c :: before_hash t
  end.
(* None: the line is dropped (blank, or its first non-blank character is '#') *)
Definition sanitize (l : str) : option str :=
  match lstrip l with
  | [] => None
  | c :: _ => if c =? 35 then None else Some (py_strip (before_hash l))
  end.

(* str.expandtabs(8); col = current column mod 8 *)
Fixpoint expandtabs (col : nat) (s : str) : str :=
  match s with
  | [] => []
  | c :: t =>
      if c =? 9 then repeat 32 (8 - col) ++ expandtabs 0 t
      else if (c =? 10) || (c =? 13) then c :: expandtabs 0 t
      else c :: expandtabs (if Nat.eqb col 7 then 0 else S col)%nat t
  end.

(** * Primitive matchers.  [lit]/[span]/[word] do not skip blanks; the t-versions do. *)
Fixpoint skip_ws (s : str) : str :=
  match s with
  | c :: t => if is_ws c then skip_ws t else s
  | [] => []
  end.
Fixpoint lit (w s : str) : option str :=
  match w with
  | [] => Some s
  | a :: w' => match s with
               | c :: t => if c =? a then lit w' t else None
               | [] => None
               end
  end.
Definition tlit (w s : str) : option str := lit w (skip_ws s).
Fixpoint span (p : Z -> bool) (s : str) : str * str :=
  match s with
  | c :: t => if p c then let (a, r) := span p t in (c :: a, r) else ([], s)
  | [] => ([], [])
  end.
Definition span1 (p : Z -> bool) (s : str) : option (str * str) :=      (* Word(chars) *)
  match span p s with
  | ([], _) => None
  | (a, r) => Some (a, r)
  end.
Definition word (s : str) : option (str * str) :=                       (* Word(alphas+"_", alphanums+"_") *)
  match s with
  | c :: t => if is_lab1 c then let (a, r) := span is_labn t in Some (c :: a, r) else None
  | [] => None
  end.

(* longest of the (case-sensitive) symbols that is a prefix of the input: non-caseless oneOf *)
Fixpoint lit_best (syms : list str) (s : str) : option (str * str) :=
  match syms with
  | [] => None
  | w :: ws =>
      let rest := lit_best ws s in
      match lit w s with
      | Some r => match rest with
                  | Some (w', _) => if (List.length w <? List.length w')%nat then rest else Some (w, r)
                  | None => Some (w, r)
                  end
      | None => rest
      end
  end.

(* caseless character tests; [a] is a lower-case ASCII letter of the symbol *)
Definition ci_regex (a c : Z) : bool :=
  (c =? a) || (c =? a - 32) || ((a =? 105) && ((c =? 304) || (c =? 305))) || ((a =? 115) && (c =? 383))
  || ((a =? 107) && (c =? 8490)).
Definition ci_upper (a c : Z) : bool :=
  (c =? a) || (c =? a - 32) || ((a =? 105) && (c =? 305)) || ((a =? 115) && (c =? 383)).
(* caseless literal; the flag says that the matched text is pure ASCII *)
Fixpoint ci_lit (cm : Z -> Z -> bool) (w s : str) : option (bool * str) :=
  match w with
  | [] => Some (true, s)
  | a :: w' =>
      match s with
      | c :: t => if cm a c
                  then match ci_lit cm w' t with
                       | Some (p, r) => Some ((c <? 128) && p, r)
                       | None => None
                       end
                  else None
      | [] => None
      end
  end.
(* caseless oneOf over (symbol, mnemonic number): longest matching symbol *)
Fixpoint kw_best (syms : list (str * Z)) (s : str) : option (Z * bool * str) :=
  match syms with
  | [] => None
  | (w, n) :: ws =>
      let rest := kw_best ws s in
      match ci_lit ci_regex w s with
      | Some (p, r) =>
          match rest with
          | Some (_, _, r') => if (List.length r' <? List.length r)%nat then rest else Some (n, p, r)
          | None => Some (n, p, r)
          end
      | None => rest
      end
  end.

Notation "'let?' x ':=' e 'in' k" := (match e with Some x => k | None => None end)
  (at level 200, x pattern, e at level 200, k at level 200, only parsing).

(** * Tokens *)
Definition abi_names : list str := map fst abi_table.
Definition reg_numbers : list str := map str_dec (zrange_from 0 32).

(* _pattern_register = oneOf(abi names) | Group("x" + oneOf("0".."31")); blanks allowed after the "x" *)
Definition p_reg (s : str) : option (regtok * str) :=
  let s := skip_ws s in
  match lit_best abi_names s with
  | Some (n, r) => Some (RAbi n, r)
  | None =>
      let? r := lit [120] s in
      let? (d, r') := lit_best reg_numbers (skip_ws r) in
      Some (RX d, r')
  end.

(* "0x" + Word(hexnums), adjacent *)
Definition hex_raw (s : str) : option (str * str) :=
  let? r := lit [48; 120] s in
  let? (h, r') := span1 is_hex r in
  Some (48 :: 120 :: h, r').
Definition bin_raw (s : str) : option (str * str) :=
  let? r := lit [48; 98] s in
  let? (h, r') := span1 is_bin r in
  Some (48 :: 98 :: h, r').
(* _pattern_imm = Combine(Optional("-") + (0x.. | 0b.. | digits)) *)
Definition num_raw (s : str) : option (str * str) :=
  match hex_raw s with
  | Some x => Some x
  | None => match bin_raw s with
            | Some x => Some x
            | None => span1 is_digit s
            end
  end.
Definition imm_raw (s : str) : option (str * str) :=
  match s with
  | 45 :: t => let? (n, r) := num_raw t in Some (45 :: n, r)
  | _ => num_raw s
  end.
Definition p_imm (s : str) : option (str * str) := imm_raw (skip_ws s).

Definition p_label (s : str) : option (str * str) := word (skip_ws s).

(* _pattern_offset = Optional("+" + Combine("0x" + hex)) *)
Definition p_offset (s : str) : option str * str :=
  match tlit [43] s with
  | Some r => match hex_raw (skip_ws r) with
              | Some (o, r') => (Some o, r')
              | None => (None, s)
              end
  | None => (None, s)
  end.

(* _pattern_variable = Combine(label + Optional(Combine("[" + digits + "]"))) *)
Definition p_var (s : str) : option ((str * option str) * str) :=
  let? (n, r) := word (skip_ws s) in
  match r with
  | 91 :: t =>
      match span is_digit t with
      | (c :: d, 93 :: r') => Some ((n, Some (c :: d)), r')
      | _ => Some ((n, None), r)
      end
  | _ => Some ((n, None), r)
  end.

(* pp.quoted_string: Regex q(?:[^q\n\r\\]|qq|\\(?:[^x]|x[0-9a-fA-F]+))* followed by q.
   [qbody] returns the text matched by the starred group and the rest. *)
Fixpoint qbody (q : Z) (s : str) : str * str :=
  match s with
  | [] => ([], [])
  | c :: t =>
      if c =? q then
        match t with
        | c2 :: t2 => if c2 =? q then let (a, r) := qbody q t2 in (c :: c2 :: a, r) else ([], s)
        | [] => ([], s)
        end
      else if c =? 92 then
        match t with
        | c2 :: t2 =>
            if c2 =? 120 then
              match t2 with
              | c3 :: t3 => if is_hex c3 then let (a, r) := qbody q t3 in (c :: c2 :: c3 :: a, r) else ([], s)
              | [] => ([], s)
              end
            else let (a, r) := qbody q t2 in (c :: c2 :: a, r)
        | [] => ([], s)
        end
      else if (c =? 10) || (c =? 13) then ([], s)
      else let (a, r) := qbody q t in (c :: a, r)
  end.
Definition quoted_raw (s : str) : option (str * str) :=
  match s with
  | q :: t =>
      if (q =? 34) || (q =? 39) then
        let (a, r) := qbody q t in
        match r with
        | c :: r' => if c =? q then Some (q :: a ++ [q], r') else None
        | [] => None
        end
      else None
  | [] => None
  end.
Definition p_quoted (s : str) : option (str * str) := quoted_raw (skip_ws s).

Definition comma (s : str) : option str := tlit [44] s.
Definition colon (s : str) : option str := tlit [58] s.

(** * Token trees with names as strings *)
Record ntok := {
  n_mn : Z;
  n_rd : option regtok; n_rs1 : option regtok; n_rs2 : option regtok;
  n_reg1 : option regtok; n_reg2 : option regtok; n_rs : option regtok;
  n_imm : option str; n_csr : option str; n_uimm : option str; n_offset : option str;
  n_label : option str;
  n_var : option (str * option str) }.
Inductive nbody := NStr (k : Z) | NIns (i : ntok).
Inductive nline :=
| NDirective (d : Z)
| NVarDecl (name : str) (ty : Z) (vals : list str)
| NStrDecl (name : str) (s : str)
| NZeroDecl (name : str) (v : str)
| NLabelDecl (name : str)
| NInstr (inl : option str) (b : nbody).
Inductive lexres := LexSkip | LexSyntax | LexOk (l : nline).

Definition ntok0 (mn : Z) : ntok :=
  {| n_mn := mn; n_rd := None; n_rs1 := None; n_rs2 := None; n_reg1 := None; n_reg2 := None; n_rs := None;
     n_imm := None; n_csr := None; n_uimm := None; n_offset := None; n_label := None; n_var := None |}.

(** * Mnemonic tables of the 15 instruction patterns *)
Definition syms_of (l : list Z) : list (str * Z) := map (fun n => (mn_name n, n)) l.
Definition sym_la : str * Z := (codes "la", MN_LA).
Definition sym_mv : str * Z := (codes "mv", MN_MV).
Definition mns_r := zrange_from 0 18.            (* add .. remu *)
Definition mns_i := zrange_from 18 9.            (* addi .. srai *)
Definition mns_mem := zrange_from 27 6.          (* lb lh lw lbu lhu jalr *)
Definition mns_s := zrange_from 34 3.            (* sb sh sw *)
Definition mns_b := zrange_from 37 6.            (* beq .. bgeu *)
Definition syms_r := syms_of mns_r.
Definition syms_u := syms_of [43; 44].
Definition syms_b := syms_of mns_b.
Definition syms_mem := syms_of (mns_mem ++ mns_s).
Definition syms_memp := syms_of mns_mem ++ [sym_la].
Definition syms_sp := syms_of mns_s.
Definition syms_csr := syms_of [48; 49; 50].
Definition syms_csri := syms_of [51; 52; 53].
Definition syms_rri := syms_of (mns_i ++ mns_mem ++ mns_b ++ mns_s).
Definition syms_rr := [sym_mv].
(* CaselessLiteral *)
Definition clit (w : String.string) (s : str) : option str :=
  let? (_, r) := ci_lit ci_upper (codes w) (skip_ws s) in Some r.
Definition kw (syms : list (str * Z)) (s : str) : option (Z * bool * str) := kw_best syms (skip_ws s).

(** * The instruction patterns.  Result: ((selected-without-KeyError, body), rest) *)
Definition ares := option ((bool * nbody) * str).
Definition ins (p : bool) (t : ntok) (r : str) : ares := Some ((p, NIns t), r).

Definition alt_r (s : str) : ares :=                      (* mn rd, rs1, rs2 *)
  let? (mn, p, r) := kw syms_r s in
  let? (a, r) := p_reg r in let? r := comma r in
  let? (b, r) := p_reg r in let? r := comma r in
  let? (c, r) := p_reg r in
  ins p {| n_mn := mn; n_rd := Some a; n_rs1 := Some b; n_rs2 := Some c; n_reg1 := None; n_reg2 := None;
           n_rs := None; n_imm := None; n_csr := None; n_uimm := None; n_offset := None; n_label := None;
           n_var := None |} r.
Definition tok_rd_imm (mn : Z) (a : regtok) (i : str) : ntok :=
  {| n_mn := mn; n_rd := Some a; n_rs1 := None; n_rs2 := None; n_reg1 := None; n_reg2 := None;
     n_rs := None; n_imm := Some i; n_csr := None; n_uimm := None; n_offset := None; n_label := None;
     n_var := None |}.
Definition alt_u (s : str) : ares :=                      (* mn rd, imm *)
  let? (mn, p, r) := kw syms_u s in
  let? (a, r) := p_reg r in let? r := comma r in
  let? (i, r) := p_imm r in
  ins p (tok_rd_imm mn a i) r.
Definition alt_b (s : str) : ares :=                      (* mn reg1, reg2, label[+0x..] *)
  let? (mn, p, r) := kw syms_b s in
  let? (a, r) := p_reg r in let? r := comma r in
  let? (b, r) := p_reg r in let? r := comma r in
  let? (l, r) := p_label r in
  let (o, r) := p_offset r in
  ins p {| n_mn := mn; n_rd := None; n_rs1 := None; n_rs2 := None; n_reg1 := Some a; n_reg2 := Some b;
           n_rs := None; n_imm := None; n_csr := None; n_uimm := None; n_offset := o; n_label := Some l;
           n_var := None |} r.
Definition tok_r1_r2_imm (mn : Z) (a b : regtok) (i : str) : ntok :=
  {| n_mn := mn; n_rd := None; n_rs1 := None; n_rs2 := None; n_reg1 := Some a; n_reg2 := Some b;
     n_rs := None; n_imm := Some i; n_csr := None; n_uimm := None; n_offset := None; n_label := None;
     n_var := None |}.
Definition alt_mem (s : str) : ares :=                    (* mn reg1, imm(reg2) *)
  let? (mn, p, r) := kw syms_mem s in
  let? (a, r) := p_reg r in let? r := comma r in
  let? (i, r) := p_imm r in
  let? r := tlit [40] r in
  let? (b, r) := p_reg r in
  let? r := tlit [41] r in
  ins p (tok_r1_r2_imm mn a b i) r.
Definition alt_memp (s : str) : ares :=                   (* mn reg1, name[index] *)
  let? (mn, p, r) := kw syms_memp s in
  let? (a, r) := p_reg r in let? r := comma r in
  let? (v, r) := p_var r in
  ins p {| n_mn := mn; n_rd := None; n_rs1 := None; n_rs2 := None; n_reg1 := Some a; n_reg2 := None;
           n_rs := None; n_imm := None; n_csr := None; n_uimm := None; n_offset := None; n_label := None;
           n_var := Some v |} r.
Definition alt_sp (s : str) : ares :=                     (* mn reg1, name[index], reg2 *)
  let? (mn, p, r) := kw syms_sp s in
  let? (a, r) := p_reg r in let? r := comma r in
  let? (v, r) := p_var r in let? r := comma r in
  let? (b, r) := p_reg r in
  ins p {| n_mn := mn; n_rd := None; n_rs1 := None; n_rs2 := None; n_reg1 := Some a; n_reg2 := Some b;
           n_rs := None; n_imm := None; n_csr := None; n_uimm := None; n_offset := None; n_label := None;
           n_var := Some v |} r.
Definition alt_csr (s : str) : ares :=                    (* mn rd, csr, rs1 *)
  let? (mn, p, r) := kw syms_csr s in
  let? (a, r) := p_reg r in let? r := comma r in
  let? (c, r) := p_imm r in let? r := comma r in
  let? (b, r) := p_reg r in
  ins p {| n_mn := mn; n_rd := Some a; n_rs1 := Some b; n_rs2 := None; n_reg1 := None; n_reg2 := None;
           n_rs := None; n_imm := None; n_csr := Some c; n_uimm := None; n_offset := None; n_label := None;
           n_var := None |} r.
Definition alt_csri (s : str) : ares :=                   (* mn rd, csr, uimm *)
  let? (mn, p, r) := kw syms_csri s in
  let? (a, r) := p_reg r in let? r := comma r in
  let? (c, r) := p_imm r in let? r := comma r in
  let? (u, r) := p_imm r in
  ins p {| n_mn := mn; n_rd := Some a; n_rs1 := None; n_rs2 := None; n_reg1 := None; n_reg2 := None;
           n_rs := None; n_imm := None; n_csr := Some c; n_uimm := Some u; n_offset := None; n_label := None;
           n_var := None |} r.
Definition alt_rri (s : str) : ares :=                    (* mn reg1, reg2, imm *)
  let? (mn, p, r) := kw syms_rri s in
  let? (a, r) := p_reg r in let? r := comma r in
  let? (b, r) := p_reg r in let? r := comma r in
  let? (i, r) := p_imm r in
  ins p (tok_r1_r2_imm mn a b i) r.
Definition alt_fence (s : str) : ares :=                  (* fence rd, rs1 *)
  let? r := clit "fence" s in
  let? (a, r) := p_reg r in let? r := comma r in
  let? (b, r) := p_reg r in
  ins true {| n_mn := 47; n_rd := Some a; n_rs1 := Some b; n_rs2 := None; n_reg1 := None; n_reg2 := None;
              n_rs := None; n_imm := None; n_csr := None; n_uimm := None; n_offset := None; n_label := None;
              n_var := None |} r.
Definition alt_jal (s : str) : ares :=                    (* jal rd, (imm ^ label[+0x..]) *)
  let? r := clit "jal" s in
  let? (a, r) := p_reg r in let? r := comma r in
  match p_imm r with
  | Some (i, r') => ins true (tok_rd_imm MN_JAL a i) r'   (* a label cannot start like an immediate *)
  | None =>
      let? (l, r) := p_label r in
      let (o, r) := p_offset r in
      ins true {| n_mn := MN_JAL; n_rd := Some a; n_rs1 := None; n_rs2 := None; n_reg1 := None; n_reg2 := None;
                  n_rs := None; n_imm := None; n_csr := None; n_uimm := None; n_offset := o;
                  n_label := Some l; n_var := None |} r
  end.
Definition alt_ecall (s : str) : ares :=                  (* CaselessLiteral ecall | ebreak *)
  match clit "ecall" s with
  | Some r => Some ((true, NStr 0), r)
  | None => let? r := clit "ebreak" s in Some ((true, NStr 1), r)
  end.
Definition alt_nop (s : str) : ares := let? r := clit "nop" s in Some ((true, NStr 2), r).
Definition alt_li (s : str) : ares :=                     (* li rd, imm *)
  let? r := clit "li" s in
  let? (a, r) := p_reg r in let? r := comma r in
  let? (i, r) := p_imm r in
  ins true (tok_rd_imm MN_LI a i) r.
Definition alt_rr (s : str) : ares :=                     (* mv rd, rs *)
  let? (mn, p, r) := kw syms_rr s in
  let? (a, r) := p_reg r in let? r := comma r in
  let? (b, r) := p_reg r in
  ins p {| n_mn := mn; n_rd := Some a; n_rs1 := None; n_rs2 := None; n_reg1 := None; n_reg2 := None;
           n_rs := Some b; n_imm := None; n_csr := None; n_uimm := None; n_offset := None; n_label := None;
           n_var := None |} r.

(* pyparsing Or: longest match, the first listed among equals *)
Definition better {A} (a b : option (A * str)) : option (A * str) :=
  match a, b with
  | None, _ => b
  | _, None => a
  | Some (_, ra), Some (_, rb) => if (List.length rb <? List.length ra)%nat then b else a
  end.
Definition or_longest {A} (l : list (option (A * str))) : option (A * str) := fold_left better l None.

Definition instr_alts : list (str -> ares) :=
  [alt_r; alt_u; alt_b; alt_mem; alt_memp; alt_sp; alt_csr; alt_csri; alt_rri; alt_fence; alt_jal;
   alt_ecall; alt_nop; alt_li; alt_rr].

(** * The line patterns *)
Definition lres := option ((bool * nline) * str).
Definition p_inline (s : str) : option str * str :=        (* Optional(label + ":") *)
  match p_label s with
  | Some (n, r) => match colon r with
                   | Some r' => (Some n, r')
                   | None => (None, s)
                   end
  | None => (None, s)
  end.
Definition alt_instruction (s : str) : lres :=
  let (inl, r) := p_inline s in
  let? (pb, r') := or_longest (map (fun a => a r) instr_alts) in
  Some ((fst pb, NInstr inl (snd pb)), r').

Definition alt_directive (s : str) : lres :=               (* "." + oneOf(text data) *)
  let? r := tlit [46] s in
  let? (w, r') := lit_best [codes "text"; codes "data"] (skip_ws r) in
  Some ((true, NDirective (if str_eqb w (codes "text") then 0 else 1)), r').

Definition p_decl_head (s : str) : option (str * str) :=   (* name ":" "." *)
  let? (n, r) := p_label s in
  let? r := colon r in
  let? r := tlit [46] r in
  Some (n, r).

(* delimitedList tail: ZeroOrMore("," + imm) *)
Fixpoint imm_tail (fuel : nat) (s : str) : list str * str :=
  match fuel with
  | O => ([], s)
  | S f =>
      match comma s with
      | Some r => match p_imm r with
                  | Some (i, r') => let (l, r'') := imm_tail f r' in (i :: l, r'')
                  | None => ([], s)
                  end
      | None => ([], s)
      end
  end.
Definition alt_vardecl (s : str) : lres :=                 (* name: .byte|.half|.word imm, imm, ... *)
  let? (n, r) := p_decl_head s in
  let? (w, r) := lit_best [codes "byte"; codes "half"; codes "word"] (skip_ws r) in
  let? (i, r) := p_imm r in
  let (l, r) := imm_tail (List.length r) r in
  let ty := if str_eqb w (codes "byte") then 0 else if str_eqb w (codes "half") then 1 else 2 in
  Some ((true, NVarDecl n ty (i :: l)), r).
Definition alt_strdecl (s : str) : lres :=                 (* name: .string "..." *)
  let? (n, r) := p_decl_head s in
  let? r := tlit (codes "string") r in
  let? (q, r) := p_quoted r in
  Some ((true, NStrDecl n q), r).
Definition alt_zerodecl (s : str) : lres :=                (* name: .zero digits *)
  let? (n, r) := p_decl_head s in
  let? r := tlit (codes "zero") r in
  let? (d, r) := span1 is_digit (skip_ws r) in
  Some ((true, NZeroDecl n d), r).
Definition alt_labeldecl (s : str) : lres :=               (* name: *)
  let? (n, r) := p_label s in
  let? r := colon r in
  Some ((true, NLabelDecl n), r).

(* _pattern_line on a sanitised, tab-expanded line *)
Definition lex_core (s : str) : lexres :=
  match or_longest [alt_directive s; alt_vardecl s; alt_strdecl s; alt_zerodecl s; alt_instruction s;
                    alt_labeldecl s] with
  | Some ((ok, l), r) => match skip_ws r with
                         | [] => if ok then LexOk l else LexSyntax
                         | _ => LexSyntax
                         end
  | None => LexSyntax
  end.

(* one source line: _sanitize + _tokenize *)
Definition lex_line (l : str) : lexres :=
  match sanitize l with
  | None => LexSkip
  | Some t => lex_core (expandtabs 0 t)
  end.

(** * The whole text: names interned in order of first occurrence (1, 2, ...), source line numbers from 1;
   the first line with a syntax error aborts (_tokenize raises ParserSyntaxException) *)
Definition names := list str.
Fixpoint name_pos (t : names) (n : str) (k : Z) : option Z :=
  match t with
  | [] => None
  | m :: t' => if str_eqb m n then Some k else name_pos t' n (k + 1)
  end.
Definition intern (t : names) (n : str) : names * Z :=
  match name_pos t n 1 with
  | Some k => (t, k)
  | None => (t ++ [n], Z.of_nat (List.length t) + 1)
  end.
Definition intern_opt (t : names) (n : option str) : names * option Z :=
  match n with
  | Some s => let (t', k) := intern t s in (t', Some k)
  | None => (t, None)
  end.
Definition intern_tok (t : names) (i : ntok) : names * itok :=
  let (t1, lab) := intern_opt t (n_label i) in
  let (t2, var) := match n_var i with
                   | Some (v, idx) => let (t', k) := intern t1 v in (t', Some (k, idx))
                   | None => (t1, None)
                   end in
  (t2, {| k_mn := n_mn i; k_rd := n_rd i; k_rs1 := n_rs1 i; k_rs2 := n_rs2 i; k_reg1 := n_reg1 i;
          k_reg2 := n_reg2 i; k_rs := n_rs i; k_imm := n_imm i; k_csr := n_csr i; k_uimm := n_uimm i;
          k_offset := n_offset i; k_label := lab; k_var := var |}).
Definition intern_line (t : names) (l : nline) : names * rline :=
  match l with
  | NDirective d => (t, RDirective d)
  | NVarDecl n ty vals => let (t', k) := intern t n in (t', RVarDecl k ty vals)
  | NStrDecl n s => let (t', k) := intern t n in (t', RStrDecl k s)
  | NZeroDecl n v => let (t', k) := intern t n in (t', RZeroDecl k v)
  | NLabelDecl n => let (t', k) := intern t n in (t', RLabelDecl k)
  | NInstr il b =>
      let (t1, inl') := intern_opt t il in
      match b with
      | NStr k => (t1, RInstr inl' (BStr k))
      | NIns i => let (t2, i') := intern_tok t1 i in (t2, RInstr inl' (BIns i'))
      end
  end.

Inductive ltres := LTOk (toks : list (Z * rline)) | LTSyntax (ln : Z).
Fixpoint lex_lines (ln : Z) (t : names) (ls : list str) : ltres :=
  match ls with
  | [] => LTOk []
  | l :: rest =>
      match lex_line l with
      | LexSkip => lex_lines (ln + 1) t rest
      | LexSyntax => LTSyntax ln
      | LexOk nl =>
          let (t', rl) := intern_line t nl in
          match lex_lines (ln + 1) t' rest with
          | LTOk r => LTOk ((ln, rl) :: r)
          | e => e
          end
      end
  end.
Definition lex_text (ls : list str) : ltres := lex_lines 1 [] ls.

(* load_program on source text (list of lines): resets, tokenizer, then the assembler of Asm.v *)
Definition rv_load_text (s : st) (ls : list str) : st * option perr * option image :=
  match lex_text ls with
  | LTOk toks => rv_load s toks
  | LTSyntax ln => (with_im (with_ms s (ms_reset (ms s))) (im_reset (im s)), Some (PSyntax ln), None)
  end.
