(* Toy.v — the TOY machine: toy_instructions.py, toy_architectural_state.py, toy_simulation.py
   (two-phase stepping, getters) and toy_parser.py after tokenisation.  Model only. *)
From Coq Require Import String.
From ArchSim Require Import Model.Base Model.Mem Model.Fmt.
Open Scope Z_scope.

(** * Instructions *)
Record tinstr := { top : Z; taddr : Z }.        (* opcode 0..12 (after % 16), address 0..4095 *)

(* constructor: opcode % 16, address % 4096 *)
Definition mk_tinstr (op a : Z) : tinstr := {| top := op mod 16; taddr := a mod 4096 |}.
(* to_integer: (opcode << 12) + address *)
Definition toy_encode (i : tinstr) : Z := Z.shiftl (top i) 12 + taddr i.
(* from_integer: opcode = (w >> 12) & 0xF, address = w & 0xFFF; opcodes above 11 give NOP (12) *)
Definition toy_decode (w : Z) : tinstr :=
  let op := Z.land (Z.shiftr w 12) 15 in
  mk_tinstr (if op <=? 11 then op else 12) (Z.land w 4095).
Definition op_code_value (i : tinstr) : Z := Z.land (Z.shiftr (toy_encode i) 12) 15.
Definition address_section_value (i : tinstr) : Z := Z.land (toy_encode i) 4095.

Definition is_address_type (op : Z) : bool := op <=? 7.

(** * State *)
Record vis := { v_accu_old : option Z; v_alu_out : option Z; v_jump : bool;
                v_ram_out : option Z; v_op_old : option Z; v_pc_old : option Z }.
Definition vis0 : vis :=
  {| v_accu_old := None; v_alu_out := None; v_jump := false; v_ram_out := None;
     v_op_old := None; v_pc_old := None |}.

Record tstate := {
  t_pc : Z; t_accu : Z; t_mem : zmap; t_size : Z;
  t_loaded : option tinstr; t_maxpc : option Z;
  t_cur : option Z; t_next : Z; t_vis : vis;
  t_icount : Z; t_cycles : Z; t_bcount : Z;
  t_nextcycle : Z; t_started : bool }.

Definition toy_init (size : Z) (nextcycle : Z) (started : bool) : tstate :=
  {| t_pc := 1; t_accu := 0; t_mem := []; t_size := size; t_loaded := None; t_maxpc := None;
     t_cur := None; t_next := 0; t_vis := vis0; t_icount := 0; t_cycles := 0; t_bcount := 0;
     t_nextcycle := nextcycle; t_started := started |}.

Definition t_with_core (s : tstate) (pc accu : Z) (m : zmap) (v : vis) (bc : Z) : tstate :=
  {| t_pc := pc; t_accu := accu; t_mem := m; t_size := t_size s; t_loaded := t_loaded s;
     t_maxpc := t_maxpc s; t_cur := t_cur s; t_next := t_next s; t_vis := v;
     t_icount := t_icount s; t_cycles := t_cycles s; t_bcount := bc;
     t_nextcycle := t_nextcycle s; t_started := t_started s |}.

Definition tcfg (s : tstate) : memcfg := toy_memcfg (t_size s).
Definition t_read (s : tstate) (a : Z) : res Z := mem_read (tcfg s) (t_mem s) 16 a.

(* behavior(state) of the instruction classes; the exception (a memory address error when the
   configured memory is smaller than 4096 words) is raised before or after the assignment of
   visualisation_values exactly as in the Python *)
Definition only_alu (x : Z) : vis :=
  {| v_accu_old := None; v_alu_out := Some x; v_jump := false; v_ram_out := None;
     v_op_old := None; v_pc_old := None |}.
Definition alu_vis (old ram out : Z) : vis :=
  {| v_accu_old := Some old; v_alu_out := Some out; v_jump := false; v_ram_out := Some ram;
     v_op_old := None; v_pc_old := None |}.
Definition unary_vis (old out : Z) : vis :=
  {| v_accu_old := Some old; v_alu_out := Some out; v_jump := false; v_ram_out := None;
     v_op_old := None; v_pc_old := None |}.

Definition toy_alu (op acc v : Z) : Z :=
  if op =? 3 then U16 (acc + v)
  else if op =? 4 then U16 (acc - v)
  else if op =? 5 then U16 (Z.lor acc v)
  else if op =? 6 then U16 (Z.land acc v)
  else U16 (Z.lxor acc v).

Definition toy_behavior (i : tinstr) (s : tstate) : tstate * option err :=
  let op := top i in
  let a := taddr i in
  let acc := t_accu s in
  if op =? 0 then      (* STO: vis first, then the write *)
    let s1 := t_with_core s (t_pc s) acc (t_mem s) (only_alu acc) (t_bcount s) in
    match mem_write (tcfg s) (t_mem s) 16 a acc with
    | (m', None) => (t_with_core s1 (t_pc s) acc m' (only_alu acc) (t_bcount s), None)
    | (m', Some e) => (t_with_core s1 (t_pc s) acc m' (only_alu acc) (t_bcount s), Some e)
    end
  else if op =? 1 then (* LDA *)
    match t_read s a with
    | Err e => (s, Some e)
    | Ok v =>
        (t_with_core s (t_pc s) v (t_mem s)
           {| v_accu_old := None; v_alu_out := Some v; v_jump := false; v_ram_out := Some v;
              v_op_old := None; v_pc_old := None |} (t_bcount s), None)
    end
  else if op =? 2 then (* BRZ *)
    let j := acc =? 0 in
    let v := {| v_accu_old := None; v_alu_out := None; v_jump := j; v_ram_out := None;
                v_op_old := None; v_pc_old := None |} in
    if j then (t_with_core s (U12 a) acc (t_mem s) v (t_bcount s + 1), None)
    else (t_with_core s (t_pc s) acc (t_mem s) v (t_bcount s), None)
  else if op <=? 7 then (* ADD SUB OR AND XOR *)
    match t_read s a with
    | Err e => (s, Some e)
    | Ok v =>
        let r := toy_alu op acc v in
        (t_with_core s (t_pc s) r (t_mem s) (alu_vis acc v r) (t_bcount s), None)
    end
  else if op =? 8 then
    let r := U16 (Z.lnot acc) in (t_with_core s (t_pc s) r (t_mem s) (unary_vis acc r) (t_bcount s), None)
  else if op =? 9 then
    let r := U16 (acc + 1) in (t_with_core s (t_pc s) r (t_mem s) (unary_vis acc r) (t_bcount s), None)
  else if op =? 10 then
    let r := U16 (acc - 1) in (t_with_core s (t_pc s) r (t_mem s) (unary_vis acc r) (t_bcount s), None)
  else if op =? 11 then
    (t_with_core s (t_pc s) 0 (t_mem s) (only_alu 0) (t_bcount s), None)
  else (t_with_core s (t_pc s) acc (t_mem s) vis0 (t_bcount s), None).

(** * Two-phase stepping *)
Inductive toutcome := TNone | TSeqErr | TMemErr (e : err).

Definition toy_done (s : tstate) : bool :=
  match t_loaded s with None => true | Some _ => false end.

Definition first_half (s : tstate) : tstate * toutcome :=
  if toy_done s then (s, TNone)
  else if negb (t_nextcycle s =? 1) then (s, TSeqErr)
  else
    let s1 := {| t_pc := t_pc s; t_accu := t_accu s; t_mem := t_mem s; t_size := t_size s;
                 t_loaded := t_loaded s; t_maxpc := t_maxpc s; t_cur := t_cur s; t_next := t_next s;
                 t_vis := t_vis s; t_icount := t_icount s; t_cycles := t_cycles s;
                 t_bcount := t_bcount s; t_nextcycle := 2; t_started := true |} in
    match t_loaded s1 with
    | None => (s1, TNone)
    | Some i =>
        match toy_behavior i s1 with
        | (s2, Some e) => (s2, TMemErr e)
        | (s2, None) =>
            ({| t_pc := t_pc s2; t_accu := t_accu s2; t_mem := t_mem s2; t_size := t_size s2;
                t_loaded := t_loaded s2; t_maxpc := t_maxpc s2;
                t_cur := Some (t_next s2); t_next := t_pc s2;
                t_vis := t_vis s2; t_icount := t_icount s2; t_cycles := t_cycles s2 + 1;
                t_bcount := t_bcount s2; t_nextcycle := t_nextcycle s2; t_started := t_started s2 |},
             TNone)
        end
    end.

Definition maxpc_z (s : tstate) : Z := match t_maxpc s with Some m => m | None => -1 end.

Definition second_half (s : tstate) : tstate * toutcome :=
  if toy_done s then (s, TNone)
  else if negb (t_nextcycle s =? 2) then (s, TSeqErr)
  else
    let old_op := match t_loaded s with Some i => op_code_value i | None => 0 end in
    let v0 := {| v_accu_old := None; v_alu_out := None; v_jump := false; v_ram_out := None;
                 v_op_old := Some old_op; v_pc_old := Some (t_pc s) |} in
    match t_read s (t_pc s) with
    | Err e =>
        (t_with_core s (t_pc s) (t_accu s) (t_mem s) v0 (t_bcount s), TMemErr e)
    | Ok w =>
        let v1 := {| v_accu_old := None; v_alu_out := None; v_jump := false; v_ram_out := Some w;
                     v_op_old := Some old_op; v_pc_old := Some (t_pc s) |} in
        ({| t_pc := U12 (t_pc s + 1); t_accu := t_accu s; t_mem := t_mem s; t_size := t_size s;
            t_loaded := if t_pc s <=? maxpc_z s then Some (toy_decode w) else None;
            t_maxpc := t_maxpc s; t_cur := t_cur s; t_next := t_next s; t_vis := v1;
            t_icount := t_icount s + 1; t_cycles := t_cycles s + 1; t_bcount := t_bcount s;
            t_nextcycle := 1; t_started := t_started s |}, TNone)
    end.

(* step(): sequence check first (also when done), then both halves; returns (not done) *)
Definition toy_step (s : tstate) : tstate * toutcome :=
  if negb (t_nextcycle s =? 1) then (s, TSeqErr)
  else match first_half s with
       | (s1, TNone) => second_half s1
       | r => r
       end.

Definition toy_single (s : tstate) : tstate * toutcome :=
  if t_nextcycle s =? 1 then first_half s else second_half s.

Fixpoint toy_run (fuel : nat) (s : tstate) : tstate * toutcome * bool (* finished *) :=
  match fuel with
  | O => (s, TNone, toy_done s)
  | S k =>
      if toy_done s then (s, TNone, true)
      else match toy_step s with
           | (s', TNone) => toy_run k s'
           | (s', o) => (s', o, false)
           end
  end.

Definition toy_has_instructions (s : tstate) : bool :=
  match t_maxpc s with None => false | Some m => 0 <=? m end.

(** * Getters *)
Definition mnemonic_of (op : Z) : str :=
  codes (match op with
         | 0 => "STO" | 1 => "LDA" | 2 => "BRZ" | 3 => "ADD" | 4 => "SUB" | 5 => "OR"
         | 6 => "AND" | 7 => "XOR" | 8 => "NOT" | 9 => "INC" | 10 => "DEC" | 11 => "ZRO"
         | _ => "NOP" end)%string.

(* __repr__: "MNEMONIC 0xAAA" for address types, "MNEMONIC" otherwise *)
Definition tinstr_repr (i : tinstr) : str :=
  if is_address_type (top i) then mnemonic_of (top i) ++ [32; 48; 120] ++ fmt_pad 16 3 (taddr i)
  else mnemonic_of (top i).

Definition empty4 : str * str * str * str := ([], [], [], []).

(* get_register_representations: accu, pc, ir *)
Definition toy_register_reprs (s : tstate) : list (str * str * str * str) :=
  [ if toy_has_instructions s then n_bit_repr 16 (t_accu s) else empty4;
    if toy_has_instructions s then n_bit_repr 12 (t_pc s) else empty4;
    match t_loaded s with Some i => n_bit_repr 16 (toy_encode i) | None => empty4 end ].

(* get_memory_table_entries: sorted rows (address, value reprs, instruction text or "-", marker) *)
Record trow := { r_addr : Z; r_hexaddr : str; r_vals : str * str * str * str; r_instr : str; r_mark : str }.

Definition toy_memory_table (s : tstate) : res (list trow) :=
  match mem_repr (tcfg s) (t_mem s) 16 with
  | Err e => Err e
  | Ok rows =>
      let cyc := if t_nextcycle s =? 2 then [49] else [50] in
      Ok (map (fun av : Z * Z =>
                 let a := fst av in let v := snd av in
                 {| r_addr := a;
                    r_hexaddr := [48; 120] ++ fmt_pad 16 3 a;
                    r_vals := n_bit_repr 16 v;
                    r_instr := match t_maxpc s with
                               | Some m => if a <=? m then tinstr_repr (toy_decode v) else [45]
                               | None => [45]
                               end;
                    r_mark := match t_cur s with
                              | Some c => if a =? c then cyc else []
                              | None => []
                              end |}) rows)
  end.

(** * Assembler after tokenisation (toy_parser.py, parser.py:_segment) *)
Inductive toperand := TAddrLit (s : str) | TLabel (l : Z) | TNoOperand.
Inductive tline :=
| TLDirective (d : Z)                               (* 0 = .text, 1 = .data *)
| TLVar (name : Z) (vals : list str)
| TLInstr (inl : option Z) (op : Z) (opnd : toperand)
| TLLabel (name : Z).

Inductive perr :=
| PSyntax (ln : Z) | PLabel (ln : Z) | POdd (ln : Z) | PDupLabel (ln : Z) | PDirective (ln : Z)
| PDataSyntax (ln : Z) | PDataDup (ln : Z) | PVariable (ln : Z)
| PMemSize (words : Z)
| PMemAddr (a : Z)
| PUncaught (ln : Z).           (* anything that is not a parser error: ValueError from int(), ... *)

Inductive pres (A : Type) := POk (a : A) | PErr (e : perr).
Arguments POk {A} a. Arguments PErr {A} e.

(* generic _segment over (line number, tokens) pairs; dir_of classifies directive lines *)
Section Segment.
  Variable A : Type.
  Variable dir_of : A -> option Z.      (* Some 0 = .text, Some 1 = .data *)

  Fixpoint split_at_line (ln : Z) (l : list (Z * A)) (acc : list (Z * A))
    : list (Z * A) * list (Z * A) :=
    match l with
    | [] => (rev acc, [])
    | (k, x) :: t => if k =? ln then (rev acc, t) else split_at_line ln t ((k, x) :: acc)
    end.

  (* state: data_exists, text_exists, data, text *)
  Fixpoint segment_loop (rest : list (Z * A)) (de te : bool) (data text : list (Z * A))
    : pres (list (Z * A) * list (Z * A)) :=
    match rest with
    | [] => POk (data, text)
    | (ln, x) :: t =>
        match dir_of x with
        | None => segment_loop t de te data text
        | Some d =>
            if d =? 1 then
              if de then PErr (PDirective ln)
              else let '(before, after) := split_at_line ln text [] in
                   segment_loop t true te after before
            else
              if te then PErr (PDirective ln)
              else let '(before, after) := split_at_line ln data [] in
                   segment_loop t de true before after
        end
    end.

  Definition segment (l : list (Z * A)) : pres (list (Z * A) * list (Z * A)) :=
    match l with
    | [] => POk ([], [])
    | (ln, x) :: t =>
        match dir_of x with
        | Some 1 => segment_loop t true false t []
        | Some _ => segment_loop t false true [] t
        | None => segment_loop t false true [] l
        end
    end.
End Segment.
Arguments segment {A}.

Definition tdir_of (l : tline) : option Z := match l with TLDirective d => Some d | _ => None end.

(* label table: association list name -> value, duplicates rejected *)
Definition add_label (labels : zmap) (name v ln : Z) : pres zmap :=
  match mget_opt labels name with
  | Some _ => PErr (PDupLabel ln)
  | None => POk (labels ++ [(name, v)])
  end.

(* _process_labels: over ALL token lines *)
Fixpoint toy_labels (l : list (Z * tline)) (pcv : Z) (labels : zmap) : pres zmap :=
  match l with
  | [] => POk labels
  | (ln, x) :: t =>
      match x with
      | TLLabel name =>
          match add_label labels name pcv ln with
          | POk lb => toy_labels t pcv lb
          | PErr e => PErr e
          end
      | TLInstr (Some name) _ _ =>
          match add_label labels name pcv ln with
          | POk lb => toy_labels t (pcv + 1) lb
          | PErr e => PErr e
          end
      | TLInstr None _ _ => toy_labels t (pcv + 1) labels
      | _ => toy_labels t pcv labels
      end
  end.

(* Python int() on the literal shapes the token pattern admits *)
Definition hexval (c : Z) : Z :=
  if (48 <=? c) && (c <=? 57) then c - 48
  else if (65 <=? c) && (c <=? 70) then c - 55
  else c - 87.                                        (* 'a'..'f' *)
Definition digits_value (base : Z) (s : str) : Z := fold_left (fun acc c => acc * base + hexval c) s 0.
Definition max_str_digits : Z := 4300.

(* _value_to_int: "0x.." -> int(.., 16); decimal -> int(..) which raises ValueError above 4300 digits *)
Definition toy_value (s : str) : option Z :=
  match s with
  | 48 :: 120 :: h => Some (digits_value 16 h)
  | _ => if Z.of_nat (length s) >? max_str_digits then None else Some (digits_value 10 s)
  end.

(* write consecutive half-words *)
Fixpoint toy_write_vals (c : memcfg) (m : zmap) (a : Z) (vals : list str) (ln : Z) : pres zmap :=
  match vals with
  | [] => POk m
  | v :: t =>
      match toy_value v with
      | None => PErr (PSyntax ln)            (* int() rejects the literal: ParserSyntaxException of its line *)
      | Some z =>
          match mem_write c m 16 a (U16 z) with
          | (m', None) => toy_write_vals c m' (a + 1) t ln
          | (_, Some (EAddr x _ _ _)) => PErr (PMemAddr x)
          | (_, Some _) => PErr (PUncaught ln)
          end
      end
  end.

(* _write_data *)
Fixpoint toy_write_data (c : memcfg) (data : list (Z * tline)) (last : Z) (labels : zmap) (m : zmap)
  : pres (Z * zmap * zmap) :=
  match data with
  | [] => POk (last, labels, m)
  | (ln, TLVar name vals) :: t =>
      let last' := last - Z.of_nat (length vals) in
      let wa := last' + 1 in
      if wa <? 0 then PErr (PMemSize (ahi c))
      else match add_label labels name wa ln with
           | PErr e => PErr e
           | POk lb =>
               match toy_write_vals c m wa vals ln with
               | PErr e => PErr e
               | POk m' => toy_write_data c t last' lb m'
               end
           end
  | (ln, _) :: _ => PErr (PDataSyntax ln)
  end.

(* _load_instructions, first part: instantiate *)
Fixpoint toy_instantiate (text : list (Z * tline)) (labels : zmap) : pres (list tinstr) :=
  match text with
  | [] => POk []
  | (ln, x) :: t =>
      match x with
      | TLVar _ _ => PErr (PDataSyntax ln)
      | TLInstr _ op opnd =>
          let this :=
            if is_address_type op then
              match opnd with
              | TAddrLit s => match toy_value s with Some z => POk (mk_tinstr op z) | None => PErr (PSyntax ln) end
              | TLabel l => match mget_opt labels l with Some z => POk (mk_tinstr op z) | None => PErr (PLabel ln) end
              | TNoOperand => PErr (PUncaught ln)
              end
            else POk (mk_tinstr op 0) in
          match this with
          | PErr e => PErr e
          | POk i => match toy_instantiate t labels with POk r => POk (i :: r) | PErr e => PErr e end
          end
      | _ => toy_instantiate t labels
      end
  end.

Fixpoint toy_write_instrs (c : memcfg) (m : zmap) (a : Z) (l : list tinstr) : pres zmap :=
  match l with
  | [] => POk m
  | i :: t =>
      match mem_write c m 16 a (U16 (toy_encode i)) with
      | (m', None) => toy_write_instrs c m' (a + 1) t
      | (_, Some (EAddr x _ _ _)) => PErr (PMemAddr x)
      | (_, Some _) => PErr (PUncaught 0)
      end
  end.

(* ToySimulation.load_program: a brand-new state (next_cycle / has_started kept), then parse.
   On a parser error the simulation keeps the partially initialised new state, as in Python. *)
Definition toy_load (s : tstate) (toks : list (Z * tline)) : tstate * option perr :=
  let s0 := toy_init (t_size s) (t_nextcycle s) (t_started s) in
  let c := tcfg s0 in
  let with_mem (m : zmap) := t_with_core s0 (t_pc s0) (t_accu s0) m (t_vis s0) (t_bcount s0) in
  match segment tdir_of toks with
  | PErr e => (s0, Some e)
  | POk (data, text) =>
      match toy_labels toks 0 [] with
      | PErr e => (s0, Some e)
      | POk labels =>
          (* Python writes memory while walking the data lines; on an error the cells written so
             far stay.  The model returns the fresh state on errors: the harness compares error
             kind and line only for failing loads, and a later successful load starts afresh. *)
          match toy_write_data c data (ahi c - 1) labels [] with
          | PErr e => (s0, Some e)
          | POk (last, labels', m) =>
              match toy_instantiate text labels' with
              | PErr e => (with_mem m, Some e)
              | POk ins =>
                  let n := Z.of_nat (length ins) in
                  if n - 1 >? last then (with_mem m, Some (PMemSize (ahi c)))
                  else match toy_write_instrs c m 0 ins with
                       | PErr e => (with_mem m, Some e)
                       | POk m' =>
                           let s1 := with_mem m' in
                           ({| t_pc := t_pc s1; t_accu := t_accu s1; t_mem := m'; t_size := t_size s1;
                               t_loaded := match ins with i :: _ => Some i | [] => None end;
                               t_maxpc := Some (n - 1); t_cur := None; t_next := 0;
                               t_vis := match ins with
                                        | i :: _ => {| v_accu_old := None; v_alu_out := None; v_jump := false;
                                                       v_ram_out := Some (U16 (toy_encode i));
                                                       v_op_old := None; v_pc_old := Some 0 |}
                                        | [] => vis0
                                        end;
                               t_icount := 0; t_cycles := 0; t_bcount := 0;
                               t_nextcycle := t_nextcycle s1; t_started := t_started s1 |}, None)
                       end
              end
          end
      end
  end.
