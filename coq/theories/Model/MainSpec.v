(* MainSpec.v — dispatcher of the extracted model, extended by the executable REFERENCE definitions the
   timing / delayed-write-back theorems are stated against, so that the harness can compare them with the
   Python references it evaluates on the implementation (harness/sched.py):
     op 80: (80 state fuel)  -> the documented schedule (Proofs/SchedDefs.v [schedule]) evaluated on the
            model's single-cycle instruction stream: list of (pc, write-back cycle); then the model
            pipeline's own retire list [pipe_retire] for 8*fuel+8 cycles
     op 81: (81 state fuel)  -> the delayed-write-back reference machine (Proofs/FlagOffDwb.v [dwb_run]):
            how the run ended, final registers / output / exit code / lower memory, and its retire order
   Every other request goes to [Main.dispatch]. *)
From ArchSim Require Import Model.Base Model.Mem Model.Cache Model.Fmt Model.RV Model.Single Model.RVSplit
  Model.Pipe Model.Sx Model.Main.
From ArchSim Require Proofs.PipeInv Proofs.SchedDefs Proofs.FlagOffDwb.
Open Scope Z_scope.

Definition sx_zn (l : list (Z * nat)) : sx :=
  Lx (map (fun aw : Z * nat => Lx [Zx (fst aw); Zx (Z.of_nat (snd aw))]) l).

Definition dispatch_all (req : sx) : sx :=
  let op := dz (dnth req 0) in
  if op =? 80 then
    let s := dst (dnth req 1) in
    let n := Z.to_nat (dz (dnth req 2)) in
    let evs := SchedDefs.single_events n s in
    Lx [ sx_zn (combine (PipeInv.single_trace n s) (SchedDefs.schedule evs));
         sx_zn (SchedDefs.pipe_retire (8 * n + 8) (pipe_init s true));
         Zx (match snd (single_run n s) with Done => 0 | Faulted _ => 1 | OutOfFuel => 2 end) ]
  else if op =? 81 then
    let s := dst (dnth req 1) in
    let n := Z.to_nat (dz (dnth req 2)) in
    let '(s', e) := FlagOffDwb.dwb_run n s in
    Lx [ Zx (match e with Done => 0 | Faulted _ => 1 | OutOfFuel => 2 end);
         sx_st s';
         Lx (map Zx (FlagOffDwb.dwb_trace n s)) ]
  else Main.dispatch req.
