(* MainSpec.v — dispatcher of the extracted model, extended by the executable REFERENCE definitions the
   timing / delayed-write-back theorems are stated against, so that the harness can compare them with the
   Python references it evaluates on the implementation (harness/sched.py):
     op 80: (80 state fuel)  -> the documented schedule (Proofs/SchedDefs.v [schedule]) evaluated on the
            model's single-cycle instruction stream: list of (pc, write-back cycle); then the model
            pipeline's own retire list [pipe_retire] for 8*fuel+8 cycles
     op 81: (81 state fuel)  -> the delayed-write-back reference machine (Proofs/FlagOffDwb.v [dwb_run]):
            how the run ended, final registers / output / exit code / lower memory, and its retire order
     op 90: (90 codes)       -> the TOY lexer (Model/ToyLex.v) on a whole source text given as code points:
            ((0 line...) | (1 ln) | (2)) and whether the text is in the lexer's stated domain
     op 91: (91 tstate codes) -> ToySimulation.load_program on SOURCE TEXT: lexer + assembler [toy_load_text]:
            (error option, state after the load) — no Python-side token conversion involved
     op 93: (93 dcfg icfg (line ...)) -> RiscvSimulation.load_program on SOURCE TEXT, given as its list of lines (str.splitlines), each a list
            of code points: the RISC-V lexer (Model/Lex.v) + the assembler [Lex.rv_load_text]; answer as request 60
     op 92: (92 (line ...))  -> the lexer alone on one line: (0) skip | (1) syntax error | (2) accepted ; and whether the line is in the
            lexer's stated domain
     op 94: (94 dcfg icfg codes) -> RiscvSimulation.load_program on the WHOLE source text (code points): str.splitlines (the validated
            ToyLex.splitlines) + lexer + assembler [LexText.rv_load_program_text]; answer as request 60
   Every other request goes to [Main.dispatch]. *)
From ArchSim Require Import Model.Base Model.Mem Model.Cache Model.Fmt Model.RV Model.Single Model.RVSplit
  Model.Pipe Model.Toy Model.Sx Model.Main Model.ToyLex.
From ArchSim Require Proofs.PipeInv Proofs.SchedDefs Proofs.FlagOffDwb Model.Lex Model.Asm Model.LexText.
Open Scope Z_scope.

Definition sx_zn (l : list (Z * nat)) : sx :=
  Lx (map (fun aw : Z * nat => Lx [Zx (fst aw); Zx (Z.of_nat (snd aw))]) l).

Definition sx_toperand (o : toperand) : sx :=
  match o with
  | TAddrLit s => Lx [Zx 0; sx_zs s]
  | TLabel l => Lx [Zx 1; Zx l]
  | TNoOperand => Lx []
  end.
Definition sx_tline (p : Z * tline) : sx :=
  let '(ln, t) := p in
  match t with
  | TLDirective d => Lx [Zx ln; Zx 0; Zx d]
  | TLVar n vals => Lx [Zx ln; Zx 1; Zx n; Lx (map sx_zs vals)]
  | TLInstr il op opnd => Lx [Zx ln; Zx 2; sx_opt Zx il; Zx op; sx_toperand opnd]
  | TLLabel n => Lx [Zx ln; Zx 3; Zx n]
  end.

Definition dispatch_all (req : sx) : sx :=
  let op := dz (dnth req 0) in
  if op =? 80 then
    let s := dst (dnth req 1) in
    let n := Z.to_nat (dz (dnth req 2)) in
    let evs := SchedDefs.single_events n s in
    Lx [ sx_zn (combine (PipeInv.single_trace n s) (SchedDefs.schedule evs));
         sx_zn (SchedDefs.pipe_retire (8 * n + 8) (pipe_init s true));
         Zx (match snd (single_run n s) with Done => 0 | Faulted _ => 1 | OutOfFuel => 2 end) ]
  else if op =? 81 then
    let s := dst (dnth req 1) in
    let n := Z.to_nat (dz (dnth req 2)) in
    let '(s', e) := FlagOffDwb.dwb_run n s in
    Lx [ Zx (match e with Done => 0 | Faulted _ => 1 | OutOfFuel => 2 end);
         sx_st s';
         Lx (map Zx (FlagOffDwb.dwb_trace n s)) ]
  else if op =? 90 then
    let text := dzs (dnth req 1) in
    Lx [ match toy_lex_text text with
         | POk l => Lx (Zx 0 :: map sx_tline l)
         | PErr (PSyntax ln) => Lx [Zx 1; Zx ln]
         | PErr _ => Lx [Zx 2]
         end;
         sx_bool (toy_lex_domain text) ]
  else if op =? 91 then
    let s0 := dtstate (dnth req 1) in
    let '(s1, e) := toy_load_text s0 (dzs (dnth req 2)) in
    Lx [sx_opt sx_perr e; sx_tstate s1]
  else if op =? 93 then
    let s0 := init_st [] (dmemsys (dnth req 1) []) (dicache (dnth req 2)) in
    let '(s1, e, img) := Lex.rv_load_text s0 (map dzs (dl (dnth req 3))) in
    Lx [sx_opt sx_perr e; sx_opt sx_image img; sx_zmap_sorted (ms_lower (ms s1)); sx_st s1]
  else if op =? 94 then
    let s0 := init_st [] (dmemsys (dnth req 1) []) (dicache (dnth req 2)) in
    let '(s1, e, img) := LexText.rv_load_program_text s0 (dzs (dnth req 3)) in
    Lx [sx_opt sx_perr e; sx_opt sx_image img; sx_zmap_sorted (ms_lower (ms s1)); sx_st s1]
  else if op =? 92 then
    let l := dzs (dnth req 1) in
    Lx [ Zx (match Lex.lex_line l with Lex.LexSkip => 0 | Lex.LexSyntax => 1 | Lex.LexOk _ => 2 end); sx_bool (Lex.lex_domain l) ]
  else Main.dispatch req.
