(* Fmt.v — number formatting (util/integer_representations.py, Python str/hex/bin of ints).
   Strings are lists of character codes (list Z) so that they extract and compare cheaply. *)
From Coq Require String Ascii.
From ArchSim Require Import Model.Base.
Open Scope Z_scope.

Definition str := list Z.

Definition digit_char (d : Z) : Z := if d <? 10 then 48 + d else 55 + d.   (* '0'..'9','A'..'F' *)

(* digits of a non-negative number, least significant first; fuel = number of bits + 1 *)
Fixpoint digits_lsf (base : Z) (fuel : nat) (z : Z) : list Z :=
  match fuel with
  | O => []
  | S f => if z <? base then [z] else (z mod base) :: digits_lsf base f (z / base)
  end.

Definition nat_digits (base z : Z) : list Z :=
  rev (digits_lsf base (S (Z.to_nat (Z.log2 z))) z).

(* Python str(int) / "{:X}".format / bin() for non-negative numbers *)
Definition fmt_nat (base z : Z) : str := map digit_char (nat_digits base z).
Definition fmt_int (base z : Z) : str :=
  if z <? 0 then 45 :: fmt_nat base (- z) else fmt_nat base z.     (* '-' = 45 *)
Definition str_dec (z : Z) : str := fmt_int 10 z.

(* zero padded to at least [w] characters: "{:0wX}" / "{:0wb}" (non-negative numbers) *)
Definition pad_left (w : Z) (s : str) : str :=
  repeat 48 (Z.to_nat (w - Z.of_nat (length s))) ++ s.
Definition fmt_pad (base w z : Z) : str := pad_left w (fmt_nat base z).

(* groupify_string(string, group_size): groups counted from the right, single spaces *)
Fixpoint group_rev (g : nat) (k : nat) (s : str) : str :=
  (* s is the reversed string; k = characters already placed in the current group *)
  match s with
  | [] => []
  | c :: t =>
      match Nat.eqb k g with
      | true => 32 :: c :: group_rev g 1 t
      | false => c :: group_rev g (S k) t
      end
  end.
Definition groupify (g : nat) (s : str) : str := rev (group_rev g 0 (rev s)).

Definition cdiv (a b : Z) : Z := (a + b - 1) / b.

(* get_n_bit_representations(number, n) = (bin, udec, hex, sdec) *)
Definition n_bit_repr (n v : Z) : str * str * str * str :=
  let u := Z.land v (2 ^ n - 1) in
  let s := if u >=? 2 ^ (n - 1) then u - 2 ^ n else u in
  (groupify 8 (fmt_pad 2 n u), str_dec u, groupify 2 (fmt_pad 16 (cdiv n 4) u), str_dec s).

(* to_hex_str *)
Definition to_hex_str (v n : Z) : str := fmt_pad 16 (cdiv n 4) v.

(** Coq [string] -> code list, for readable literals in the model *)
Fixpoint codes (s : String.string) : str :=
  match s with
  | String.EmptyString => []
  | String.String c t => Z.of_nat (Ascii.nat_of_ascii c) :: codes t
  end.
