(* RVSplit.v — the four-phase split of every instruction used by the five-stage pipeline:
   control_unit_signals, access_register_file, get_write_register, alu_compute, memory_access,
   write_back (instruction_types.py, rv32i_instructions.py).  Model only.
   Intermediate results are raw Python ints (may be negative or >= 2^32), exactly as in the code;
   normalisation happens in write_back (UInt32(data)) and in the memory system. *)
From ArchSim Require Import Model.Base Model.Mem Model.Cache Model.Fmt Model.RV.
Open Scope Z_scope.

(* the control signals that influence behaviour *)
Record csig := {
  c_src1 : option bool;     (* alu_src_1: None / False (instruction address) / True (rs1 value) *)
  c_src2 : bool;            (* alu_src_2 truthy -> imm, else rs2 value *)
  c_wb : option Z;          (* wb_src: 0 pc+4 | 1 memory data | 2 ALU result | 3 imm | None *)
  c_branch : bool; c_jump : bool; c_alu_to_pc : bool }.

Definition sig_default : csig :=
  {| c_src1 := None; c_src2 := false; c_wb := None; c_branch := false; c_jump := false; c_alu_to_pc := false |}.
Definition sig (s1 : option bool) (s2 : bool) (wb : option Z) (br jp atp : bool) : csig :=
  {| c_src1 := s1; c_src2 := s2; c_wb := wb; c_branch := br; c_jump := jp; c_alu_to_pc := atp |}.

Definition signals (i : instr) : csig :=
  match i with
  | IR _ _ _ _ => sig (Some true) false (Some 2) false false false
  | II _ _ _ _ | ISh _ _ _ _ | IEcall | IEbreak => sig (Some true) true (Some 2) false false false
  | ILoad _ _ _ _ => sig (Some true) true (Some 1) false false false
  | IJalr _ _ _ => sig (Some true) true (Some 0) false false true
  | IStore _ _ _ _ => sig (Some true) true None false false false
  | IBranch _ _ _ _ => sig (Some true) false None true false false
  | ILui _ _ => sig None false (Some 3) false false false
  | IAuipc _ _ => sig (Some false) true (Some 2) false false false
  | IJal _ _ _ => sig None false (Some 0) false true false
  | IFence | ICsr _ _ _ _ | ICsri _ _ _ _ => sig_default
  end.

(* access_register_file: (read addr 1, read addr 2, read data 1, read data 2, imm) *)
Definition access_rf (i : instr) (s : st)
  : option Z * option Z * option Z * option Z * option Z :=
  match i with
  | IR _ _ rs1 rs2 => (Some rs1, Some rs2, Some (rget s rs1), Some (rget s rs2), None)
  | II _ _ rs1 imm | ISh _ _ rs1 imm | ILoad _ _ rs1 imm | IJalr _ rs1 imm =>
      (Some rs1, None, Some (rget s rs1), None, Some imm)
  | IEcall => (Some 0, None, Some (rget s 0), None, Some 0)
  | IEbreak => (Some 0, None, Some (rget s 0), None, Some 1)
  | IStore o rs1 rs2 imm =>
      (Some rs1, Some rs2, Some (rget s rs1), Some (U (store_bits o) (rget s rs2)), Some imm)
  | IBranch _ rs1 rs2 imm => (Some rs1, Some rs2, Some (rget s rs1), Some (rget s rs2), Some imm)
  | ILui _ imm | IAuipc _ imm => (None, None, None, None, Some (Z.shiftl imm 12))
  | IJal _ imm _ => (None, None, None, None, Some imm)
  | IFence | ICsr _ _ _ _ | ICsri _ _ _ _ => (None, None, None, None, None)
  end.

Definition write_reg (i : instr) : option Z :=
  match i with
  | IR _ rd _ _ | II _ rd _ _ | ISh _ rd _ _ | ILoad _ rd _ _ | IJalr rd _ _
  | ILui rd _ | IAuipc rd _ | IJal rd _ _ => Some rd
  | IEcall | IEbreak => Some 0
  | _ => None
  end.

(* alu_compute of the R-type classes: same casts as the code, result NOT reduced to 32 bits
   where the code does not reduce it *)
Definition r_alu (o : rop) (a b : Z) : Z :=
  match o with
  | ADD => U32 (U32 a + U32 b)
  | SUB => U32 (U32 a - U32 b)
  | SLL => U32 (Z.shiftl (U32 a) (U32 b mod 32))
  | SLT => b2z (I32 a <? I32 b)
  | SLTU => b2z (U32 a <? U32 b)
  | XOR => U32 (Z.lxor (U32 a) (U32 b))
  | SRL => U32 (Z.shiftr (U32 a) (U32 b mod 32))
  | SRA => I32 (Z.shiftr (I32 a) (I32 (U32 b mod 32)))
  | OR => U32 (Z.lor (U32 a) (U32 b))
  | AND => U32 (Z.land (U32 a) (U32 b))
  | MUL => U32 (U32 a * U32 b)
  | MULH => Z.shiftr (I32 a * I32 b) 32
  | MULHU => Z.shiftr (a * b) 32
  | MULHSU => Z.shiftr (I32 a * b) 32
  | DIV => if I32 b =? 0 then -1 else pyfdiv (I32 a) (I32 b)
  | DIVU => if U32 b =? 0 then -1 else U32 a / U32 b
  | REM => if I32 b =? 0 then I32 a else I32 a - pyfdiv (I32 a) (I32 b) * I32 b
  | REMU => if U32 b =? 0 then U32 a else U32 a mod U32 b
  end.

Definition i_alu (o : iop) (a b : Z) : Z :=
  match o with
  | ADDI => U32 (U32 a + U32 b)
  | SLTI => b2z (I32 a <? I32 b)
  | SLTIU => b2z (U32 a <? U32 b)
  | XORI => U32 (Z.lxor (U32 a) (U32 b))
  | ORI => U32 (Z.lor (U32 a) (U32 b))
  | ANDI => U32 (Z.land (U32 a) (U32 b))
  end.

Definition sh_alu (o : shop) (a b : Z) : Z :=
  match o with
  | SLLI => U32 (Z.shiftl (U32 a) (U32 b))
  | SRLI => U32 (Z.shiftr (U32 a) (U32 b))
  | SRAI => I32 (Z.shiftr (I32 a) b)
  end.

Definition b_alu (o : bop) (a b : Z) : bool :=
  match o with
  | BEQ => a =? b
  | BNE => negb (a =? b)
  | BLT => I32 a <? I32 b
  | BGE => I32 a >=? I32 b
  | BLTU => a <? b
  | BGEU => a >=? b
  end.

(* alu_compute(alu_in_1, alu_in_2) -> (branch taken flag, result); the classes that assert their
   inputs fail with an assertion error (EOther 7) when one is missing *)
Definition alu_compute (i : instr) (a b : option Z) : res (option bool * option Z) :=
  let need (f : Z -> Z -> option bool * option Z) :=
    match a, b with Some x, Some y => Ok (f x y) | _, _ => Err (EOther 7) end in
  match i with
  | IR o _ _ _ => need (fun x y => (None, Some (r_alu o x y)))
  | II o _ _ _ => need (fun x y => (None, Some (i_alu o x y)))
  | ISh o _ _ _ => need (fun x y => (None, Some (sh_alu o x y)))
  | ILoad _ _ _ _ => need (fun x y => (None, Some (U32 x + y)))
  | IJalr _ _ _ => need (fun x y => (None, Some (Z.land (x + y) (2 ^ 32 - 2))))
  | IEcall => Ok (None, Some 0)
  | IStore _ _ _ _ =>
      match a, b with Some x, Some y => Ok (None, Some (x + y)) | _, _ => Ok (None, None) end
  | IBranch o _ _ _ => need (fun x y => (Some (b_alu o x y), None))
  | IAuipc _ _ => need (fun x y => (None, Some (x + y)))
  | _ => Ok (None, None)
  end.

(* memory_access(memory_address, memory_write_data, state) -> data read (raw: sign-extended
   values are negative Python ints) *)
Definition memory_access (i : instr) (addr data : option Z) (s : st) : res (option Z) * st :=
  match i with
  | ILoad o _ _ _ =>
      match addr with
      | None => (Err (EOther 7), s)
      | Some a =>
          match st_read s (load_bits o) a true with
          | (Ok v, s') =>
              (Ok (Some (match o with LB => I8 v | LH => I16 v | _ => v end)), s')
          | (Err e, s') => (Err e, s')
          end
      end
  | IStore o _ _ _ =>
      match addr, data with
      | Some a, Some d =>
          match st_write s (store_bits o) a (U (store_bits o) d) false with
          | (None, s') => (Ok None, s')
          | (Some e, s') => (Err e, s')
          end
      | _, _ => (Ok None, s)
      end
  | _ => (Ok None, s)
  end.

(* write_back(write_register, register_write_data, state) *)
Definition write_back (i : instr) (wreg data : option Z) (s : st) : st * option err :=
  match i with
  | IR _ _ _ _ | II _ _ _ _ | ISh _ _ _ _ | ILoad _ _ _ _ | IJalr _ _ _ | IEcall | IEbreak
  | ILui _ _ | IAuipc _ _ | IJal _ _ _ =>
      match wreg, data with
      | Some r, Some d => (rset s r (U32 d), None)
      | _, _ => (s, Some (EOther 7))
      end
  | _ => (s, None)
  end.
