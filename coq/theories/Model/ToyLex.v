(* ToyLex.v — the TOY tokenizer inside the model.
   Mirrors  parser.py:_sanitize/_tokenize  and the pyparsing grammar  toy_parser.py:_pattern_line
   (pyparsing 3.x semantics: scannerless, implicit skipping of " \t\r\n" before every token,
   no backtracking inside And, Or = longest alternative, oneOf = ordered regex alternation,
   Combine = no skipping inside, StringEnd after the chosen alternative).
   Input: character codes (Python code points).  Output: the token lines of Toy.v, names interned in
   first-occurrence order exactly as harness/toy_asm.py:tokens_of does.
   Model only: no proofs here (Proofs/ToyLexProofs*.v). *)
From Coq Require String.
From ArchSim Require Import Model.Base Model.Fmt Model.Toy.
Import String.StringSyntax.
Local Delimit Scope string_scope with string.
Open Scope Z_scope.

(** * character classes *)
Definition in_range (lo hi c : Z) : bool := (lo <=? c) && (c <=? hi).
(* pyparsing's default whitespace " \n\t\r" *)
Definition is_pws (c : Z) : bool := (c =? 32) || (c =? 9) || (c =? 10) || (c =? 13).
(* Python str.isspace / str.strip(): the complete Unicode list *)
Definition is_pyspace (c : Z) : bool :=
  in_range 9 13 c || in_range 28 32 c || (c =? 133) || (c =? 160) || (c =? 5760)
  || in_range 8192 8202 c || (c =? 8232) || (c =? 8233) || (c =? 8239) || (c =? 8287) || (c =? 12288).
(* str.splitlines() boundaries (13 10 counts once) *)
Definition is_linebreak (c : Z) : bool :=
  in_range 10 13 c || in_range 28 30 c || (c =? 133) || (c =? 8232) || (c =? 8233).
Definition is_digit (c : Z) : bool := in_range 48 57 c.
Definition is_upper (c : Z) : bool := in_range 65 90 c.
Definition is_lower (c : Z) : bool := in_range 97 122 c.
Definition is_alpha_ (c : Z) : bool := is_upper c || is_lower c || (c =? 95).       (* alphas + "_" *)
Definition is_alnum_ (c : Z) : bool := is_alpha_ c || is_digit c.                    (* alphanums + "_" *)
Definition is_hexdigit (c : Z) : bool := is_digit c || in_range 65 70 c || in_range 97 102 c.
Definition to_upper (c : Z) : Z := if is_lower c then c - 32 else c.

(** * generic scanning *)
Fixpoint drop_while (p : Z -> bool) (s : str) : str :=
  match s with
  | [] => []
  | c :: r => if p c then drop_while p r else s
  end.
Fixpoint span (p : Z -> bool) (s : str) : str * str :=
  match s with
  | [] => ([], [])
  | c :: r => if p c then let '(a, b) := span p r in (c :: a, b) else ([], s)
  end.
Definition skip_ws (s : str) : str := drop_while is_pws s.

(* exact / ASCII-caseless prefix (the pattern is given in upper case for the caseless one) *)
Fixpoint prefix_exact (pat s : str) : option str :=
  match pat with
  | [] => Some s
  | p :: pt => match s with
               | c :: r => if c =? p then prefix_exact pt r else None
               | [] => None
               end
  end.
Fixpoint prefix_ci (pat s : str) : option str :=
  match pat with
  | [] => Some s
  | p :: pt => match s with
               | c :: r => if to_upper c =? p then prefix_ci pt r else None
               | [] => None
               end
  end.

(* Literal(l): skip whitespace, exact match *)
Definition lex_lit (l : str) (s : str) : option str := prefix_exact l (skip_ws s).

(* Word(alphas + "_", alphanums + "_") *)
Definition lex_word (s : str) : option (str * str) :=
  match skip_ws s with
  | c :: r => if is_alpha_ c then let '(w, rest) := span is_alnum_ r in Some (c :: w, rest) else None
  | [] => None
  end.

(* Word(nums) *)
Definition lex_dec (s : str) : option (str * str) :=
  match span is_digit (skip_ws s) with
  | ([], _) => None
  | (d, rest) => Some (d, rest)
  end.
(* Combine("0x" + Word(hexnums)): whitespace before, none inside *)
Definition lex_hex (s : str) : option (str * str) :=
  match skip_ws s with
  | c1 :: c2 :: r =>
      if (c1 =? 48) && (c2 =? 120) then
        match span is_hexdigit r with
        | ([], _) => None
        | (h, rest) => Some (48 :: 120 :: h, rest)
        end
      else None
  | _ => None
  end.
(* _pattern_value = hex | dec   (MatchFirst) *)
Definition lex_value (s : str) : option (str * str) :=
  match lex_hex s with
  | Some r => Some r
  | None => lex_dec s
  end.

(* oneOf(symbols) = regex "s1|s2|...": first alternative (in list order) that matches *)
Fixpoint first_ci (pats : list (Z * str)) (s : str) : option (Z * str) :=
  match pats with
  | [] => None
  | (k, p) :: t => match prefix_ci p s with
                   | Some r => Some (k, r)
                   | None => first_ci t s
                   end
  end.
Fixpoint first_exact (pats : list (Z * str)) (s : str) : option (Z * str) :=
  match pats with
  | [] => None
  | (k, p) :: t => match prefix_exact p s with
                   | Some r => Some (k, r)
                   | None => first_exact t s
                   end
  end.

(** * token lines with names still spelled out *)
Inductive rtoperand := RAddrLit (s : str) | RLabel (name : str) | RNoOperand.
Inductive rtline :=
| RLDirective (d : Z)                                  (* 0 = .text, 1 = .data *)
| RLVar (name : str) (vals : list str)
| RLInstr (il : option str) (op : Z) (opnd : rtoperand)
| RLLabel (name : str).

(* opcode numbering of Toy.v / toy_asm.OPC *)
Definition addr_mnemonics : list (Z * str) :=
  [(0, codes "STO"%string); (1, codes "LDA"%string); (2, codes "BRZ"%string); (3, codes "ADD"%string); (4, codes "SUB"%string);
   (5, codes "OR"%string); (6, codes "AND"%string); (7, codes "XOR"%string)].
Definition noaddr_mnemonics : list (Z * str) :=
  [(8, codes "NOT"%string); (9, codes "INC"%string); (10, codes "DEC"%string); (11, codes "ZRO"%string); (12, codes "NOP"%string)].
Definition directives : list (Z * str) := [(0, codes "text"%string); (1, codes "data"%string)].

Definition lex_mnemonic (tbl : list (Z * str)) (s : str) : option (Z * str) := first_ci tbl (skip_ws s).

(* _pattern_label_declaration = label + ":" *)
Definition lex_label_decl (s : str) : option (str * str) :=
  match lex_word s with
  | Some (w, r) => match lex_lit [58] r with
                   | Some r' => Some (w, r')
                   | None => None
                   end
  | None => None
  end.

(* Group("." + oneOf(["text","data"])) *)
Definition lex_directive (s : str) : option (rtline * str) :=
  match lex_lit [46] s with
  | Some r => match first_exact directives (skip_ws r) with
              | Some (d, r') => Some (RLDirective d, r')
              | None => None
              end
  | None => None
  end.

(* ZeroOrMore("," + value): an iteration that fails leaves the input where the iteration began *)
Fixpoint lex_more_values (fuel : nat) (s : str) : list str * str :=
  match fuel with
  | O => ([], s)
  | S f =>
      match lex_lit [44] s with
      | Some r => match lex_value r with
                  | Some (v, r') => let '(vs, rest) := lex_more_values f r' in (v :: vs, rest)
                  | None => ([], s)
                  end
      | None => ([], s)
      end
  end.

(* Group(label + ":" + Group("." + "word") + delimitedList(value)) *)
Definition lex_vardecl (s : str) : option (rtline * str) :=
  match lex_label_decl s with
  | Some (name, r0) =>
      match lex_lit [46] r0 with
      | Some r1 =>
          match lex_lit (codes "word"%string) r1 with
          | Some r2 =>
              match lex_value r2 with
              | Some (v, r3) => let '(vs, rest) := lex_more_values (length r3) r3 in
                                Some (RLVar name (v :: vs), rest)
              | None => None
              end
          | None => None
          end
      | None => None
      end
  | None => None
  end.

(* oneOf(address mnemonics) + (value ^ label); the two operand shapes start with different characters *)
Definition lex_addr_instr (il : option str) (s : str) : option (rtline * str) :=
  match lex_mnemonic addr_mnemonics s with
  | Some (op, r) =>
      match lex_value r with
      | Some (v, r') => Some (RLInstr il op (RAddrLit v), r')
      | None => match lex_word r with
                | Some (w, r') => Some (RLInstr il op (RLabel w), r')
                | None => None
                end
      end
  | None => None
  end.
Definition lex_noaddr_instr (il : option str) (s : str) : option (rtline * str) :=
  match lex_mnemonic noaddr_mnemonics s with
  | Some (op, r) => Some (RLInstr il op RNoOperand, r)
  | None => None
  end.

(* Or of two alternatives: the longer match, the first on a tie *)
Definition longer {A} (a b : option (A * str)) : option (A * str) :=
  match a, b with
  | Some (x, ra), Some (y, rb) => if (length rb <? length ra)%nat then b else a
  | Some _, None => a
  | None, _ => b
  end.

(* Optional(label_declaration) + (address_instruction ^ no_address_instruction):
   Optional is greedy and is not undone when what follows fails *)
Definition lex_instr (s : str) : option (rtline * str) :=
  let '(il, s1) := match lex_label_decl s with
                    | Some (w, r) => (Some w, r)
                    | None => (None, s)
                    end in
  longer (lex_addr_instr il s1) (lex_noaddr_instr il s1).

Definition lex_labelline (s : str) : option (rtline * str) :=
  match lex_label_decl s with
  | Some (w, r) => Some (RLLabel w, r)
  | None => None
  end.

(* _pattern_line on a sanitised line: (directive ^ variable ^ instruction ^ label) + StringEnd *)
Definition lex_sanitised (s : str) : option rtline :=
  match longer (longer (longer (lex_directive s) (lex_vardecl s)) (lex_instr s)) (lex_labelline s) with
  | Some (t, rest) => match skip_ws rest with
                      | [] => Some t
                      | _ => None
                      end
  | None => None
  end.

(** * _sanitize on one line *)
Fixpoint rstrip (s : str) : str :=
  match s with
  | [] => []
  | c :: r => match rstrip r with
              | [] => if is_pyspace c then [] else [c]
              | r' => c :: r'
              end
  end.
Definition py_strip (s : str) : str := rstrip (drop_while is_pyspace s).
Definition before_hash (s : str) : str := fst (span (fun c => negb (c =? 35)) s).

(* None: the line is dropped (blank or comment only) *)
Definition sanitise_line (s : str) : option str :=
  match py_strip s with
  | [] => None
  | c :: _ => if c =? 35 then None else Some (py_strip (before_hash s))
  end.

Inductive lexres := LBlank | LErr | LTok (t : rtline).

Definition toy_lex_line (s : str) : lexres :=
  match sanitise_line s with
  | None => LBlank
  | Some l => match lex_sanitised l with
              | Some t => LTok t
              | None => LErr
              end
  end.

(** * str.splitlines() *)
(* pieces: the text cut at every boundary: (first piece, further pieces) *)
Fixpoint pieces (s : str) : str * list str :=
  match s with
  | [] => ([], [])
  | c :: r =>
      if c =? 13 then
        match r with
        | c2 :: r' => if c2 =? 10 then let '(h, t) := pieces r' in ([], h :: t)
                      else let '(h, t) := pieces r in ([], h :: t)
        | [] => ([], [[]])
        end
      else if is_linebreak c then let '(h, t) := pieces r in ([], h :: t)
      else let '(h, t) := pieces r in (c :: h, t)
  end.
(* an empty last piece (text ends with a boundary, or is empty) is not a line *)
Fixpoint drop_last_empty (l : list str) : list str :=
  match l with
  | [] => []
  | [x] => match x with [] => [] | _ => [x] end
  | x :: t => x :: drop_last_empty t
  end.
Definition splitlines (s : str) : list str := let '(h, t) := pieces s in drop_last_empty (h :: t).

(** * name interning as in toy_asm.tokens_of: ids 1, 2, ... in order of first occurrence *)
Fixpoint str_eqb (a b : str) : bool :=
  match a, b with
  | [], [] => true
  | x :: a', y :: b' => (x =? y) && str_eqb a' b'
  | _, _ => false
  end.
Fixpoint find_name (tbl : list str) (n : str) (i : Z) : option Z :=
  match tbl with
  | [] => None
  | x :: t => if str_eqb x n then Some i else find_name t n (i + 1)
  end.
Definition intern (tbl : list str) (n : str) : Z * list str :=
  match find_name tbl n 1 with
  | Some i => (i, tbl)
  | None => (Z.of_nat (length tbl) + 1, tbl ++ [n])
  end.
Definition intern_line (tbl : list str) (t : rtline) : tline * list str :=
  match t with
  | RLDirective d => (TLDirective d, tbl)
  | RLVar n vals => let '(i, tbl') := intern tbl n in (TLVar i vals, tbl')
  | RLLabel n => let '(i, tbl') := intern tbl n in (TLLabel i, tbl')
  | RLInstr il op opnd =>
      let '(il', tbl1) := match il with
                           | Some n => let '(i, tb) := intern tbl n in (Some i, tb)
                           | None => (None, tbl)
                           end in
      match opnd with
      | RAddrLit v => (TLInstr il' op (TAddrLit v), tbl1)
      | RLabel n => let '(i, tbl2) := intern tbl1 n in (TLInstr il' op (TLabel i), tbl2)
      | RNoOperand => (TLInstr il' op TNoOperand, tbl1)
      end
  end.

(** * the per-line pipeline: enumerate lines from 1, drop blank/comment lines, tokenise in order,
      stop at the first line the grammar rejects (ParserSyntaxException of that line) *)
Fixpoint lex_lines (ls : list str) (ln : Z) (tbl : list str) : pres (list (Z * tline)) :=
  match ls with
  | [] => POk []
  | l :: rest =>
      match toy_lex_line l with
      | LBlank => lex_lines rest (ln + 1) tbl
      | LErr => PErr (PSyntax ln)
      | LTok t => let '(t', tbl') := intern_line tbl t in
                  match lex_lines rest (ln + 1) tbl' with
                  | POk r => POk ((ln, t') :: r)
                  | PErr e => PErr e
                  end
      end
  end.
Definition toy_lex_text (text : str) : pres (list (Z * tline)) := lex_lines (splitlines text) 1 [].

(* supported domain: every Python str (code points 0 .. 0x10FFFF, surrogates included) *)
Definition toy_lex_domain (text : str) : bool := forallb (in_range 0 1114111) text.

(* ToySimulation.load_program on source text *)
Definition toy_load_text (s : tstate) (text : str) : tstate * option perr :=
  match toy_lex_text text with
  | POk toks => toy_load s toks
  | PErr e => (toy_init (t_size s) (t_nextcycle s) (t_started s), Some e)
  end.
