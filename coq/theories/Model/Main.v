(* Main.v — request dispatcher of the extracted model (one request per line). *)
From ArchSim Require Import Model.Base Model.Mem Model.Cache Model.Fmt Model.RV Model.Single Model.Sx.
Open Scope Z_scope.

(* op 1: single-cycle trace.  (1 state nsteps) -> observations after every step, then a
   terminal record (0)=done (1 fault state)=fault (2)=step bound reached *)
Fixpoint single_trace (fuel : nat) (s : st) (acc : list sx) : list sx :=
  match fuel with
  | O => rev (Lx [Zx (if single_done s then 0 else 2)] :: acc)
  | S k =>
      if single_done s then rev (Lx [Zx 0] :: acc)
      else
        match single_pipeline_step s with
        | (s', Some f) => rev (Lx [Zx 1; sx_fault f; sx_st s'] :: acc)
        | (s', None) => single_trace k s' (sx_st s' :: acc)
        end
  end.

Definition dispatch (req : sx) : sx :=
  let op := dz (dnth req 0) in
  if op =? 1 then
    Lx (single_trace (Z.to_nat (dz (dnth req 2))) (dst (dnth req 1)) [sx_st (dst (dnth req 1))])
  else Lx [Zx (-1)].
