(* Main.v — request dispatcher of the extracted model (one request per line). *)
From ArchSim Require Import Model.Base Model.Mem Model.Cache Model.Fmt Model.RV Model.Single Model.RVSplit Model.Pipe Model.Toy Model.Asm Model.Sx.
Open Scope Z_scope.

(* op 1: single-cycle trace.  (1 state nsteps) -> observations after every step, then a
   terminal record (0)=done (1 fault state)=fault (2)=step bound reached *)
Fixpoint single_trace (fuel : nat) (s : st) (acc : list sx) : list sx :=
  match fuel with
  | O => rev (Lx [Zx (if single_done s then 0 else 2)] :: acc)
  | S k =>
      if single_done s then rev (Lx [Zx 0] :: acc)
      else
        match single_pipeline_step s with
        | (s', Some f) => rev (Lx [Zx 1; sx_fault f; sx_st s'] :: acc)
        | (s', None) => single_trace k s' (sx_st s' :: acc)
        end
  end.

(* op 2: five-stage trace (2 state nsteps hazards) *)
Fixpoint pipe_trace (fuel : nat) (p : pstate) (acc : list sx) : list sx :=
  match fuel with
  | O => rev (Lx [Zx (if pipe_done p then 0 else 2)] :: acc)
  | S k =>
      if pipe_done p then rev (Lx [Zx 0] :: acc)
      else
        match pipe_step p with
        | (p', Some f) => rev (Lx [Zx 1; sx_fault f; sx_pstate p'] :: acc)
        | (p', None) => pipe_trace k p' (sx_pstate p' :: acc)
        end
  end.

(* RISC-V simulation life cycle: ops (0 tokens) load | 1 step | (2 fuel) run.
   After every op: (outcome, observation).  outcome: load -> error option; step -> continue flag or
   fault; run -> how it ended *)
Inductive simst := SSingle (s : st) | SPipe (p : pstate).

Definition sim_obs (x : simst) : sx :=
  match x with SSingle s => sx_st s | SPipe p => sx_pstate p end.
Definition sim_done (x : simst) : bool :=
  match x with SSingle s => single_done s | SPipe p => pipe_done p end.
Definition sim_arch (x : simst) : st := match x with SSingle s => s | SPipe p => pst p end.
Definition sim_with_arch (x : simst) (s : st) : simst :=
  match x with
  | SSingle _ => SSingle s
  | SPipe p => SPipe {| pst := s; lat := lat p; stalled := stalled p; saved := saved p; hazards := hazards p |}
  end.

Definition sim_apply (x : simst) (op : sx) : simst * sx :=
  match op with
  | Lx (Zx 0 :: toks :: _) =>
      let '(s', e, img) := rv_load (sim_arch x) (map drline (dl toks)) in
      (sim_with_arch x s', Lx [Zx 0; sx_opt sx_perr e])
  | Zx 1 =>
      match x with
      | SSingle s => let '(c, s', f) := single_sim_step s in
                     (SSingle s', Lx [Zx 1; sx_bool c; sx_opt sx_fault f])
      | SPipe p => let '(c, p', f) := pipe_sim_step p in
                   (SPipe p', Lx [Zx 1; sx_bool c; sx_opt sx_fault f])
      end
  | Lx (Zx 2 :: fuel :: _) =>
      match x with
      | SSingle s => let '(s', e) := single_run (Z.to_nat (dz fuel)) s in
                     (SSingle s', Lx [Zx 2; match e with Done => Lx [Zx 0] | Faulted f => Lx [Zx 1; sx_fault f] | OutOfFuel => Lx [Zx 2] end])
      | SPipe p => let '(p', e) := pipe_run (Z.to_nat (dz fuel)) p in
                   (SPipe p', Lx [Zx 2; match e with PDone => Lx [Zx 0] | PFaulted f => Lx [Zx 1; sx_fault f] | POutOfFuel => Lx [Zx 2] end])
      end
  | _ => (x, Lx [])
  end.

Fixpoint sim_trace (ops : list sx) (x : simst) (acc : list sx) : list sx :=
  match ops with
  | [] => rev acc
  | op :: t => let '(x', o) := sim_apply x op in
               sim_trace t x' (Lx [o; sim_obs x'; sx_bool (sim_done x')] :: acc)
  end.

(* TOY: apply an op list, observing (outcome, state) after every op.
   ops: 0 step | 1 first half | 2 second half | 3 single | (4 fuel) run | (5 tokens) load *)
Definition toy_apply (s : tstate) (op : sx) : tstate * sx :=
  match op with
  | Zx 0 => let '(s', o) := toy_step s in (s', Lx [sx_toutcome o; sx_bool (negb (toy_done s'))])
  | Zx 1 => let '(s', o) := first_half s in (s', Lx [sx_toutcome o])
  | Zx 2 => let '(s', o) := second_half s in (s', Lx [sx_toutcome o])
  | Zx 3 => let '(s', o) := toy_single s in (s', Lx [sx_toutcome o])
  | Lx (Zx 4 :: f :: _) =>
      let '(s', o, fin) := toy_run (Z.to_nat (dz f)) s in (s', Lx [sx_toutcome o; sx_bool fin])
  | Lx (Zx 5 :: toks :: _) =>
      let '(s', e) := toy_load s (map dtline (dl toks)) in (s', Lx [sx_opt sx_perr e])
  | _ => (s, Lx [])
  end.

Fixpoint toy_trace (ops : list sx) (s : tstate) (acc : list sx) : list sx :=
  match ops with
  | [] => rev acc
  | op :: t => let '(s', o) := toy_apply s op in toy_trace t s' (Lx [o; sx_tstate s'] :: acc)
  end.

(* flat memory histories: ops (0 nbits a) read | (1 nbits a v) write; results per op *)
Fixpoint flat_trace (c : memcfg) (ops : list sx) (m : zmap) (acc : list sx) : list sx * zmap :=
  match ops with
  | [] => (rev acc, m)
  | op :: t =>
      if dz (dnth op 0) =? 0 then
        flat_trace c t m (sx_res Zx (mem_read c m (dz (dnth op 1)) (dz (dnth op 2))) :: acc)
      else
        let '(m', e) := mem_write c m (dz (dnth op 1)) (dz (dnth op 2)) (dz (dnth op 3)) in
        flat_trace c t m' (sx_opt sx_err e :: acc)
  end.

(* replacement policy histories: after every access (victim, repr) *)
Fixpoint pol_trace (h : list Z) (p : pol) (acc : list sx) : list sx :=
  match h with
  | [] => rev acc
  | i :: t => let p' := pol_access p i in pol_trace t p' (Lx [Zx (pol_victim p'); sx_zs (pol_repr p')] :: acc)
  end.

(* data cache histories: ops (0 nbits a counted) read | (1 nbits a v direct) write;
   after every op: (result, penalty, directory+counters, lower memory) *)
Fixpoint dcache_trace (ops : list sx) (d : dcache) (acc : list sx) : list sx :=
  match ops with
  | [] => rev acc
  | op :: t =>
      if dz (dnth op 0) =? 3 then          (* inspection: no effect *)
        dcache_trace t d (Lx [Lx []; Zx 0; sx_dcache d; sx_zmap_sorted (lower d)] :: acc)
      else if dz (dnth op 0) =? 2 then          (* reset() *)
        let d' := dc_reset d in
        dcache_trace t d' (Lx [Lx []; Zx 0; sx_dcache d'; sx_zmap_sorted (lower d')] :: acc)
      else if dz (dnth op 0) =? 0 then
        let '(r, d', p) := dc_read d (dz (dnth op 1)) (dz (dnth op 2)) (dbool (dnth op 3)) in
        dcache_trace t d' (Lx [sx_res Zx r; Zx p; sx_dcache d'; sx_zmap_sorted (lower d')] :: acc)
      else
        let '(e, d', p) := dc_write d (dz (dnth op 1)) (dz (dnth op 2)) (dz (dnth op 3)) (dbool (dnth op 4)) in
        dcache_trace t d' (Lx [sx_opt sx_err e; Zx p; sx_dcache d'; sx_zmap_sorted (lower d')] :: acc)
  end.

(* instruction-cache histories: ops (0 addr) fetch | (1 k) reset() then write program k *)
Fixpoint icache_trace (progs : list (list instr)) (ops : list sx) (m : imem) (acc : list sx) : list sx :=
  match ops with
  | [] => rev acc
  | op :: t =>
      if dz (dnth op 0) =? 0 then
        let '(oi, m', p) := im_read m (dz (dnth op 1)) in
        icache_trace progs t m' (Lx [sx_opt sx_instr oi; Zx p; sx_icache_stats (icc m')] :: acc)
      else
        let m0 := im_reset m in
        let m' := {| prog := nth (Z.to_nat (dz (dnth op 1))) progs []; icc := icc m0 |} in
        icache_trace progs t m' (Lx [Lx []; Zx 0; sx_icache_stats (icc m')] :: acc)
  end.

(* RISC-V display tables of a state *)
Definition rv_tables (s : st) : sx :=
  Lx [ sx_list (fun r => sx_repr4 (n_bit_repr 32 (rget s r))) (zrange_from 0 32);
       sx_res (sx_list (fun av : Z * Z =>
                 Lx [Zx (fst av); sx_str ([48; 120] ++ fmt_pad 16 8 (fst av)); sx_repr4 (n_bit_repr 32 (snd av))]))
              (mem_repr rv_memcfg (ms_lower (ms s)) 32) ].

Definition dispatch (req : sx) : sx :=
  let op := dz (dnth req 0) in
  if op =? 1 then
    Lx (single_trace (Z.to_nat (dz (dnth req 2))) (dst (dnth req 1)) [sx_st (dst (dnth req 1))])
  else if op =? 2 then
    let p0 := pipe_init (dst (dnth req 1)) (dbool (dnth req 3)) in
    Lx (pipe_trace (Z.to_nat (dz (dnth req 2))) p0 [sx_pstate p0])
  else if op =? 10 then
    let s0 := dtstate (dnth req 1) in
    Lx (toy_trace (dl (dnth req 2)) s0 [Lx [Lx []; sx_tstate s0]])
  else if op =? 12 then
    let w := dz (dnth req 1) in
    let i := toy_decode w in
    Lx [sx_tinstr i; Zx (toy_encode i); sx_str (tinstr_repr i); Zx (op_code_value i); Zx (address_section_value i)]
  else if op =? 20 then sx_repr4 (n_bit_repr (dz (dnth req 1)) (dz (dnth req 2)))
  else if op =? 21 then
    let '(s', _) := single_run (Z.to_nat (dz (dnth req 2))) (dst (dnth req 1)) in rv_tables s'
  else if op =? 30 then
    let c := if dz (dnth req 1) =? 0 then rv_memcfg else toy_memcfg (dz (dnth req 2)) in
    let '(rs, m) := flat_trace c (dl (dnth req 4)) (dpairs (dnth req 3)) [] in
    Lx [Lx rs; sx_zmap_sorted m; sx_zs (mkeys m)]
  else if op =? 70 then
    (* (70 five? hazards dcfg icfg regs ops) *)
    let s0 := init_st [] (dmemsys (dnth req 3) []) (dicache (dnth req 4)) in
    let s1 := fold_left (fun acc kv => rset acc (fst kv) (snd kv)) (dpairs (dnth req 5)) s0 in
    let x0 := if dbool (dnth req 1) then SPipe (pipe_init s1 (dbool (dnth req 2))) else SSingle s1 in
    Lx (sim_trace (dl (dnth req 6)) x0 [Lx [Lx []; sim_obs x0; sx_bool (sim_done x0)]])
  else if op =? 60 then
    (* assemble into a fresh state with the given cache configurations *)
    let s0 := init_st [] (dmemsys (dnth req 1) []) (dicache (dnth req 2)) in
    let '(s1, e, img) := rv_load s0 (map drline (dl (dnth req 3))) in
    Lx [sx_opt sx_perr e; sx_opt sx_image img; sx_zmap_sorted (ms_lower (ms s1)); sx_st s1]
  else if op =? 62 then
    let i := dinstr (dnth req 1) in
    let a := dz (dnth req 2) in
    Lx [sx_str (instr_repr i);
        match repr_tokens i with
        | BIns t => match instantiate_one t [] a 1 with
                    | POk j => Lx [Zx 0; sx_instr j]
                    | PErr e => Lx [Zx 1; sx_perr e]
                    end
        | BStr k => Lx [Zx 0; sx_instr (if k =? 0 then IEcall else IEbreak)]
        | BOther => Lx [Zx 2]
        end]
  else if op =? 51 then
    let progs := map (fun p => map dinstr (dl p)) (dl (dnth req 2)) in
    Lx (icache_trace progs (dl (dnth req 3)) {| prog := nth 0 progs []; icc := dicache (dnth req 1) |} [])
  else if op =? 50 then
    match dmemsys (dnth req 1) (dpairs (dnth req 2)) with
    | MCache d => Lx (dcache_trace (dl (dnth req 3)) d [])
    | MFlat _ => Lx []
    end
  else if op =? 40 then
    let p := pol_init (dbool (dnth req 1)) (dz (dnth req 2)) in
    Lx (Lx [Zx (pol_victim p); sx_zs (pol_repr p)] :: pol_trace (dzs (dnth req 3)) p [])
  else Lx [Zx (-1)].
