(* RV.v — RV32IM instruction objects (instruction_types.py, rv32i_instructions.py):
   constructors' immediate normalisation, behavior(), process_ecall.  Model only.
   behavior() is written in the shape of the Python code (same casts in the same order). *)
From ArchSim Require Import Model.Base Model.Mem Model.Cache Model.Fmt.
Open Scope Z_scope.

Inductive rop := ADD | SUB | SLL | SLT | SLTU | XOR | SRL | SRA | OR | AND
               | MUL | MULH | MULHU | MULHSU | DIV | DIVU | REM | REMU.
Inductive iop := ADDI | SLTI | SLTIU | XORI | ORI | ANDI.
Inductive shop := SLLI | SRLI | SRAI.
Inductive lop := LB | LH | LW | LBU | LHU.
Inductive sop := SB | SH | SW.
Inductive bop := BEQ | BNE | BLT | BGE | BLTU | BGEU.
Inductive csrop := CSRRW | CSRRS | CSRRC.
Inductive csriop := CSRRWI | CSRRSI | CSRRCI.

Inductive instr :=
| IR (o : rop) (rd rs1 rs2 : Z)
| II (o : iop) (rd rs1 imm : Z)
| ISh (o : shop) (rd rs1 imm : Z)
| ILoad (o : lop) (rd rs1 imm : Z)
| IJalr (rd rs1 imm : Z)
| IEcall
| IEbreak
| IStore (o : sop) (rs1 rs2 imm : Z)
| IBranch (o : bop) (rs1 rs2 imm : Z)
| ILui (rd imm : Z)
| IAuipc (rd imm : Z)
| IJal (rd imm abs : Z)
| IFence
| ICsr (o : csrop) (rd csr rs1 : Z)
| ICsri (o : csriop) (rd csr uimm : Z).

(** constructor normalisation, exactly the formulas of the __init__ methods *)
Definition sext12 (imm : Z) : Z := Z.land imm 2047 - Z.land imm 2048.
Definition sext13 (imm : Z) : Z := Z.land imm 4095 - Z.land imm 4096.
Definition sext20 (imm : Z) : Z := Z.land imm (2 ^ 19 - 1) - Z.land imm (2 ^ 19).
Definition sext21 (imm : Z) : Z := Z.land imm (2 ^ 20 - 1) - Z.land imm (2 ^ 20).

Definition mk (i : instr) : instr :=
  match i with
  | II o rd rs1 imm => II o rd rs1 (sext12 imm)
  | ISh o rd rs1 imm => ISh o rd rs1 (Z.land imm 31)
  | ILoad o rd rs1 imm => ILoad o rd rs1 (sext12 imm)
  | IJalr rd rs1 imm => IJalr rd rs1 (sext12 imm)
  | IStore o rs1 rs2 imm => IStore o rs1 rs2 (sext12 imm)
  | IBranch o rs1 rs2 imm => IBranch o rs1 rs2 (sext13 imm)
  | ILui rd imm => ILui rd (sext20 imm)
  | IAuipc rd imm => IAuipc rd (sext20 imm)
  | IJal rd imm abs => IJal rd (sext21 imm) abs
  | ICsri o rd csr uimm => ICsri o rd csr (Z.land uimm 31)
  | _ => i
  end.

(** * Instruction memory (optionally behind an instruction cache) *)
Record icache := {
  ic : cache (option instr);
  ipenalty : Z; ihits : Z; iaccesses : Z; ilasthit : bool }.

Record imem := { prog : list instr; icc : option icache }.

Definition instr_at (p : list instr) (a : Z) : option instr :=
  (* the bound check comes first so that no large unary number is ever built *)
  if (0 <=? a) && (a mod 4 =? 0) && (a / 4 <? Z.of_nat (length p))
  then nth_error p (Z.to_nat (a / 4)) else None.
Definition has_instr (im : imem) (a : Z) : bool :=
  match instr_at (prog im) a with Some _ => true | None => false end.

Definition icache_init (c : ccfg) (pen : Z) : icache :=
  {| ic := cache_init c; ipenalty := pen; ihits := 0; iaccesses := 0; ilasthit := false |}.

Fixpoint iread_block (p : list instr) (a : Z) (n : nat) : list (option instr) :=
  match n with
  | O => []
  | S k => instr_at p a :: iread_block p (a + 4) k
  end.

(* read_instruction(address) -> (instruction or Empty, new memory system, cycle penalty) *)
Definition im_read (im : imem) (a : Z) : option instr * imem * Z :=
  match icc im with
  | None => (instr_at (prog im) a, im, 0)
  | Some c =>
      let da := cdecode (ic c) a in
      let '(blk, hit, c1) :=
        match cache_read_block (ic c) da with
        | (Some v, c') => (v, true, c')
        | (None, _) =>
            let v := iread_block (prog im) (da_balign da) (Z.to_nat (2 ^ bbits (cfg (ic c)))) in
            let '(_, _, c') := cache_write_block (ic c) da v in (v, false, c')
        end in
      let c2 := {| ic := c1; ipenalty := ipenalty c;
                   ihits := ihits c + (if hit then 1 else 0);
                   iaccesses := iaccesses c + 1; ilasthit := hit |} in
      (nthZ blk (da_boff da) None, {| prog := prog im; icc := Some c2 |},
       if hit then 0 else ipenalty c)
  end.

(* reset(): program dropped; the instruction cache is rebuilt and its counters zeroed *)
Definition im_reset (im : imem) : imem :=
  {| prog := [];
     icc := match icc im with
            | None => None
            | Some c => Some (icache_init (cfg (ic c)) (ipenalty c))
            end |}.

(** * Architectural state *)
Record st := {
  pc : Z; regs : zmap; ms : memsys; im : imem;
  out : str; exitc : option Z;
  icount : Z; bcount : Z; pcount : Z; cycles : Z; stalls : Z; flushes : Z }.

Definition with_pc (s : st) (v : Z) : st :=
  {| pc := v; regs := regs s; ms := ms s; im := im s; out := out s; exitc := exitc s;
     icount := icount s; bcount := bcount s; pcount := pcount s; cycles := cycles s;
     stalls := stalls s; flushes := flushes s |}.
Definition with_regs (s : st) (v : zmap) : st :=
  {| pc := pc s; regs := v; ms := ms s; im := im s; out := out s; exitc := exitc s;
     icount := icount s; bcount := bcount s; pcount := pcount s; cycles := cycles s;
     stalls := stalls s; flushes := flushes s |}.
Definition with_ms (s : st) (v : memsys) : st :=
  {| pc := pc s; regs := regs s; ms := v; im := im s; out := out s; exitc := exitc s;
     icount := icount s; bcount := bcount s; pcount := pcount s; cycles := cycles s;
     stalls := stalls s; flushes := flushes s |}.
Definition with_im (s : st) (v : imem) : st :=
  {| pc := pc s; regs := regs s; ms := ms s; im := v; out := out s; exitc := exitc s;
     icount := icount s; bcount := bcount s; pcount := pcount s; cycles := cycles s;
     stalls := stalls s; flushes := flushes s |}.
Definition with_out (s : st) (v : str) : st :=
  {| pc := pc s; regs := regs s; ms := ms s; im := im s; out := v; exitc := exitc s;
     icount := icount s; bcount := bcount s; pcount := pcount s; cycles := cycles s;
     stalls := stalls s; flushes := flushes s |}.
Definition with_exit (s : st) (v : option Z) : st :=
  {| pc := pc s; regs := regs s; ms := ms s; im := im s; out := out s; exitc := v;
     icount := icount s; bcount := bcount s; pcount := pcount s; cycles := cycles s;
     stalls := stalls s; flushes := flushes s |}.
Definition with_icount (s : st) (v : Z) : st :=
  {| pc := pc s; regs := regs s; ms := ms s; im := im s; out := out s; exitc := exitc s;
     icount := v; bcount := bcount s; pcount := pcount s; cycles := cycles s;
     stalls := stalls s; flushes := flushes s |}.
Definition with_bcount (s : st) (v : Z) : st :=
  {| pc := pc s; regs := regs s; ms := ms s; im := im s; out := out s; exitc := exitc s;
     icount := icount s; bcount := v; pcount := pcount s; cycles := cycles s;
     stalls := stalls s; flushes := flushes s |}.
Definition with_pcount (s : st) (v : Z) : st :=
  {| pc := pc s; regs := regs s; ms := ms s; im := im s; out := out s; exitc := exitc s;
     icount := icount s; bcount := bcount s; pcount := v; cycles := cycles s;
     stalls := stalls s; flushes := flushes s |}.
Definition with_cycles (s : st) (v : Z) : st :=
  {| pc := pc s; regs := regs s; ms := ms s; im := im s; out := out s; exitc := exitc s;
     icount := icount s; bcount := bcount s; pcount := pcount s; cycles := v;
     stalls := stalls s; flushes := flushes s |}.
Definition with_stalls (s : st) (v : Z) : st :=
  {| pc := pc s; regs := regs s; ms := ms s; im := im s; out := out s; exitc := exitc s;
     icount := icount s; bcount := bcount s; pcount := pcount s; cycles := cycles s;
     stalls := v; flushes := flushes s |}.
Definition with_flushes (s : st) (v : Z) : st :=
  {| pc := pc s; regs := regs s; ms := ms s; im := im s; out := out s; exitc := exitc s;
     icount := icount s; bcount := bcount s; pcount := pcount s; cycles := cycles s;
     stalls := stalls s; flushes := v |}.

Definition init_st (p : list instr) (m : memsys) (ic : option icache) : st :=
  {| pc := 0; regs := []; ms := m; im := {| prog := p; icc := ic |}; out := []; exitc := None;
     icount := 0; bcount := 0; pcount := 0; cycles := 0; stalls := 0; flushes := 0 |}.

(* Registers.__getitem__ / __setitem__ (x0 writes and out-of-range indices dropped) *)
Definition rget (s : st) (r : Z) : Z := mget (regs s) r.
Definition rset (s : st) (r v : Z) : st :=
  if (0 <? r) && (r <? 32) then with_regs s (mset (regs s) r v) else s.

(* memory access through the state's memory system; penalties go to the cycle counter *)
Definition st_read (s : st) (nbits a : Z) (counted : bool) : res Z * st :=
  let '(r, m', p) := ms_read (ms s) nbits a counted in
  (r, with_cycles (with_ms s m') (cycles s + p)).
Definition st_write (s : st) (nbits a v : Z) (direct : bool) : option err * st :=
  let '(e, m', p) := ms_write (ms s) nbits a v direct in
  (e, with_cycles (with_ms s m') (cycles s + p)).

(** * behavior() *)
Definition b2z (b : bool) : Z := if b then 1 else 0.

Definition r_behavior (o : rop) (a b : Z) : Z :=
  match o with
  | ADD => U32 (a + b)
  | SUB => U32 (a - b)
  | SLL => U32 (Z.shiftl a (U32 (b mod 32)))
  | SLT => b2z (I32 a <? I32 b)
  | SLTU => b2z (a <? b)
  | XOR => U32 (Z.lxor a b)
  | SRL => U32 (Z.shiftr a (U32 (b mod 32)))
  | SRA => U32 (I32 (Z.shiftr (I32 a) (I32 (U32 (b mod 32)))))
  | OR => U32 (Z.lor a b)
  | AND => U32 (Z.land a b)
  | MUL => U32 (a * b)
  | MULH => U32 (Z.shiftr (I32 a * I32 b) 32)
  | MULHU => U32 (Z.shiftr (a * b) 32)
  | MULHSU => U32 (Z.shiftr (I32 a * b) 32)
  | DIV => if b =? 0 then U32 (-1) else U32 (pyfdiv (I32 a) (I32 b))
  | DIVU => if b =? 0 then U32 (-1) else U32 (a / b)
  | REM => if b =? 0 then a
           else let n := I32 a in let d := I32 b in U32 (n - pyfdiv n d * d)
  | REMU => if b =? 0 then a else U32 (a mod b)
  end.

Definition i_behavior (o : iop) (a imm : Z) : Z :=
  match o with
  | ADDI => U32 (a + U32 imm)
  | SLTI => b2z (I32 a <? I32 imm)
  | SLTIU => b2z (a <? U32 imm)
  | XORI => U32 (Z.lxor a (U32 imm))
  | ORI => U32 (Z.lor a (U32 imm))
  | ANDI => U32 (Z.land a (U32 imm))
  end.

Definition sh_behavior (o : shop) (a imm : Z) : Z :=
  match o with
  | SLLI => U32 (Z.shiftl a (U32 imm))
  | SRLI => U32 (Z.shiftr a (U32 imm))
  | SRAI => U32 (I32 (Z.shiftr (I32 a) (U16 imm)))
  end.

Definition load_bits (o : lop) : Z :=
  match o with LB | LBU => 8 | LH | LHU => 16 | LW => 32 end.
Definition load_ext (o : lop) (v : Z) : Z :=
  match o with
  | LB => U32 (I8 v)
  | LH => U32 (I16 v)
  | LW => v
  | LBU => U32 v
  | LHU => U32 v
  end.
Definition store_bits (o : sop) : Z := match o with SB => 8 | SH => 16 | SW => 32 end.

Definition b_cond (o : bop) (a b : Z) : bool :=
  match o with
  | BEQ => a =? b
  | BNE => negb (a =? b)
  | BLT => I32 a <? I32 b
  | BGE => I32 a >=? I32 b
  | BLTU => a <? b
  | BGEU => a >=? b
  end.

(* ecall 4: read bytes (uncounted) until a zero byte *)
Fixpoint read_cstring (fuel : nat) (s : st) (a : Z) (acc : str) : res str * st :=
  match fuel with
  | O => (Err (EOther 4), s)
  | S f =>
      match st_read s 8 a false with
      | (Err e, s') => (Err e, s')
      | (Ok b, s') => if b =? 0 then (Ok acc, s') else read_cstring f s' (a + 1) (acc ++ [b mod 128])
      end
  end.

(* number of bytes a C-string scan can visit before it must meet a zero or a fault *)
Definition cstring_fuel (s : st) : nat :=
  match ms s with
  | MFlat m => S (length m)
  | MCache d =>
      S (length (lower d) +
         4 * Z.to_nat (2 ^ ibits (cfg (dc d)) * assoc (cfg (dc d)) * 2 ^ bbits (cfg (dc d)) + 1))
  end.

(* result of process_ecall *)
Inductive ecall_result := EPrint (t : str) | EExit (c : Z).

(* the float of ecall 2 is an oracle: the model prints the marker [-1; arg] *)
Definition process_ecall (s : st) : res ecall_result * st :=
  let code := rget s 17 in
  let arg := rget s 10 in
  if code =? 1 then (Ok (EPrint (str_dec (I32 arg))), s)
  else if code =? 2 then (Ok (EPrint [-1; arg]), s)
  else if code =? 4 then
    match read_cstring (cstring_fuel s) s arg [] with
    | (Ok t, s') => (Ok (EPrint t), s')
    | (Err e, s') => (Err e, s')
    end
  else if code =? 11 then (Ok (EPrint [arg mod 128]), s)
  else if code =? 34 then (Ok (EPrint (48 :: 120 :: fmt_nat 16 arg)), s)
  else if code =? 35 then (Ok (EPrint (48 :: 98 :: fmt_nat 2 arg)), s)
  else if code =? 36 then (Ok (EPrint (str_dec arg)), s)
  else if code =? 10 then (Ok (EExit 0), s)
  else if code =? 93 then (Ok (EExit arg), s)
  else (Err (EEcall code), s).

(* behavior(state): new state and the exception raised, if any (the state may already
   have been modified when the exception is raised) *)
Definition behavior (i : instr) (s : st) : st * option err :=
  match i with
  | IR o rd rs1 rs2 => (rset s rd (r_behavior o (rget s rs1) (rget s rs2)), None)
  | II o rd rs1 imm => (rset s rd (i_behavior o (rget s rs1) imm), None)
  | ISh o rd rs1 imm => (rset s rd (sh_behavior o (rget s rs1) imm), None)
  | ILoad o rd rs1 imm =>
      match st_read s (load_bits o) (rget s rs1 + imm) true with
      | (Ok v, s') => (rset s' rd (load_ext o v), None)
      | (Err e, s') => (s', Some e)
      end
  | IJalr rd rs1 imm =>
      let r1 := I32 (rget s rs1) in
      let s1 := rset s rd (U32 (pc s + 4)) in
      (with_pc s1 (Z.land (I32 (r1 + I16 imm)) (2 ^ 32 - 2) - 4), None)
  | IEcall =>
      match process_ecall s with
      | (Ok (EPrint t), s') => (with_out s' (out s' ++ t), None)
      | (Ok (EExit c), s') => (with_exit s' (Some c), None)
      | (Err e, s') => (s', Some e)
      end
  | IStore o rs1 rs2 imm =>
      let v := U (store_bits o) (rget s rs2) in
      let a := U32 (rget s rs1 + U32 imm) in
      match st_write s (store_bits o) a v false with
      | (None, s') => (s', None)
      | (Some e, s') => (s', Some e)
      end
  | IBranch o rs1 rs2 imm =>
      if b_cond o (rget s rs1) (rget s rs2)
      then (with_bcount (with_pc s (pc s + (imm - 4))) (bcount s + 1), None)
      else (s, None)
  | ILui rd imm => (rset s rd (U32 (Z.shiftl imm 12)), None)
  | IAuipc rd imm => (rset s rd (U32 (pc s + Z.shiftl imm 12)), None)
  | IJal rd imm _ =>
      let s1 := rset s rd (U32 (pc s + 4)) in
      (with_pcount (with_pc s1 (pc s1 + (imm - 4))) (pcount s1 + 1), None)
  | IEbreak | IFence => (s, Some ENotImpl)
  | ICsr _ _ _ _ | ICsri _ _ _ _ => (s, Some (EOther 99))   (* out of scope *)
  end.
