(* Single.v — SingleStage.behavior, the one-stage Pipeline.step, RiscvSimulation.step/run
   for single-cycle mode.  Model only. *)
From ArchSim Require Import Model.Base Model.Mem Model.Cache Model.Fmt Model.RV.
Open Scope Z_scope.

(* a run-time failure as reported by InstructionExecutionException *)
Record fault := { f_addr : Z; f_instr : instr; f_err : err }.

Definition is_load (i : instr) : bool := match i with ILoad _ _ _ _ => true | _ => false end.

(* address the visual pre-pass computes for a load: alu_compute(int(UInt32(rs1)) + imm)
   evaluated on the pre-state *)
Definition load_addr_pre (i : instr) (s : st) : Z :=
  match i with ILoad _ _ rs1 imm => U32 (rget s rs1) + imm | _ => 0 end.

(* fetch through the instruction memory system *)
Definition fetch (s : st) (a : Z) : option instr * st :=
  let '(oi, im', p) := im_read (im s) a in
  (oi, with_cycles (with_im s im') (cycles s + p)).

(* SingleStage.behavior: returns the new state and the fault, if any *)
Definition single_stage (s : st) : st * option fault :=
  if has_instr (im s) (pc s) then
    let s0 := with_icount s (icount s + 1) in
    let a := pc s0 in
    match fetch s0 a with
    | (None, s1) => (s1, None)          (* unreachable: guarded by has_instr *)
    | (Some i, s1) =>
        let la := load_addr_pre i s1 in
        match behavior i s1 with
        | (s2, Some e) => (s2, Some {| f_addr := a; f_instr := i; f_err := e |})
        | (s2, None) =>
            (* loads: one uncounted re-read for the display *)
            let '(s3, oe) :=
              match i with
              | ILoad o _ _ _ =>
                  match st_read s2 (load_bits o) la false with
                  | (Ok _, s') => (s', None)
                  | (Err e, s') => (s', Some e)
                  end
              | _ => (s2, None)
              end in
            match oe with
            | Some e => (s3, Some {| f_addr := a; f_instr := i; f_err := e |})
            | None => (with_pc s3 (pc s3 + 4), None)
            end
        end
    end
  else (s, None).

(* Pipeline.step for the one-stage pipeline *)
Definition single_pipeline_step (s : st) : st * option fault :=
  single_stage (with_cycles s (cycles s + 1)).

(* Pipeline.is_done: the single-stage pipeline has no registers but the last one *)
Definition single_done (s : st) : bool :=
  match exitc s with Some _ => true | None => negb (has_instr (im s) (pc s)) end.

(* RiscvSimulation.step: (continue?, state, fault) *)
Definition single_sim_step (s : st) : bool * st * option fault :=
  if single_done s then (false, s, None)
  else
    let '(s', f) := single_pipeline_step s in
    match f with
    | Some _ => (false, s', f)      (* exception propagates; no return value *)
    | None => (negb (single_done s'), s', None)
    end.

(* run(): iterate step until done, a fault, or fuel exhaustion *)
Inductive run_end := Done | Faulted (f : fault) | OutOfFuel.

Fixpoint single_run (fuel : nat) (s : st) : st * run_end :=
  match fuel with
  | O => (s, if single_done s then Done else OutOfFuel)
  | S k =>
      if single_done s then (s, Done)
      else
        match single_pipeline_step s with
        | (s', Some f) => (s', Faulted f)
        | (s', None) => single_run k s'
        end
  end.
