(* Pipe.v — the five-stage pipeline: pipeline.py (stall / flush bookkeeping, execution order),
   stages.py (IF, ID, EX, MEM, WB), pipeline_registers.py.  Model only; a transliteration of
   Pipeline.step so that behaviour (architectural state, latches, counters, faults) is exact.
   A latch is [option slot]: [None] stands for every register that carries an EmptyInstruction
   (base PipelineRegister() bubbles and typed registers with default fields behave identically).
   Fields that exist only for the SVG (ALU input echoes, control-signal record) are not carried. *)
From ArchSim Require Import Model.Base Model.Mem Model.Cache Model.Fmt Model.RV Model.Single Model.RVSplit.
Open Scope Z_scope.

Record slot := {
  sl_instr : instr; sl_addr : Z;
  sl_ra1 : option Z; sl_ra2 : option Z; sl_rd1 : option Z; sl_rd2 : option Z;
  sl_imm : option Z; sl_wreg : option Z;
  sl_result : option Z; sl_cmp : option bool; sl_pcimm : option Z; sl_exit : option Z;
  sl_memdata : option Z; sl_wdata : option Z;
  sl_flush : option Z;            (* flush_signal.address (always non-inclusive) *)
  sl_stall : bool;                (* stall_signal present (duration is always 2) *)
  sl_saved : bool }.              (* is_of_stalled_value *)

Definition latch := option slot.

Definition slot_if (i : instr) (a : Z) : slot :=
  {| sl_instr := i; sl_addr := a; sl_ra1 := None; sl_ra2 := None; sl_rd1 := None; sl_rd2 := None;
     sl_imm := None; sl_wreg := None; sl_result := None; sl_cmp := None; sl_pcimm := None;
     sl_exit := None; sl_memdata := None; sl_wdata := None; sl_flush := None; sl_stall := false;
     sl_saved := false |}.

Definition mark_saved (l : latch) : latch :=
  match l with
  | None => None
  | Some x =>
      Some {| sl_instr := sl_instr x; sl_addr := sl_addr x; sl_ra1 := sl_ra1 x; sl_ra2 := sl_ra2 x;
              sl_rd1 := sl_rd1 x; sl_rd2 := sl_rd2 x; sl_imm := sl_imm x; sl_wreg := sl_wreg x;
              sl_result := sl_result x; sl_cmp := sl_cmp x; sl_pcimm := sl_pcimm x;
              sl_exit := sl_exit x; sl_memdata := sl_memdata x; sl_wdata := sl_wdata x;
              sl_flush := sl_flush x; sl_stall := sl_stall x; sl_saved := true |}
  end.

Record pstate := {
  pst : st;
  lat : list latch;                       (* [IF; ID; EX; MEM; WB] *)
  stalled : option (Z * Z);               (* (index of stalling stage, remaining duration) *)
  saved : option (list latch);            (* preserved inputs of the stalled stages *)
  hazards : bool }.                       (* detect_data_hazards *)

Definition pipe_init (s : st) (hz : bool) : pstate :=
  {| pst := s; lat := [None; None; None; None; None]; stalled := None; saved := None; hazards := hz |}.

Definition lat_at (l : list latch) (i : Z) : latch := nthZ l i None.

Definition latch_wreg (l : latch) : option Z :=
  match l with Some x => write_reg (sl_instr x) | None => None end.

Definition opt_eqb (a : option Z) (r : Z) : bool :=
  match a with Some x => x =? r | None => false end.

(** * Stages.  Each returns the new latch, the new architectural state and a possible exception. *)

(* InstructionFetchStage *)
Definition stage_if (s : st) : latch * st :=
  if has_instr (im s) (pc s) then
    let a := pc s in
    match fetch s a with
    | (Some i, s1) => (Some (slot_if i a), with_pc s1 (pc s1 + 4))
    | (None, s1) => (None, s1)
    end
  else (None, s).

(* InstructionDecodeStage: regs = pipeline_registers (with the temporary swaps), own = 0 *)
Definition stage_id (hz : bool) (regs : list latch) (own : Z) (s : st) : latch :=
  match lat_at regs own with
  | None => None
  | Some x =>
      let '(ra1, ra2, rd1, rd2, imm) := access_rf (sl_instr x) s in
      let hazard_with (w : option Z) : bool :=
        match w with
        | None => false
        | Some r => if r =? 0 then false else opt_eqb ra1 r || opt_eqb ra2 r
        end in
      let st_sig := hz && (hazard_with (latch_wreg (lat_at regs (own + 1)))
                           || hazard_with (latch_wreg (lat_at regs (own + 2)))) in
      Some {| sl_instr := sl_instr x; sl_addr := sl_addr x; sl_ra1 := ra1; sl_ra2 := ra2;
              sl_rd1 := rd1; sl_rd2 := rd2; sl_imm := imm; sl_wreg := write_reg (sl_instr x);
              sl_result := None; sl_cmp := None; sl_pcimm := None; sl_exit := None;
              sl_memdata := None; sl_wdata := None; sl_flush := None; sl_stall := st_sig;
              sl_saved := false |}
  end.

Definition is_ecall (i : instr) : bool := match i with IEcall => true | _ => false end.
Definition is_btype (i : instr) : bool := match i with IBranch _ _ _ _ => true | _ => false end.
Definition is_jal (i : instr) : bool := match i with IJal _ _ _ => true | _ => false end.
Definition nonempty (l : latch) : bool := match l with Some _ => true | None => false end.

(* ExecuteStage, own = 1 *)
Definition stage_ex (regs : list latch) (own : Z) (s : st) : latch * st * option err :=
  match lat_at regs own with
  | None => (None, s, None)
  | Some x =>
      let cs := signals (sl_instr x) in
      let in1 := match c_src1 cs with
                 | None => None
                 | Some true => sl_rd1 x
                 | Some false => Some (sl_addr x)
                 end in
      let in2 := if c_src2 cs then sl_imm x else sl_rd2 x in
      match alu_compute (sl_instr x) in1 in2 with
      | Err e => (None, s, Some e)
      | Ok (cmp, result) =>
          let pcimm := match sl_imm x with Some m => Some (m + sl_addr x) | None => None end in
          let mk (s' : st) (stall : bool) (ex : option Z) (fl : option Z) : latch :=
            Some {| sl_instr := sl_instr x; sl_addr := sl_addr x; sl_ra1 := sl_ra1 x; sl_ra2 := sl_ra2 x;
                    sl_rd1 := sl_rd1 x; sl_rd2 := sl_rd2 x; sl_imm := sl_imm x; sl_wreg := sl_wreg x;
                    sl_result := result; sl_cmp := cmp; sl_pcimm := pcimm; sl_exit := ex;
                    sl_memdata := None; sl_wdata := None; sl_flush := fl; sl_stall := stall;
                    sl_saved := false |} in
          if is_ecall (sl_instr x) then
            (* pipeline_registers[own + 1 + int(is_of_stalled_value) : -1] *)
            let first := own + 1 + (if sl_saved x then 1 else 0) in
            let busy := (if first <=? 2 then nonempty (lat_at regs 2) else false)
                        || (if first <=? 3 then nonempty (lat_at regs 3) else false) in
            if busy then (mk s true None None, s, None)
            else
              match process_ecall s with
              | (Ok (EPrint t), s') => (mk s' false None None, with_out s' (out s' ++ t), None)
              | (Ok (EExit c), s') => (mk s' false (Some c) (Some (sl_addr x + 4)), s', None)
              | (Err e, s') => (None, s', Some e)
              end
          else (mk s false None None, s, None)
      end
  end.

(* MemoryAccessStage, own = 2 *)
Definition stage_mem (regs : list latch) (own : Z) (s : st) : latch * st * option err :=
  match lat_at regs own with
  | None => (None, s, None)
  | Some x =>
      match memory_access (sl_instr x) (sl_result x) (sl_rd2 x) s with
      | (Err e, s') => (None, s', Some e)
      | (Ok rdata, s') =>
          let cs := signals (sl_instr x) in
          let cmp := match sl_cmp x with Some true => true | _ => false end in
          let coj := c_jump cs || cmp in
          (* branch_prediction is always False *)
          let wrong := c_branch cs && coj in
          let fl :=
            if wrong || c_jump cs then sl_pcimm x
            else if c_alu_to_pc cs then sl_result x
            else match sl_exit x with Some _ => Some (sl_addr x + 4) | None => None end in
          let s'' :=
            match fl with
            | None => s'
            | Some _ =>
                if is_btype (sl_instr x) then with_bcount s' (bcount s' + 1)
                else if is_jal (sl_instr x) then with_pcount s' (pcount s' + 1)
                else s'
            end in
          (Some {| sl_instr := sl_instr x; sl_addr := sl_addr x; sl_ra1 := sl_ra1 x; sl_ra2 := sl_ra2 x;
                   sl_rd1 := sl_rd1 x; sl_rd2 := sl_rd2 x; sl_imm := sl_imm x; sl_wreg := sl_wreg x;
                   sl_result := sl_result x; sl_cmp := sl_cmp x; sl_pcimm := sl_pcimm x;
                   sl_exit := sl_exit x; sl_memdata := rdata; sl_wdata := None; sl_flush := fl;
                   sl_stall := false; sl_saved := false |}, s'', None)
      end
  end.

(* RegisterWritebackStage, own = 3 *)
Definition stage_wb (regs : list latch) (own : Z) (s : st) : latch * st * option err :=
  match lat_at regs own with
  | None => (None, s, None)
  | Some x =>
      let s1 := with_icount s (icount s + 1) in
      let data :=
        match c_wb (signals (sl_instr x)) with
        | Some 0 => Some (sl_addr x + 4)
        | Some 1 => sl_memdata x
        | Some 2 => sl_result x
        | Some 3 => sl_imm x
        | _ => None
        end in
      match write_back (sl_instr x) (sl_wreg x) data s1 with
      | (s2, Some e) => (None, s2, Some e)
      | (s2, None) =>
          let '(fl, s3) := match sl_exit x with
                           | Some c => (Some (sl_addr x + 4), with_exit s2 (Some c))
                           | None => (None, s2)
                           end in
          (Some {| sl_instr := sl_instr x; sl_addr := sl_addr x; sl_ra1 := sl_ra1 x; sl_ra2 := sl_ra2 x;
                   sl_rd1 := sl_rd1 x; sl_rd2 := sl_rd2 x; sl_imm := sl_imm x; sl_wreg := sl_wreg x;
                   sl_result := sl_result x; sl_cmp := sl_cmp x; sl_pcimm := sl_pcimm x;
                   sl_exit := sl_exit x; sl_memdata := sl_memdata x; sl_wdata := data; sl_flush := fl;
                   sl_stall := false; sl_saved := false |}, s3, None)
      end
  end.

(** * Pipeline.step *)

(* the view of pipeline_registers a stage gets while the pipeline is stalled *)
Definition regs_for (p : pstate) (index : Z) : list latch :=
  match stalled p with
  | None => lat p
  | Some (k, _) =>
      if index =? k + 1 then set_nthZ (lat p) k None
      else if index <=? k then
        set_nthZ (lat p) (index - 1)
          (lat_at (match saved p with Some l => l | None => [] end) (index - 1))
      else lat p
  end.

Definition fault_of (regs : list latch) (own : Z) (e : err) : option fault :=
  match lat_at regs own with
  | Some x => Some {| f_addr := sl_addr x; f_instr := sl_instr x; f_err := e |}
  | None => Some {| f_addr := -1; f_instr := IFence; f_err := e |}     (* unreachable *)
  end.

(* the five stages in execution order IF, WB, ID, EX, MEM; stops at the first exception *)
Definition run_stages (p : pstate) : list latch * st * option fault :=
  let s0 := pst p in
  (* IF *)
  let '(n0, s1) := match stalled p with
                   | Some _ => (lat_at (lat p) 0, s0)
                   | None => stage_if s0
                   end in
  (* WB *)
  let r4 := regs_for p 4 in
  match stage_wb r4 3 s1 with
  | (_, s2, Some e) => ([n0; None; None; None; None], s2, fault_of r4 3 e)
  | (n4, s2, None) =>
      (* ID *)
      let n1 := stage_id (hazards p) (regs_for p 1) 0 s2 in
      (* EX *)
      let r2 := regs_for p 2 in
      match stage_ex r2 1 s2 with
      | (_, s3, Some e) => ([n0; n1; None; None; n4], s3, fault_of r2 1 e)
      | (n2, s3, None) =>
          (* MEM *)
          let r3 := regs_for p 3 in
          match stage_mem r3 2 s3 with
          | (_, s4, Some e) => ([n0; n1; n2; None; n4], s4, fault_of r3 2 e)
          | (n3, s4, None) => ([n0; n1; n2; n3; n4], s4, None)
          end
      end
  end.

Definition has_stall (l : latch) : bool := match l with Some x => sl_stall x | None => false end.
Definition flush_of (l : latch) : option Z := match l with Some x => sl_flush x | None => None end.

(* highest-index new stall signal that counts *)
Definition new_stall (next : list latch) (cur : option (Z * Z)) : option Z :=
  let ok (i : Z) := has_stall (lat_at next i) &&
                    match cur with None => true | Some (k, _) => k <? i end in
  if ok 4 then Some 4 else if ok 3 then Some 3 else if ok 2 then Some 2
  else if ok 1 then Some 1 else if ok 0 then Some 0 else None.

Definition first_flush (l : list latch) : option (Z * Z) :=
  let f (i : Z) := match flush_of (lat_at l i) with Some a => Some (i, a) | None => None end in
  match f 4 with Some r => Some r | None =>
  match f 3 with Some r => Some r | None =>
  match f 2 with Some r => Some r | None =>
  match f 1 with Some r => Some r | None => f 0 end end end end.

Fixpoint clear_prefix (l : list latch) (n : nat) : list latch :=
  match n, l with
  | O, _ => l
  | S k, _ :: t => None :: clear_prefix t k
  | S _, [] => []
  end.

Definition pipe_step (p : pstate) : pstate * option fault :=
  let p0 := {| pst := with_cycles (pst p) (cycles (pst p) + 1); lat := lat p; stalled := stalled p;
               saved := saved p; hazards := hazards p |} in
  match run_stages p0 with
  | (next, s, Some f) =>
      ({| pst := s; lat := lat p0; stalled := stalled p0; saved := saved p0; hazards := hazards p0 |}, Some f)
  | (next, s, None) =>
      (* stall signals *)
      let '(stl, s1) :=
        match new_stall next (stalled p0) with
        | Some i => (Some (i, 3), with_stalls s (stalls s + 1))
        | None => (stalled p0, s)
        end in
      let sv := match stl, saved p0 with
                | Some (k, _), None => Some (map mark_saved (firstn (Z.to_nat k) (lat p0)))
                | _, sv0 => sv0
                end in
      (* done stalling? *)
      let '(stl2, sv2) :=
        match stl with
        | None => (None, sv)
        | Some (k, d) => if d - 1 =? 0 then (None, None) else (Some (k, d - 1), sv)
        end in
      (* flush *)
      match first_flush next with
      | None => ({| pst := s1; lat := next; stalled := stl2; saved := sv2; hazards := hazards p0 |}, None)
      | Some (i, a) =>
          let s2 := with_pc (with_flushes s1 (flushes s1 + 1)) a in
          let '(stl3, sv3) := match stl2 with
                              | Some (k, _) => if k <? i then (None, None) else (stl2, sv2)
                              | None => (stl2, sv2)
                              end in
          ({| pst := s2; lat := clear_prefix next (Z.to_nat i); stalled := stl3; saved := sv3;
              hazards := hazards p0 |}, None)
      end
  end.

(* Pipeline.is_done *)
Definition pipe_empty (p : pstate) : bool :=
  negb (nonempty (lat_at (lat p) 0) || nonempty (lat_at (lat p) 1) ||
        nonempty (lat_at (lat p) 2) || nonempty (lat_at (lat p) 3)).
Definition pipe_done (p : pstate) : bool :=
  match exitc (pst p) with
  | Some _ => true
  | None => pipe_empty p && negb (has_instr (im (pst p)) (pc (pst p)))
  end.

(* RiscvSimulation.step *)
Definition pipe_sim_step (p : pstate) : bool * pstate * option fault :=
  if pipe_done p then (false, p, None)
  else match pipe_step p with
       | (p', Some f) => (false, p', Some f)
       | (p', None) => (negb (pipe_done p'), p', None)
       end.

Inductive prun_end := PDone | PFaulted (f : fault) | POutOfFuel.

Fixpoint pipe_run (fuel : nat) (p : pstate) : pstate * prun_end :=
  match fuel with
  | O => (p, if pipe_done p then PDone else POutOfFuel)
  | S k =>
      if pipe_done p then (p, PDone)
      else match pipe_step p with
           | (p', Some f) => (p', PFaulted f)
           | (p', None) => pipe_run k p'
           end
  end.
