(* Base.v — word arithmetic as used by fixedint, association-list maps, result type.
   Model only: no proofs here (they live in Proofs/). *)
From Coq Require Export ZArith List Bool.
Export ListNotations.
Open Scope Z_scope.

(** * fixedint rectification *)
(* UIntN(v)  = v & (2^n - 1)            — modelled as v mod 2^n
   IntN(v)   = (v & (2^(n-1)-1)) - (v & 2^(n-1))  — modelled as the two's-complement value *)
Definition U (n z : Z) : Z := z mod 2 ^ n.
Definition I (n z : Z) : Z :=
  let u := z mod 2 ^ n in if u <? 2 ^ (n - 1) then u else u - 2 ^ n.

Definition U8 := U 8.   Definition U16 := U 16.  Definition U32 := U 32.
Definition I8 := I 8.   Definition I16 := I 16.  Definition I32 := I 32.
Definition U12 := U 12.

(** Python's [int(a / b)] (float division then truncation) on 32-bit operands is
    truncating division; see trusted base T5. *)
Definition pyfdiv (a b : Z) : Z := Z.quot a b.

(** * Association-list maps Z -> Z mirroring a Python dict (insertion ordered) *)
Definition zmap := list (Z * Z).

Fixpoint mget_opt (m : zmap) (k : Z) : option Z :=
  match m with
  | [] => None
  | (k', v) :: t => if k' =? k then Some v else mget_opt t k
  end.

Definition mget (m : zmap) (k : Z) : Z :=
  match mget_opt m k with Some v => v | None => 0 end.

Fixpoint mset (m : zmap) (k v : Z) : zmap :=
  match m with
  | [] => [(k, v)]
  | (k', v') :: t => if k' =? k then (k, v) :: t else (k', v') :: mset t k v
  end.

Definition mkeys (m : zmap) : list Z := map fst m.

(** insertion sort on keys, for canonical observations *)
Fixpoint zinsert (x : Z) (l : list Z) : list Z :=
  match l with
  | [] => [x]
  | y :: t => if x <=? y then x :: l else y :: zinsert x t
  end.
Definition zsort (l : list Z) : list Z := fold_right zinsert [] l.

Fixpoint pinsert (x : Z * Z) (l : list (Z * Z)) : list (Z * Z) :=
  match l with
  | [] => [x]
  | y :: t => if fst x <=? fst y then x :: l else y :: pinsert x t
  end.
Definition psort (l : list (Z * Z)) : list (Z * Z) := fold_right pinsert [] l.

(** * Errors raised inside the simulator (payloads the properties name) *)
Inductive err :=
| EAddr (a lo hi : Z) (imem : bool)   (* MemoryAddressError(address, min, max, kind) *)
| EOffset (off mx : Z)                (* ByteOffsetError(offset, max) *)
| EEcall (code : Z)                   (* ValueError: invalid ecall code *)
| ENotImpl                            (* InstructionNotImplemented *)
| EOther (k : Z).                     (* anything else (never expected) *)

Inductive res (A : Type) :=
| Ok (a : A)
| Err (e : err).
Arguments Ok {A} a.
Arguments Err {A} e.

Definition bind {A B} (r : res A) (f : A -> res B) : res B :=
  match r with Ok a => f a | Err e => Err e end.

(** generic list helpers *)
Fixpoint zrange_from (start : Z) (n : nat) : list Z :=
  match n with O => [] | S k => start :: zrange_from (start + 1) k end.

Definition nthZ {A} (l : list A) (i : Z) (d : A) : A := nth (Z.to_nat i) l d.

Fixpoint set_nth {A} (l : list A) (i : nat) (x : A) : list A :=
  match l, i with
  | [], _ => []
  | _ :: t, O => x :: t
  | h :: t, S k => h :: set_nth t k x
  end.
Definition set_nthZ {A} (l : list A) (i : Z) (x : A) : list A := set_nth l (Z.to_nat i) x.
