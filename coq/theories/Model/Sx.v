(* Sx.v — the tiny data format spoken between the harness and the extracted model:
   integers and nested lists.  Encoders/decoders for the model's types live here so that
   the OCaml driver stays a generic 40-line reader/printer. *)
From ArchSim Require Import Model.Base Model.Mem Model.Cache Model.Fmt Model.RV Model.Single.
Open Scope Z_scope.

Inductive sx := Zx (z : Z) | Lx (l : list sx).

Definition sx_bool (b : bool) : sx := Zx (if b then 1 else 0).
Definition sx_list {A} (f : A -> sx) (l : list A) : sx := Lx (map f l).
Definition sx_zs (l : list Z) : sx := Lx (map Zx l).
Definition sx_opt {A} (f : A -> sx) (o : option A) : sx :=
  match o with None => Lx [] | Some a => Lx [f a] end.
Definition sx_pair (p : Z * Z) : sx := Lx [Zx (fst p); Zx (snd p)].
Definition sx_zmap_sorted (m : zmap) : sx := sx_list sx_pair (psort m).

(* decoders: total, with defaults; the harness only sends well-formed requests *)
Definition dz (s : sx) : Z := match s with Zx z => z | Lx _ => 0 end.
Definition dl (s : sx) : list sx := match s with Zx _ => [] | Lx l => l end.
Definition dbool (s : sx) : bool := negb (dz s =? 0).
Definition dnth (s : sx) (i : nat) : sx := nth i (dl s) (Lx []).
Definition dzs (s : sx) : list Z := map dz (dl s).
Definition dpairs (s : sx) : list (Z * Z) := map (fun p => (dz (dnth p 0), dz (dnth p 1))) (dl s).
Definition dopt {A} (f : sx -> A) (s : sx) : option A :=
  match dl s with [] => None | x :: _ => Some (f x) end.

(** instruction numbering shared with harness/common.py (MNEMONICS) *)
Definition rop_of (n : Z) : rop :=
  match n with
  | 0 => ADD | 1 => SUB | 2 => SLL | 3 => SLT | 4 => SLTU | 5 => XOR | 6 => SRL | 7 => SRA
  | 8 => OR | 9 => AND | 10 => MUL | 11 => MULH | 12 => MULHU | 13 => MULHSU | 14 => DIV
  | 15 => DIVU | 16 => REM | _ => REMU
  end.
Definition rop_no (o : rop) : Z :=
  match o with
  | ADD => 0 | SUB => 1 | SLL => 2 | SLT => 3 | SLTU => 4 | XOR => 5 | SRL => 6 | SRA => 7
  | OR => 8 | AND => 9 | MUL => 10 | MULH => 11 | MULHU => 12 | MULHSU => 13 | DIV => 14
  | DIVU => 15 | REM => 16 | REMU => 17
  end.
Definition iop_of (n : Z) : iop :=
  match n with 18 => ADDI | 19 => SLTI | 20 => SLTIU | 21 => XORI | 22 => ORI | _ => ANDI end.
Definition iop_no (o : iop) : Z :=
  match o with ADDI => 18 | SLTI => 19 | SLTIU => 20 | XORI => 21 | ORI => 22 | ANDI => 23 end.
Definition shop_of (n : Z) : shop := match n with 24 => SLLI | 25 => SRLI | _ => SRAI end.
Definition shop_no (o : shop) : Z := match o with SLLI => 24 | SRLI => 25 | SRAI => 26 end.
Definition lop_of (n : Z) : lop :=
  match n with 27 => LB | 28 => LH | 29 => LW | 30 => LBU | _ => LHU end.
Definition lop_no (o : lop) : Z :=
  match o with LB => 27 | LH => 28 | LW => 29 | LBU => 30 | LHU => 31 end.
Definition sop_of (n : Z) : sop := match n with 34 => SB | 35 => SH | _ => SW end.
Definition sop_no (o : sop) : Z := match o with SB => 34 | SH => 35 | SW => 36 end.
Definition bop_of (n : Z) : bop :=
  match n with 37 => BEQ | 38 => BNE | 39 => BLT | 40 => BGE | 41 => BLTU | _ => BGEU end.
Definition bop_no (o : bop) : Z :=
  match o with BEQ => 37 | BNE => 38 | BLT => 39 | BGE => 40 | BLTU => 41 | BGEU => 42 end.
Definition csrop_of (n : Z) : csrop := match n with 48 => CSRRW | 49 => CSRRS | _ => CSRRC end.
Definition csrop_no (o : csrop) : Z := match o with CSRRW => 48 | CSRRS => 49 | CSRRC => 50 end.
Definition csriop_of (n : Z) : csriop := match n with 51 => CSRRWI | 52 => CSRRSI | _ => CSRRCI end.
Definition csriop_no (o : csriop) : Z := match o with CSRRWI => 51 | CSRRSI => 52 | CSRRCI => 53 end.

(* raw constructor arguments (mnemonic-number a b c); normalised by [mk] like __init__ *)
Definition dinstr_raw (s : sx) : instr :=
  let n := dz (dnth s 0) in
  let a := dz (dnth s 1) in let b := dz (dnth s 2) in let c := dz (dnth s 3) in
  if n <=? 17 then IR (rop_of n) a b c
  else if n <=? 23 then II (iop_of n) a b c
  else if n <=? 26 then ISh (shop_of n) a b c
  else if n <=? 31 then ILoad (lop_of n) a b c
  else if n =? 32 then IJalr a b c
  else if n =? 33 then IEcall
  else if n <=? 36 then IStore (sop_of n) a b c
  else if n <=? 42 then IBranch (bop_of n) a b c
  else if n =? 43 then ILui a b
  else if n =? 44 then IAuipc a b
  else if n =? 45 then IJal a b c
  else if n =? 46 then IEbreak
  else if n =? 47 then IFence
  else if n <=? 50 then ICsr (csrop_of n) a b c
  else ICsri (csriop_of n) a b c.
Definition dinstr (s : sx) : instr := mk (dinstr_raw s).

(* stored fields of an instruction object *)
Definition sx_instr (i : instr) : sx :=
  match i with
  | IR o a b c => sx_zs [rop_no o; a; b; c]
  | II o a b c => sx_zs [iop_no o; a; b; c]
  | ISh o a b c => sx_zs [shop_no o; a; b; c]
  | ILoad o a b c => sx_zs [lop_no o; a; b; c]
  | IJalr a b c => sx_zs [32; a; b; c]
  | IEcall => sx_zs [33]
  | IStore o a b c => sx_zs [sop_no o; a; b; c]
  | IBranch o a b c => sx_zs [bop_no o; a; b; c]
  | ILui a b => sx_zs [43; a; b]
  | IAuipc a b => sx_zs [44; a; b]
  | IJal a b c => sx_zs [45; a; b; c]
  | IEbreak => sx_zs [46]
  | IFence => sx_zs [47]
  | ICsr o a b c => sx_zs [csrop_no o; a; b; c]
  | ICsri o a b c => sx_zs [csriop_no o; a; b; c]
  end.

Definition sx_err (e : err) : sx :=
  match e with
  | EAddr a lo hi im => sx_zs [1; a; lo; hi; if im then 1 else 0]
  | EOffset o m => sx_zs [2; o; m]
  | EEcall c => sx_zs [3; c]
  | ENotImpl => sx_zs [4]
  | EOther k => sx_zs [5; k]
  end.

Definition sx_res {A} (f : A -> sx) (r : res A) : sx :=
  match r with Ok a => Lx [Zx 0; f a] | Err e => Lx [Zx 1; sx_err e] end.

Definition sx_fault (f : fault) : sx := Lx [Zx (f_addr f); sx_instr (f_instr f); sx_err (f_err f)].

(** cache configuration: (ibits bbits assoc plru wt penalty); empty list = no cache *)
Definition dccfg (s : sx) : ccfg :=
  {| ibits := dz (dnth s 0); bbits := dz (dnth s 1); assoc := dz (dnth s 2);
     plru := dbool (dnth s 3) |}.
Definition dmemsys (s : sx) (preload : zmap) : memsys :=
  match dl s with
  | [] => MFlat preload
  | _ =>
      let d := dcache_init (dccfg s) (dbool (dnth s 4)) (dz (dnth s 5)) in
      MCache (upd_lower d preload)
  end.
Definition dicache (s : sx) : option icache :=
  match dl s with
  | [] => None
  | _ => Some (icache_init (dccfg s) (dz (dnth s 5)))
  end.

(* block directory of a data cache: per set (blocks, policy repr) *)
Definition sx_block (b : cblock Z) : sx :=
  if valid b then Lx [Zx 1; sx_bool (dirty b); Zx (btag b); Zx (baddr b); sx_zs (vals b)]
  else Lx [Zx 0; sx_bool (dirty b)].
Definition sx_cset (s : cset Z) : sx := Lx [sx_list sx_block (blocks s); sx_zs (pol_repr (policy s))].
Definition sx_dcache (d : dcache) : sx :=
  Lx [sx_list sx_cset (sets (dc d)); Zx (hits d); Zx (accesses d); sx_bool (lasthit d)].
Definition sx_iblock (b : cblock (option instr)) : sx :=
  if valid b then Lx [Zx 1; Zx (btag b); Zx (baddr b); sx_list (sx_opt sx_instr) (vals b)]
  else Lx [Zx 0].
Definition sx_icset (s : cset (option instr)) : sx :=
  Lx [sx_list sx_iblock (blocks s); sx_zs (pol_repr (policy s))].
Definition sx_icache (c : icache) : sx :=
  Lx [sx_list sx_icset (sets (ic c)); Zx (ihits c); Zx (iaccesses c); sx_bool (ilasthit c)].

Definition sx_memsys_stats (m : memsys) : sx :=
  match m with
  | MFlat _ => Lx []
  | MCache d => Lx [Zx (hits d); Zx (accesses d); sx_bool (lasthit d)]
  end.
Definition sx_icache_stats (o : option icache) : sx :=
  match o with
  | None => Lx []
  | Some c => Lx [Zx (ihits c); Zx (iaccesses c); sx_bool (ilasthit c)]
  end.

(* architectural observation of a RISC-V state *)
Definition sx_st (s : st) : sx :=
  Lx [ Zx (pc s);
       sx_zs (map (fun r => rget s r) (zrange_from 0 32));
       sx_zmap_sorted (ms_lower (ms s));
       sx_zs (out s);
       sx_opt Zx (exitc s);
       sx_zs [icount s; bcount s; pcount s; cycles s; stalls s; flushes s];
       sx_memsys_stats (ms s);
       sx_icache_stats (icc (im s)) ].

(* initial state from (program regs-presets mem-presets dcache-cfg icache-cfg) *)
Definition dst (s : sx) : st :=
  let p := map dinstr (dl (dnth s 0)) in
  let r := dpairs (dnth s 1) in
  let m := dpairs (dnth s 2) in
  let s0 := init_st p (dmemsys (dnth s 3) m) (dicache (dnth s 4)) in
  fold_left (fun acc kv => rset acc (fst kv) (snd kv)) r s0.

(** * five-stage pipeline *)
From ArchSim Require Import Model.RVSplit Model.Pipe.
Definition sx_latch (l : latch) : sx :=
  match l with None => Lx [] | Some x => Lx [Zx (sl_addr x)] end.
(* observation: architectural state fields (as sx_st) ++ [latch addresses; stalled] *)
Definition sx_pstate (p : pstate) : sx :=
  match sx_st (pst p) with
  | Lx l => Lx (l ++ [sx_list sx_latch (lat p);
                      match stalled p with None => Lx [] | Some (k, d) => sx_zs [k; d] end])
  | x => x
  end.

(** * TOY *)
From ArchSim Require Import Model.Toy.

Definition sx_str (s : str) : sx := sx_zs s.
Definition sx_repr4 (r : str * str * str * str) : sx :=
  let '(a, b, c, d) := r in Lx [sx_str a; sx_str b; sx_str c; sx_str d].
Definition sx_tinstr (i : tinstr) : sx := sx_zs [top i; taddr i].
Definition sx_vis (v : vis) : sx :=
  Lx [sx_opt Zx (v_accu_old v); sx_opt Zx (v_alu_out v); sx_bool (v_jump v);
      sx_opt Zx (v_ram_out v); sx_opt Zx (v_op_old v); sx_opt Zx (v_pc_old v)].
Definition sx_trow (r : trow) : sx :=
  Lx [Zx (r_addr r); sx_str (r_hexaddr r); sx_repr4 (r_vals r); sx_str (r_instr r); sx_str (r_mark r)].

Definition sx_tstate (s : tstate) : sx :=
  Lx [ Zx (t_pc s); Zx (t_accu s); sx_zmap_sorted (t_mem s);
       sx_opt sx_tinstr (t_loaded s); sx_opt Zx (t_maxpc s); sx_opt Zx (t_cur s); Zx (t_next s);
       sx_vis (t_vis s);
       sx_zs [t_icount s; t_cycles s; t_bcount s];
       Zx (t_nextcycle s); sx_bool (t_started s);
       sx_bool (toy_done s); sx_bool (toy_has_instructions s);
       sx_list sx_repr4 (toy_register_reprs s);
       sx_res (sx_list sx_trow) (toy_memory_table s) ].

Definition sx_toutcome (o : toutcome) : sx :=
  match o with TNone => Lx [Zx 0] | TSeqErr => Lx [Zx 1] | TMemErr e => Lx [Zx 2; sx_err e] end.

(* initial TOY state built directly:
   (size mem-pairs accu pc loaded-word-opt maxpc-opt) *)
Definition dtstate (s : sx) : tstate :=
  let s0 := toy_init (dz (dnth s 0)) 1 false in
  {| t_pc := dz (dnth s 3); t_accu := dz (dnth s 2); t_mem := dpairs (dnth s 1); t_size := t_size s0;
     t_loaded := dopt (fun w => toy_decode (dz w)) (dnth s 4);
     t_maxpc := dopt dz (dnth s 5);
     t_cur := None; t_next := 0; t_vis := vis0; t_icount := 0; t_cycles := 0; t_bcount := 0;
     t_nextcycle := 1; t_started := false |}.

(* token lines: (ln kind ...): 0 directive d | 1 var name (vals) | 2 instr (inl?) op operand | 3 label name
   operand: (0 str) literal | (1 l) label | () none *)
Definition dtoperand (s : sx) : toperand :=
  match dl s with
  | [] => TNoOperand
  | k :: v :: _ => if dz k =? 0 then TAddrLit (dzs v) else TLabel (dz v)
  | _ => TNoOperand
  end.
Definition dtline (s : sx) : Z * tline :=
  let ln := dz (dnth s 0) in
  let k := dz (dnth s 1) in
  (ln,
   if k =? 0 then TLDirective (dz (dnth s 2))
   else if k =? 1 then TLVar (dz (dnth s 2)) (map dzs (dl (dnth s 3)))
   else if k =? 2 then TLInstr (dopt dz (dnth s 2)) (dz (dnth s 3)) (dtoperand (dnth s 4))
   else TLLabel (dz (dnth s 2))).

Definition sx_perr (e : perr) : sx :=
  match e with
  | PSyntax l => sx_zs [1; l] | PLabel l => sx_zs [2; l] | POdd l => sx_zs [3; l]
  | PDupLabel l => sx_zs [4; l] | PDirective l => sx_zs [5; l] | PDataSyntax l => sx_zs [6; l]
  | PDataDup l => sx_zs [7; l] | PVariable l => sx_zs [8; l] | PMemSize w => sx_zs [9; w]
  | PMemAddr a => sx_zs [10; a] | PUncaught l => sx_zs [11; l]
  end.

(** * RISC-V assembler *)
From ArchSim Require Import Model.Asm.

Definition dregtok (s : sx) : regtok :=
  if dz (dnth s 0) =? 0 then RAbi (dzs (dnth s 1)) else RX (dzs (dnth s 1)).
Definition ditok (s : sx) : itok :=
  {| k_mn := dz (dnth s 0);
     k_rd := dopt dregtok (dnth s 1); k_rs1 := dopt dregtok (dnth s 2); k_rs2 := dopt dregtok (dnth s 3);
     k_reg1 := dopt dregtok (dnth s 4); k_reg2 := dopt dregtok (dnth s 5); k_rs := dopt dregtok (dnth s 6);
     k_imm := dopt dzs (dnth s 7); k_csr := dopt dzs (dnth s 8); k_uimm := dopt dzs (dnth s 9);
     k_offset := dopt dzs (dnth s 10); k_label := dopt dz (dnth s 11);
     k_var := dopt (fun v => (dz (dnth v 0), dopt dzs (dnth v 1))) (dnth s 12) |}.
Definition dtbody (s : sx) : tbody :=
  let k := dz (dnth s 0) in
  if k =? 0 then BStr (dz (dnth s 1)) else if k =? 1 then BIns (ditok (dnth s 1)) else BOther.
Definition drline (s : sx) : Z * rline :=
  let ln := dz (dnth s 0) in
  let k := dz (dnth s 1) in
  (ln,
   if k =? 0 then RDirective (dz (dnth s 2))
   else if k =? 1 then RVarDecl (dz (dnth s 2)) (dz (dnth s 3)) (map dzs (dl (dnth s 4)))
   else if k =? 2 then RStrDecl (dz (dnth s 2)) (dzs (dnth s 3))
   else if k =? 3 then RZeroDecl (dz (dnth s 2)) (dzs (dnth s 3))
   else if k =? 4 then RLabelDecl (dz (dnth s 2))
   else RInstr (dopt dz (dnth s 2)) (dtbody (dnth s 3))).

Definition sx_image (img : image) : sx :=
  Lx [ sx_list (fun i => Lx [sx_instr i; sx_str (instr_repr i)]) (i_instrs img);
       sx_zmap_sorted (i_labels img);
       sx_list (fun v : Z * (Z * Z) => sx_zs [fst v; fst (snd v); snd (snd v)]) (i_vars img) ].
