(* Mem.v — flat memory (uarch/memory/memory.py), model only. *)
From ArchSim Require Import Model.Base.
Open Scope Z_scope.

Record memcfg := { cw : Z; alen : Z; aovf : bool; alo : Z; ahi : Z }.

Definition rv_memcfg : memcfg :=
  {| cw := 8; alen := 32; aovf := true; alo := 16384; ahi := 4294967296 |}.
Definition toy_memcfg (size : Z) : memcfg :=
  {| cw := 16; alen := 12; aovf := false; alo := 0; ahi := size |}.

Definition eff_addr (c : memcfg) (a : Z) : Z :=
  if aovf c then a mod 2 ^ (alen c) else a.
Definition in_range (c : memcfg) (a : Z) : bool := (alo c <=? a) && (a <? ahi c).
Definition addr_err (c : memcfg) (a : Z) : err := EAddr a (alo c) (ahi c - 1) false.

(* _read_value / _write_value *)
Definition read_cell (c : memcfg) (m : zmap) (a : Z) : res Z :=
  let a' := eff_addr c a in
  if in_range c a' then Ok (mget m a') else Err (addr_err c a').
Definition write_cell (c : memcfg) (m : zmap) (a v : Z) : res zmap :=
  let a' := eff_addr c a in
  if in_range c a' then Ok (mset m a' v) else Err (addr_err c a').

(* _read_multiple: res |= cell(address+i) << (i*width), i ascending *)
Fixpoint read_mult (c : memcfg) (m : zmap) (a : Z) (k : nat) (i acc : Z) : res Z :=
  match k with
  | O => Ok acc
  | S k' =>
      match read_cell c m (a + i) with
      | Ok v => read_mult c m a k' (i + 1) (Z.lor acc (Z.shiftl v (i * cw c)))
      | Err e => Err e
      end
  end.

(* _write_multiple: cells written in ascending order; the cells before a failing
   one stay written (Python raises in the middle of the loop). *)
Fixpoint write_mult (c : memcfg) (m : zmap) (a : Z) (k : nat) (i value : Z)
  : zmap * option err :=
  match k with
  | O => (m, None)
  | S k' =>
      match write_cell c m (a + i) (Z.land value (2 ^ cw c - 1)) with
      | Ok m' => write_mult c m' a k' (i + 1) (Z.shiftr value (cw c))
      | Err e => (m, Some e)
      end
  end.

(* read_byte/halfword/word: nbits in {8,16,32}; result cast to UInt<nbits> *)
Definition ncells (c : memcfg) (nbits : Z) : nat := Z.to_nat (nbits / cw c).
Definition mem_read (c : memcfg) (m : zmap) (nbits a : Z) : res Z :=
  match read_mult c m a (ncells c nbits) 0 0 with
  | Ok v => Ok (U nbits v)
  | Err e => Err e
  end.
Definition mem_write (c : memcfg) (m : zmap) (nbits a v : Z) : zmap * option err :=
  write_mult c m a (ncells c nbits) 0 v.

(* _memory_repr(bits): for every key in insertion order, aligned address (skip if seen),
   value of the aligned unit.  Returned sorted by address, as the simulation getters do. *)
Fixpoint mem_repr_aux (c : memcfg) (m : zmap) (nbits : Z) (keys : list Z) (seen : list (Z * Z))
  : res (list (Z * Z)) :=
  match keys with
  | [] => Ok seen
  | k :: t =>
      let n := nbits / cw c in
      let al := k - (k mod n) in
      match mget_opt seen al with
      | Some _ => mem_repr_aux c m nbits t seen
      | None =>
          match mem_read c m nbits al with
          | Ok v => mem_repr_aux c m nbits t (seen ++ [(al, v)])
          | Err e => Err e
          end
      end
  end.
Definition mem_repr (c : memcfg) (m : zmap) (nbits : Z) : res (list (Z * Z)) :=
  match mem_repr_aux c m nbits (mkeys m) [] with
  | Ok l => Ok (psort l)
  | Err e => Err e
  end.
