(* Cache.v — decoded_address.py, replacement_strategies.py, cache.py, integer_manipulation.py,
   base_cache_/write_back_/write_through_memory_system.py.  Model only. *)
From ArchSim Require Import Model.Base Model.Mem.
Open Scope Z_scope.

(** * Decoded address *)
Record daddr := { da_full : Z; da_tag : Z; da_idx : Z; da_boff : Z; da_byoff : Z; da_balign : Z }.

Definition decode_addr (ibits bbits a : Z) : daddr :=
  let full := U32 a in
  {| da_full := full;
     da_tag := Z.shiftr full (ibits + bbits + 2);
     da_idx := Z.land (Z.shiftr full (bbits + 2)) (2 ^ ibits - 1);
     da_boff := Z.land (Z.shiftr full 2) (2 ^ bbits - 1);
     da_byoff := Z.land full 3;
     da_balign := Z.shiftl (Z.shiftr full (2 + bbits)) (2 + bbits) |}.

(** * Replacement policies *)
Inductive pol :=
| LRU (order : list Z)
| PLRU (assoc : Z) (bits : list bool).

Fixpoint remove_first (x : Z) (l : list Z) : list Z :=
  match l with
  | [] => []
  | y :: t => if y =? x then t else y :: remove_first x t
  end.

Fixpoint index_of (x : Z) (l : list Z) (i : Z) : Z :=
  match l with
  | [] => i
  | y :: t => if y =? x then i else index_of x t (i + 1)
  end.

Definition plru_depth (assoc : Z) : nat := Z.to_nat (Z.log2 assoc).

(* access: i = index + assoc - 1; depth times: right = (i odd); i = (i-1)//2; bits[i] = right *)
Fixpoint plru_access_loop (d : nat) (i : Z) (bits : list bool) : list bool :=
  match d with
  | O => bits
  | S d' =>
      let right := (i mod 2 =? 1) in
      let p := (i - 1) / 2 in
      plru_access_loop d' p (set_nthZ bits p right)
  end.

Fixpoint plru_victim_loop (d : nat) (i : Z) (bits : list bool) : Z :=
  match d with
  | O => i
  | S d' => plru_victim_loop d' (if nthZ bits i false then 2 * i + 2 else 2 * i + 1) bits
  end.

Definition pol_init (plru : bool) (assoc : Z) : pol :=
  if plru then PLRU assoc (repeat false (Z.to_nat (assoc - 1)))
  else LRU (zrange_from 0 (Z.to_nat assoc)).

Definition pol_access (p : pol) (i : Z) : pol :=
  match p with
  | LRU o => LRU (remove_first i o ++ [i])
  | PLRU a b => PLRU a (plru_access_loop (plru_depth a) (i + a - 1) b)
  end.

Definition pol_victim (p : pol) : Z :=
  match p with
  | LRU o => nthZ o 0 0
  | PLRU a b => plru_victim_loop (plru_depth a) 0 b + 1 - a
  end.

(* get_repr: LRU -> position of every index; PLRU -> the bit array (as 0/1) *)
Definition pol_repr (p : pol) : list Z :=
  match p with
  | LRU o => map (fun i => index_of i o 0) (zrange_from 0 (length o))
  | PLRU _ b => map (fun x : bool => if x then 1 else 0) b
  end.

(** * Generic cache over a value type T *)
Section GenericCache.
  Variable T : Type.

  Record cblock := { valid : bool; dirty : bool; btag : Z; baddr : Z; vals : list T }.
  Record cset := { blocks : list cblock; policy : pol }.
  Record ccfg := { ibits : Z; bbits : Z; assoc : Z; plru : bool }.
  Record cache := { cfg : ccfg; sets : list cset }.

  Definition empty_block : cblock :=
    {| valid := false; dirty := false; btag := 0; baddr := 0; vals := [] |}.
  Definition empty_set (c : ccfg) : cset :=
    {| blocks := repeat empty_block (Z.to_nat (assoc c)); policy := pol_init (plru c) (assoc c) |}.
  Definition cache_init (c : ccfg) : cache :=
    {| cfg := c; sets := repeat (empty_set c) (Z.to_nat (2 ^ ibits c)) |}.

  Definition cdecode (c : cache) (a : Z) : daddr := decode_addr (ibits (cfg c)) (bbits (cfg c)) a.

  (* get_block_index: first valid block with equal tag *)
  Fixpoint find_block (bl : list cblock) (tag : Z) (i : Z) : option Z :=
    match bl with
    | [] => None
    | b :: t => if valid b && (btag b =? tag) then Some i else find_block t tag (i + 1)
    end.

  Definition dummy_set : cset := {| blocks := []; policy := LRU [] |}.
  Definition get_set (c : cache) (i : Z) : cset := nthZ (sets c) i dummy_set.
  Definition put_set (c : cache) (i : Z) (s : cset) : cache :=
    {| cfg := cfg c; sets := set_nthZ (sets c) i s |}.

  (* CacheSet.read: on hit policy.access, return the stored values *)
  Definition cache_read_block (c : cache) (d : daddr) : option (list T) * cache :=
    let s := get_set c (da_idx d) in
    match find_block (blocks s) (da_tag d) 0 with
    | Some bi =>
        let s' := {| blocks := blocks s; policy := pol_access (policy s) bi |} in
        (Some (vals (nthZ (blocks s) bi empty_block)), put_set c (da_idx d) s')
    | None => (None, c)
    end.

  (* CacheSet.write: returns (hit, displaced dirty block (block-aligned address, values)) *)
  Definition cache_write_block (c : cache) (d : daddr) (v : list T)
    : bool * option (Z * list T) * cache :=
    let s := get_set c (da_idx d) in
    let newb := {| valid := true; dirty := true; btag := da_tag d; baddr := da_balign d; vals := v |} in
    match find_block (blocks s) (da_tag d) 0 with
    | None =>
        let bi := pol_victim (policy s) in
        let old := nthZ (blocks s) bi empty_block in
        let replaced := if dirty old then Some (baddr old, vals old) else None in
        let s' := {| blocks := set_nthZ (blocks s) bi newb; policy := pol_access (policy s) bi |} in
        (false, replaced, put_set c (da_idx d) s')
    | Some bi =>
        let s' := {| blocks := set_nthZ (blocks s) bi newb; policy := pol_access (policy s) bi |} in
        (true, None, put_set c (da_idx d) s')
    end.

  Definition cache_contains (c : cache) (d : daddr) : bool :=
    match find_block (blocks (get_set c (da_idx d))) (da_tag d) 0 with Some _ => true | None => false end.
End GenericCache.

Arguments valid {T}. Arguments dirty {T}. Arguments btag {T}. Arguments baddr {T}. Arguments vals {T}.
Arguments blocks {T}. Arguments policy {T}. Arguments cfg {T}. Arguments sets {T}.
Arguments cache_init {T}. Arguments cdecode {T}. Arguments cache_read_block {T}.
Arguments cache_write_block {T}. Arguments cache_contains {T}. Arguments get_set {T}.
Arguments find_block {T}. Arguments empty_block {T}.
Arguments Build_cblock {T}. Arguments Build_cset {T}. Arguments Build_cache {T}.

(** * Data cache memory systems *)
Record dcache := {
  dc : cache Z;
  lower : zmap;            (* backing flat memory (RISC-V configuration) *)
  wthrough : bool;         (* write-through (true) or write-back (false) *)
  penalty : Z;
  hits : Z; accesses : Z; lasthit : bool }.

Definition dcache_init (c : ccfg) (wt : bool) (pen : Z) : dcache :=
  {| dc := cache_init c; lower := []; wthrough := wt; penalty := pen;
     hits := 0; accesses := 0; lasthit := false |}.

Definition upd_dc (d : dcache) (c : cache Z) : dcache :=
  {| dc := c; lower := lower d; wthrough := wthrough d; penalty := penalty d;
     hits := hits d; accesses := accesses d; lasthit := lasthit d |}.
Definition upd_lower (d : dcache) (m : zmap) : dcache :=
  {| dc := dc d; lower := m; wthrough := wthrough d; penalty := penalty d;
     hits := hits d; accesses := accesses d; lasthit := lasthit d |}.
(* statistics update; returns the cycle penalty incurred *)
Definition upd_stats (d : dcache) (hit : bool) : dcache * Z :=
  ({| dc := dc d; lower := lower d; wthrough := wthrough d; penalty := penalty d;
      hits := hits d + (if hit then 1 else 0); accesses := accesses d + 1; lasthit := hit |},
   if hit then 0 else penalty d).

(* _read_block_from_memory: words at block_aligned + 4i *)
Fixpoint read_words (m : zmap) (a : Z) (n : nat) : res (list Z) :=
  match n with
  | O => Ok []
  | S k =>
      match mem_read rv_memcfg m 32 a with
      | Ok w => match read_words m (a + 4) k with Ok t => Ok (w :: t) | Err e => Err e end
      | Err e => Err e
      end
  end.

(* _write_block_to_memory *)
Fixpoint write_words (m : zmap) (a : Z) (ws : list Z) : zmap :=
  match ws with
  | [] => m
  | w :: t => write_words (fst (mem_write rv_memcfg m 32 a w)) (a + 4) t
  end.

Definition block_words (d : dcache) : nat := Z.to_nat (2 ^ bbits (cfg (dc d))).

(* _read_block (both variants): (values, hit) *)
Definition dc_read_block (d : dcache) (da : daddr) : res (list Z * bool) * dcache :=
  match cache_read_block (dc d) da with
  | (Some v, c') => (Ok (v, true), upd_dc d c')
  | (None, _) =>
      match read_words (lower d) (da_balign da) (block_words d) with
      | Err e => (Err e, d)
      | Ok v =>
          match cache_write_block (dc d) da v with
          | (_, displaced, c') =>
              let d1 := upd_dc d c' in
              let d2 := match displaced with
                        | Some (a, ws) => if wthrough d then d1 else upd_lower d1 (write_words (lower d1) a ws)
                        | None => d1
                        end in
              (Ok (v, false), d2)
          end
      end
  end.

(* lane extraction (byte_from_block etc.) *)
Definition from_block (nbits : Z) (da : daddr) (blk : list Z) : res Z :=
  let w := nthZ blk (da_boff da) 0 in
  if nbits =? 8 then Ok (U8 (Z.shiftr w (da_byoff da * 8)))
  else if nbits =? 16 then
    if da_byoff da >? 2 then Err (EOffset (da_byoff da) 2)
    else Ok (U16 (Z.shiftr w (da_byoff da * 8)))
  else
    if negb (da_byoff da =? 0) then Err (EOffset (da_byoff da) 0) else Ok w.

(* lane merge (byte_into_block etc.) *)
Definition into_block (nbits : Z) (da : daddr) (blk : list Z) (v : Z) : res (list Z) :=
  let w := nthZ blk (da_boff da) 0 in
  let sh := da_byoff da * 8 in
  if nbits =? 8 then
    Ok (set_nthZ blk (da_boff da)
          (U32 (Z.lor (Z.land w (Z.lnot (Z.shiftl 255 sh))) (Z.shiftl v sh))))
  else if nbits =? 16 then
    if da_byoff da >? 2 then Err (EOffset (da_byoff da) 2)
    else Ok (set_nthZ blk (da_boff da)
               (U32 (Z.lor (Z.land w (Z.lnot (Z.shiftl 65535 sh))) (Z.shiftl v sh))))
  else
    if negb (da_byoff da =? 0) then Err (EOffset (da_byoff da) 0)
    else Ok (set_nthZ blk (da_boff da) v).

(* read_byte/halfword/word(address, update_statistics): result, new state, cycle penalty *)
Definition dc_read (d : dcache) (nbits a : Z) (counted : bool) : res Z * dcache * Z :=
  let da := cdecode (dc d) a in
  match dc_read_block d da with
  | (Err e, d') => (Err e, d', 0)
  | (Ok (blk, hit), d') =>
      let '(d'', pen) := if counted then upd_stats d' hit else (d', 0) in
      (from_block nbits da blk, d'', pen)
  end.

(* write_byte/halfword/word(address, value, directly_write_to_lower_memory) *)
Definition dc_write (d : dcache) (nbits a v : Z) (direct : bool) : option err * dcache * Z :=
  let da := cdecode (dc d) a in
  if direct then
    let '(m', e) := mem_write rv_memcfg (lower d) nbits a v in (e, upd_lower d m', 0)
  else if wthrough d then
    (* write-through: a write that crosses a word boundary is rejected before anything is modified;
       otherwise statistics first, block updated only on a hit, lower memory always *)
    if (nbits =? 16) && (da_byoff da >? 2) then (Some (EOffset (da_byoff da) 2), d, 0)
    else if (nbits =? 32) && negb (da_byoff da =? 0) then (Some (EOffset (da_byoff da) 0), d, 0)
    else
    match cache_read_block (dc d) da with
    | (ob, c1) =>
        let d1 := upd_dc d c1 in
        let hit := match ob with Some _ => true | None => false end in
        let '(d2, pen) := upd_stats d1 hit in
        let merged :=
          match ob with
          | Some blk =>
              match into_block nbits da blk v with
              | Ok blk' => let '(_, _, c2) := cache_write_block (dc d2) da blk' in Ok (upd_dc d2 c2)
              | Err e => Err e
              end
          | None => Ok d2
          end in
        match merged with
        | Err e => (Some e, d2, pen)
        | Ok d3 => let '(m', e) := mem_write rv_memcfg (lower d3) nbits a v in (e, upd_lower d3 m', pen)
        end
    end
  else
    (* write-back with write-allocate: statistics last *)
    match cache_read_block (dc d) da with
    | (ob, c1) =>
        let d1 := upd_dc d c1 in
        let hit := match ob with Some _ => true | None => false end in
        let fetched := match ob with
                       | Some blk => Ok blk
                       | None => read_words (lower d1) (da_balign da) (block_words d1)
                       end in
        match fetched with
        | Err e => (Some e, d1, 0)
        | Ok blk =>
            match into_block nbits da blk v with
            | Err e => (Some e, d1, 0)
            | Ok blk' =>
                let '(_, displaced, c2) := cache_write_block (dc d1) da blk' in
                let d2 := upd_dc d1 c2 in
                let d3 := match displaced with
                          | Some (ba, ws) => upd_lower d2 (write_words (lower d2) ba ws)
                          | None => d2
                          end in
                let '(d4, pen) := upd_stats d3 hit in
                (None, d4, pen)
            end
        end
    end.

(* reset(): new cache, cleared lower memory, counters kept *)
Definition dc_reset (d : dcache) : dcache :=
  {| dc := cache_init (cfg (dc d)); lower := []; wthrough := wthrough d; penalty := penalty d;
     hits := hits d; accesses := accesses d; lasthit := lasthit d |}.

(** * Memory system: flat or cached *)
Inductive memsys :=
| MFlat (m : zmap)
| MCache (d : dcache).

Definition ms_read (ms : memsys) (nbits a : Z) (counted : bool) : res Z * memsys * Z :=
  match ms with
  | MFlat m => (mem_read rv_memcfg m nbits a, ms, 0)
  | MCache d => let '(r, d', p) := dc_read d nbits a counted in (r, MCache d', p)
  end.

Definition ms_write (ms : memsys) (nbits a v : Z) (direct : bool) : option err * memsys * Z :=
  match ms with
  | MFlat m => let '(m', e) := mem_write rv_memcfg m nbits a v in (e, MFlat m', 0)
  | MCache d => let '(e, d', p) := dc_write d nbits a v direct in (e, MCache d', p)
  end.

Definition ms_lower (ms : memsys) : zmap :=
  match ms with MFlat m => m | MCache d => lower d end.

Definition ms_reset (ms : memsys) : memsys :=
  match ms with MFlat _ => MFlat [] | MCache d => MCache (dc_reset d) end.
