(* Spec/ToyRef.v — the documented TOY machine, written from the help page: 4096 sixteen-bit words
   of unified memory, a 16-bit accumulator, a 12-bit program counter, thirteen opcodes.
   It knows nothing about half cycles, the instruction register or the pre-incremented pc of the
   implementation: one step = fetch the word at pc, execute it, advance pc.
   The machine halts when the program counter passes the last assembled instruction [maxpc]. *)
From ArchSim Require Import Model.Base.
Open Scope Z_scope.

Record tref := { r_acc : Z; r_pc : Z; r_mem : zmap; r_count : Z; r_branches : Z }.

Definition ref_halted (maxpc : Z) (s : tref) : bool := r_pc s >? maxpc.

Definition w16 (z : Z) : Z := z mod 65536.
Definition next_pc (pc : Z) : Z := (pc + 1) mod 4096.

Definition ref_step (maxpc : Z) (s : tref) : tref :=
  if ref_halted maxpc s then s
  else
    let w := mget (r_mem s) (r_pc s) in
    let op := w / 4096 in              (* top four bits of the 16-bit word *)
    let a := w mod 4096 in             (* low twelve bits *)
    let acc := r_acc s in
    let m := r_mem s in
    let operand := mget m a in
    let upd (acc' : Z) (m' : zmap) (pc' : Z) (br : Z) :=
      {| r_acc := acc'; r_pc := pc'; r_mem := m'; r_count := r_count s + 1;
         r_branches := r_branches s + br |} in
    let seq := next_pc (r_pc s) in
    match op with
    | 0 => upd acc (mset m a acc) seq 0                          (* STO *)
    | 1 => upd operand m seq 0                                   (* LDA *)
    | 2 => if acc =? 0 then upd acc m a 1 else upd acc m seq 0   (* BRZ *)
    | 3 => upd (w16 (acc + operand)) m seq 0                     (* ADD *)
    | 4 => upd (w16 (acc - operand)) m seq 0                     (* SUB *)
    | 5 => upd (Z.lor acc operand) m seq 0                       (* OR *)
    | 6 => upd (Z.land acc operand) m seq 0                      (* AND *)
    | 7 => upd (Z.lxor acc operand) m seq 0                      (* XOR *)
    | 8 => upd (65535 - acc) m seq 0                             (* NOT *)
    | 9 => upd (w16 (acc + 1)) m seq 0                           (* INC *)
    | 10 => upd (w16 (acc - 1)) m seq 0                          (* DEC *)
    | 11 => upd 0 m seq 0                                        (* ZRO *)
    | _ => upd acc m seq 0                                       (* NOP, also opcodes 13-15 *)
    end.

Fixpoint ref_run (n : nat) (maxpc : Z) (s : tref) : tref :=
  match n with O => s | S k => ref_run k maxpc (ref_step maxpc s) end.
