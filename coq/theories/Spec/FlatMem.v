(* FlatMem.v — the abstract flat store the data memory is specified against (property C18).

   The store is a TOTAL function Z -> Z (default 0).  Everything here is a specification:
   no reference to the loops of Model/Mem.v (only its configuration record [memcfg], the
   map observation [mget] and the error constructor are shared).

     cells m            the function view of an association-list map
     eff c a            effective address: a mod 2^alen when address overflow is on
     valid c x          x lies in the configured address range [alo, ahi)
     touched c a k      the k effective cell addresses of an access at a, in loop order
     first_bad c a k    the FIRST (ascending i) touched effective address out of range
     ngood c a k        how many leading touched addresses are in range (= k iff none bad)
     digit w v i        i-th w-bit digit of v (little endian)
     le_compose f w a k sum_{i<k} f(a+i) * 2^(w*i)
     upd_cells c f a v k   f with cell eff(a+i) := digit i of v, for i < k (loop order)
     flat_read / flat_write / flat_run   the abstract store's operations and histories *)
From ArchSim Require Import Model.Base Model.Mem.
Open Scope Z_scope.

Definition cells (m : zmap) : Z -> Z := fun k => mget m k.

(* every cell holds a cw-bit value (Python: the dict holds UInt<cw> objects) *)
Definition cells_wf (c : memcfg) (m : zmap) : Prop := forall x, 0 <= cells m x < 2 ^ cw c.
Definition fun_wf (c : memcfg) (f : Z -> Z) : Prop := forall x, 0 <= f x < 2 ^ cw c.

Definition eff (c : memcfg) (a : Z) : Z := if aovf c then a mod 2 ^ alen c else a.

Definition valid (c : memcfg) (x : Z) : Prop := alo c <= x < ahi c.
Definition validb (c : memcfg) (x : Z) : bool := (alo c <=? x) && (x <? ahi c).

(* MemoryAddressError(address, range.start, range.stop - 1, "data memory") *)
Definition flat_err (c : memcfg) (b : Z) : err := EAddr b (alo c) (ahi c - 1) false.

Definition touched (c : memcfg) (a : Z) (k : nat) : list Z :=
  map (fun i => eff c (a + Z.of_nat i)) (seq 0 k).

Definition first_bad (c : memcfg) (a : Z) (k : nat) : option Z :=
  find (fun x => negb (validb c x)) (touched c a k).

Fixpoint good_prefix (c : memcfg) (l : list Z) : nat :=
  match l with
  | [] => O
  | x :: t => if validb c x then S (good_prefix c t) else O
  end.
Definition ngood (c : memcfg) (a : Z) (k : nat) : nat := good_prefix c (touched c a k).

(* the k effective addresses of an access are pairwise distinct *)
Definition distinct_eff (c : memcfg) (a : Z) (k : nat) : Prop :=
  forall i j, (i < j < k)%nat -> eff c (a + Z.of_nat i) <> eff c (a + Z.of_nat j).

Definition digit (w v : Z) (i : nat) : Z := (v / 2 ^ (w * Z.of_nat i)) mod 2 ^ w.

(* sum_{i<k} f(a+i) * 2^(w*i) *)
Fixpoint le_compose (f : Z -> Z) (w a : Z) (k : nat) : Z :=
  match k with
  | O => 0
  | S k' => le_compose f w a k' + f (a + Z.of_nat k') * 2 ^ (w * Z.of_nat k')
  end.

(* cell eff(a+i) := digit i of v, for i < k; a later i wins if two coincide *)
Fixpoint upd_cells (c : memcfg) (f : Z -> Z) (a v : Z) (k : nat) : Z -> Z :=
  match k with
  | O => f
  | S k' => fun x => if x =? eff c (a + Z.of_nat k') then digit (cw c) v k'
                     else upd_cells c f a v k' x
  end.

(** * The abstract store *)
(* read k cells at a: little-endian composition of the cells at the effective addresses,
   or the address error naming the first bad effective address *)
Definition flat_read (c : memcfg) (f : Z -> Z) (k : nat) (a : Z) : res Z :=
  match first_bad c a k with
  | None => Ok (le_compose (fun x => f (eff c x)) (cw c) a k)
  | Some b => Err (flat_err c b)
  end.

(* write k cells at a: the cells before the first bad address are written (all k when
   there is none), the error names the first bad effective address *)
Definition flat_write (c : memcfg) (f : Z -> Z) (k : nat) (a v : Z) : (Z -> Z) * option err :=
  (upd_cells c f a v (ngood c a k), option_map (flat_err c) (first_bad c a k)).

(* write histories: (nbits, address, value); failing writes are part of the history *)
Definition wreq := (Z * Z * Z)%type.
Definition flat_step (c : memcfg) (f : Z -> Z) (w : wreq) : Z -> Z :=
  let '(nbits, a, v) := w in fst (flat_write c f (ncells c nbits) a v).
Definition flat_run (c : memcfg) (f : Z -> Z) (ws : list wreq) : Z -> Z :=
  fold_left (flat_step c) ws f.

Definition mem_step (c : memcfg) (m : zmap) (w : wreq) : zmap :=
  let '(nbits, a, v) := w in fst (mem_write c m nbits a v).
Definition mem_run (c : memcfg) (m : zmap) (ws : list wreq) : zmap :=
  fold_left (mem_step c) ws m.

(* cell x is written by request w (it is one of the cells before the first bad address) *)
Definition writes_cell (c : memcfg) (w : wreq) (x : Z) : Prop :=
  let '(nbits, a, _) := w in
  exists i, (i < ngood c a (ncells c nbits))%nat /\ x = eff c (a + Z.of_nat i).

(** * Instances *)
Definition rv_width (nbits : Z) : Prop := nbits = 8 \/ nbits = 16 \/ nbits = 32 \/ nbits = 64.
Definition rv_k (nbits : Z) : nat := Z.to_nat (nbits / 8).

(* well-formed configurations: positive cell width, and — when addresses wrap — a range that
   lies inside [0, 2^alen), so that every valid address is its own effective address *)
Definition cfg_wf (c : memcfg) : Prop :=
  0 < cw c /\ 0 <= alen c /\ 0 <= alo c /\ (aovf c = true -> ahi c <= 2 ^ alen c).
