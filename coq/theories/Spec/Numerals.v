(* Spec/Numerals.v — how a human READS the strings the simulator shows.
   Independent of the model (no ArchSim import): strings are lists of character codes.
   '0' = 48 .. '9' = 57, 'A' = 65 .. 'F' = 70, ' ' = 32, '-' = 45. *)
From Coq Require Import ZArith List Bool.
Import ListNotations.
Open Scope Z_scope.

(* value of one digit character, upper-case hexadecimal *)
Definition digit_val (c : Z) : option Z :=
  if (48 <=? c) && (c <=? 57) then Some (c - 48)
  else if (65 <=? c) && (c <=? 70) then Some (c - 55)
  else None.

(* Horner reading, most significant digit first; every digit must be < base *)
Fixpoint horner (base acc : Z) (s : list Z) : option Z :=
  match s with
  | [] => Some acc
  | c :: t =>
      match digit_val c with
      | Some d => if d <? base then horner base (acc * base + d) t else None
      | None => None
      end
  end.

(* a numeral has at least one digit *)
Definition of_digits (base : Z) (s : list Z) : option Z :=
  match s with
  | [] => None
  | _ => horner base 0 s
  end.

(* drop the separating spaces *)
Definition ungroup (s : list Z) : list Z := filter (fun c => negb (c =? 32)) s.

(* decimal numeral with an optional leading '-' *)
Definition parse_dec (s : list Z) : option Z :=
  match s with
  | [] => None
  | c :: t => if c =? 45 then option_map Z.opp (of_digits 10 t) else of_digits 10 s
  end.

(* the documented layout of a grouped string [x] with group size [g]:
   no space at either end, no two adjacent spaces, and counting positions p = 0, 1, ...
   from the RIGHT end, position p holds a space exactly when p + 1 is a multiple of g + 1
   (i.e. after every g digits). *)
Definition well_grouped (g : nat) (x : list Z) : Prop :=
  (forall b, x <> 32 :: b) /\
  (forall a, x <> a ++ [32]) /\
  (forall a b, x <> a ++ 32 :: 32 :: b) /\
  (forall p, (p < length x)%nat ->
     (nth p (rev x) 0 = 32 <-> (Z.of_nat p + 1) mod (Z.of_nat g + 1) = 0)).
