(* Spec/RV32IM.v — hand-written reference semantics of the supported RV32IM subset, written from
   the RISC-V unprivileged specification (vol. I, chapters 2 and 7) and the simulator's documented
   ecall table.  It knows nothing about fixedint, Python or the simulator's stages.
   Conventions: a word is an integer in [0, 2^32); [signed] is its two's-complement reading;
   the pc is a 32-bit word; data memory is byte addressed, valid addresses [2^14, 2^32);
   the instruction memory holds instruction k at address 4k. *)
From ArchSim Require Import Model.Base Model.Fmt Model.RV.
Open Scope Z_scope.

Definition wrap (z : Z) : Z := z mod 4294967296.
Definition signed (w : Z) : Z := if w <? 2147483648 then w else w - 4294967296.
(* sign extension of the low [n] bits of v *)
Definition sextn (n v : Z) : Z := let u := v mod 2 ^ n in if u <? 2 ^ (n - 1) then u else u - 2 ^ n.

Record arch := { apc : Z; areg : zmap; amem : zmap; aout : str; aexit : option Z }.

Definition rd_reg (a : arch) (r : Z) : Z := mget (areg a) r.
Definition wr_reg (a : arch) (r v : Z) : arch :=
  if r =? 0 then a
  else {| apc := apc a; areg := mset (areg a) r v; amem := amem a; aout := aout a; aexit := aexit a |}.
Definition set_apc (a : arch) (p : Z) : arch :=
  {| apc := p; areg := areg a; amem := amem a; aout := aout a; aexit := aexit a |}.
Definition set_amem (a : arch) (m : zmap) : arch :=
  {| apc := apc a; areg := areg a; amem := m; aout := aout a; aexit := aexit a |}.

(** integer register-register operations (chapter 2.4, 7.1, 7.2) *)
Definition spec_r (o : rop) (a b : Z) : Z :=
  let sh := b mod 32 in
  match o with
  | ADD => wrap (a + b)
  | SUB => wrap (a - b)
  | SLL => wrap (a * 2 ^ sh)
  | SLT => if signed a <? signed b then 1 else 0
  | SLTU => if a <? b then 1 else 0
  | XOR => Z.lxor a b
  | SRL => a / 2 ^ sh
  | SRA => wrap (signed a / 2 ^ sh)
  | OR => Z.lor a b
  | AND => Z.land a b
  | MUL => wrap (a * b)
  | MULH => wrap ((signed a * signed b) / 4294967296)
  | MULHU => (a * b) / 4294967296
  | MULHSU => wrap ((signed a * b) / 4294967296)
  | DIV => if b =? 0 then 4294967295
           else if (signed a =? -2147483648) && (signed b =? -1) then 2147483648
           else wrap (Z.quot (signed a) (signed b))
  | DIVU => if b =? 0 then 4294967295 else a / b
  | REM => if b =? 0 then a
           else if (signed a =? -2147483648) && (signed b =? -1) then 0
           else wrap (Z.rem (signed a) (signed b))
  | REMU => if b =? 0 then a else a mod b
  end.

(* register-immediate operations; [imm] is the sign-extended 12-bit immediate *)
Definition spec_i (o : iop) (a imm : Z) : Z :=
  match o with
  | ADDI => wrap (a + imm)
  | SLTI => if signed a <? imm then 1 else 0
  | SLTIU => if a <? wrap imm then 1 else 0
  | XORI => Z.lxor a (wrap imm)
  | ORI => Z.lor a (wrap imm)
  | ANDI => Z.land a (wrap imm)
  end.

(* shifts by a constant 0..31 *)
Definition spec_sh (o : shop) (a sh : Z) : Z :=
  match o with
  | SLLI => wrap (a * 2 ^ sh)
  | SRLI => a / 2 ^ sh
  | SRAI => wrap (signed a / 2 ^ sh)
  end.

Definition spec_cond (o : bop) (a b : Z) : bool :=
  match o with
  | BEQ => a =? b
  | BNE => negb (a =? b)
  | BLT => signed a <? signed b
  | BGE => signed b <=? signed a
  | BLTU => a <? b
  | BGEU => b <=? a
  end.

(** byte-addressed little-endian data memory, valid addresses [2^14, 2^32), addresses modulo 2^32 *)
Definition valid_addr (a : Z) : bool := (16384 <=? a) && (a <? 4294967296).
Inductive sfault := SFAddr (a : Z) | SFEcall (code : Z) | SFUnsupported | SFFuel.

(* read [n] bytes starting at address [a] (ascending), little endian *)
Fixpoint spec_load (m : zmap) (a : Z) (n : nat) : Z + Z (* value or faulting address *) :=
  match n with
  | O => inl 0
  | S k =>
      let a' := wrap a in
      if valid_addr a' then
        match spec_load m (a + 1) k with
        | inl hi => inl (mget m a' + 256 * hi)
        | inr f => inr f
        end
      else inr a'
  end.

(* store the low [n] bytes of [v] at address [a] (ascending); a store reaching an invalid
   address faults there, the bytes below it having been stored *)
Fixpoint spec_store (m : zmap) (a : Z) (n : nat) (v : Z) : zmap * option Z :=
  match n with
  | O => (m, None)
  | S k =>
      let a' := wrap a in
      if valid_addr a' then spec_store (mset m a' (v mod 256)) (a + 1) k (v / 256)
      else (m, Some a')
  end.

Definition lop_bytes (o : lop) : nat := match o with LB | LBU => 1 | LH | LHU => 2 | LW => 4 end%nat.
Definition lop_value (o : lop) (v : Z) : Z :=
  match o with
  | LB => wrap (sextn 8 v)
  | LH => wrap (sextn 16 v)
  | LW | LBU | LHU => v
  end.
Definition sop_bytes (o : sop) : nat := match o with SB => 1 | SH => 2 | SW => 4 end%nat.

(** the documented ecall services: a7 selects, a0 is the argument *)
Inductive cs_res := CsOk (t : str) | CsFault (a : Z) | CsFuel.

(* the zero-terminated string at address [a]; [fuel] bounds the scan (a scan longer than the
   number of stored bytes must meet a zero, see C01.cstring_fuel_suffices) *)
Fixpoint spec_cstring (fuel : nat) (m : zmap) (a : Z) : cs_res :=
  match fuel with
  | O => CsFuel
  | S f =>
      let a' := wrap a in
      if valid_addr a' then
        let b := mget m a' in
        if b =? 0 then CsOk []
        else match spec_cstring f m (a + 1) with
             | CsOk t => CsOk ((b mod 128) :: t)
             | r => r
             end
      else CsFault a'
  end.

Inductive service := PrintInt | PrintFloat | PrintString | PrintChar | PrintHex | PrintBin | PrintUInt
                   | Exit0 | ExitArg.
(* the help page's table *)
Definition ecall_table : list (Z * service) :=
  [(1, PrintInt); (2, PrintFloat); (4, PrintString); (11, PrintChar); (34, PrintHex);
   (35, PrintBin); (36, PrintUInt); (10, Exit0); (93, ExitArg)].

Fixpoint find_service (t : list (Z * service)) (code : Z) : option service :=
  match t with
  | [] => None
  | (c, s) :: r => if code =? c then Some s else find_service r code
  end.

Inductive ecall_eff := EffPrint (t : str) | EffExit (c : Z) | EffFault (f : sfault).

Definition run_service (s : service) (m : zmap) (arg : Z) : ecall_eff :=
  match s with
  | PrintInt => EffPrint (str_dec (signed arg))
  | PrintFloat => EffPrint [-1; arg]                       (* float rendering: oracle *)
  | PrintString => match spec_cstring (S (length m)) m arg with
                   | CsOk t => EffPrint t
                   | CsFault x => EffFault (SFAddr x)
                   | CsFuel => EffFault SFFuel
                   end
  | PrintChar => EffPrint [arg mod 128]
  | PrintHex => EffPrint (48 :: 120 :: fmt_nat 16 arg)     (* "0x" + upper-case hex *)
  | PrintBin => EffPrint (48 :: 98 :: fmt_nat 2 arg)       (* "0b" + binary *)
  | PrintUInt => EffPrint (str_dec arg)
  | Exit0 => EffExit 0
  | ExitArg => EffExit arg
  end.

Definition spec_ecall (a : arch) : ecall_eff :=
  let code := rd_reg a 17 in
  let arg := rd_reg a 10 in
  match find_service ecall_table code with
  | Some s => run_service s (amem a) arg
  | None => EffFault (SFEcall code)
  end.

(** one instruction at pc [apc a]; result: new state (pc already advanced) and fault *)
Definition spec_exec (i : instr) (a : arch) : arch * option sfault :=
  let pc := apc a in
  let next := wrap (pc + 4) in
  match i with
  | IR o rd rs1 rs2 => (set_apc (wr_reg a rd (spec_r o (rd_reg a rs1) (rd_reg a rs2))) next, None)
  | II o rd rs1 imm => (set_apc (wr_reg a rd (spec_i o (rd_reg a rs1) imm)) next, None)
  | ISh o rd rs1 sh => (set_apc (wr_reg a rd (spec_sh o (rd_reg a rs1) sh)) next, None)
  | ILoad o rd rs1 imm =>
      match spec_load (amem a) (rd_reg a rs1 + imm) (lop_bytes o) with
      | inl v => (set_apc (wr_reg a rd (lop_value o v)) next, None)
      | inr f => (a, Some (SFAddr f))
      end
  | IStore o rs1 rs2 imm =>
      match spec_store (amem a) (rd_reg a rs1 + imm) (sop_bytes o) (rd_reg a rs2) with
      | (m', None) => (set_apc (set_amem a m') next, None)
      | (m', Some f) => (set_amem a m', Some (SFAddr f))
      end
  | IBranch o rs1 rs2 imm =>
      (set_apc a (if spec_cond o (rd_reg a rs1) (rd_reg a rs2) then wrap (pc + imm) else next), None)
  | IJal rd imm _ => (set_apc (wr_reg a rd next) (wrap (pc + imm)), None)
  | IJalr rd rs1 imm =>
      let target := 2 * (wrap (rd_reg a rs1 + imm) / 2) in      (* bit 0 cleared *)
      (set_apc (wr_reg a rd next) target, None)
  | ILui rd imm => (set_apc (wr_reg a rd (wrap (imm * 4096))) next, None)
  | IAuipc rd imm => (set_apc (wr_reg a rd (wrap (pc + imm * 4096))) next, None)
  | IEcall =>
      match spec_ecall a with
      | EffPrint t => (set_apc {| apc := apc a; areg := areg a; amem := amem a; aout := aout a ++ t; aexit := aexit a |} next, None)
      | EffExit c => (set_apc {| apc := apc a; areg := areg a; amem := amem a; aout := aout a; aexit := Some c |} next, None)
      | EffFault f => (a, Some f)
      end
  | IEbreak | IFence | ICsr _ _ _ _ | ICsri _ _ _ _ => (a, Some SFUnsupported)
  end.

(* instruction memory: instruction k at address 4k *)
Definition spec_fetch (p : list instr) (pc : Z) : option instr :=
  if (pc mod 4 =? 0) && (pc / 4 <? Z.of_nat (length p)) then nth_error p (Z.to_nat (pc / 4)) else None.

Definition spec_halted (p : list instr) (a : arch) : bool :=
  match aexit a with Some _ => true | None => match spec_fetch p (apc a) with Some _ => false | None => true end end.

Definition spec_step (p : list instr) (a : arch) : arch * option sfault :=
  if spec_halted p a then (a, None)
  else match spec_fetch p (apc a) with
       | Some i => spec_exec i a
       | None => (a, None)
       end.

Inductive spec_end := SDone | SFaulted (at_pc : Z) (f : sfault) | SOutOfFuel.

Fixpoint spec_run (fuel : nat) (p : list instr) (a : arch) : arch * spec_end :=
  match fuel with
  | O => (a, if spec_halted p a then SDone else SOutOfFuel)
  | S k =>
      if spec_halted p a then (a, SDone)
      else match spec_step p a with
           | (a', Some f) => (a', SFaulted (apc a) f)
           | (a', None) => spec_run k p a'
           end
  end.
