(* Spec/IsaRegs.v — which registers an RV32IM instruction names, straight from the RISC-V
   unprivileged ISA manual (instruction formats, chapter 2 and the Zicsr chapter); independent of
   the simulator's decode stage ([access_rf], [write_reg] of Model/RVSplit.v are NOT used).
   Only the syntax [instr] of Model/RV.v is imported.

     R-type (add ... remu)                 reads rs1, rs2      writes rd
     I-type ALU, shift-immediate           reads rs1           writes rd
     loads                                 reads rs1 (base)    writes rd
     jalr                                  reads rs1 (base)    writes rd (link)
     stores (S-type)                       reads rs1 (base), rs2 (data)    writes nothing
     branches (B-type)                     reads rs1, rs2                  writes nothing
     lui, auipc (U-type), jal (J-type)     read nothing        write rd
     ecall, ebreak, fence                  name no register (the environment call convention of
                                           the simulator reads a7 / a0, but that is the execution
                                           environment, not an operand of the instruction)
     csrrw / csrrs / csrrc                 read rs1            write rd
     csrrwi / csrrsi / csrrci              read nothing (5-bit immediate)  write rd *)
From ArchSim Require Import Model.Base Model.RV.
Open Scope Z_scope.

Definition isa_src1 (i : instr) : option Z :=
  match i with
  | IR _ _ rs1 _ | II _ _ rs1 _ | ISh _ _ rs1 _ | ILoad _ _ rs1 _ | IJalr _ rs1 _
  | IStore _ rs1 _ _ | IBranch _ rs1 _ _ | ICsr _ _ _ rs1 => Some rs1
  | ILui _ _ | IAuipc _ _ | IJal _ _ _ | IEcall | IEbreak | IFence | ICsri _ _ _ _ => None
  end.

Definition isa_src2 (i : instr) : option Z :=
  match i with
  | IR _ _ _ rs2 | IStore _ _ rs2 _ | IBranch _ _ rs2 _ => Some rs2
  | II _ _ _ _ | ISh _ _ _ _ | ILoad _ _ _ _ | IJalr _ _ _ | ILui _ _ | IAuipc _ _ | IJal _ _ _
  | IEcall | IEbreak | IFence | ICsr _ _ _ _ | ICsri _ _ _ _ => None
  end.

Definition isa_dst (i : instr) : option Z :=
  match i with
  | IR _ rd _ _ | II _ rd _ _ | ISh _ rd _ _ | ILoad _ rd _ _ | IJalr rd _ _
  | ILui rd _ | IAuipc rd _ | IJal rd _ _ | ICsr _ rd _ _ | ICsri _ rd _ _ => Some rd
  | IStore _ _ _ _ | IBranch _ _ _ _ | IEcall | IEbreak | IFence => None
  end.

Definition isa_is_ecall (i : instr) : bool := match i with IEcall => true | _ => false end.
Definition isa_is_jump (i : instr) : bool :=
  match i with IJal _ _ _ | IJalr _ _ _ => true | _ => false end.
Definition isa_is_csr (i : instr) : bool :=
  match i with ICsr _ _ _ _ | ICsri _ _ _ _ => true | _ => false end.

(* x0 is hard-wired to zero: reading it creates no dependency, writing it has no effect *)
Definition regs_read (i : instr) : list Z :=
  (match isa_src1 i with Some r => if r =? 0 then [] else [r] | None => [] end) ++
  (match isa_src2 i with Some r => if r =? 0 then [] else [r] | None => [] end).
Definition reg_written (i : instr) : option Z :=
  match isa_dst i with Some r => if r =? 0 then None else Some r | None => None end.
