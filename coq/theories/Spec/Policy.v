(* Spec/Policy.v — reference semantics of the cache replacement policies (property C10).
   Nothing here mentions the model's data structures except [run] (iterated [pol_access])
   and [heap_tree] (how a heap-ordered bit array is read as a tree). *)
From ArchSim Require Import Model.Base Model.Cache.
Open Scope Z_scope.

(** * Histories *)
(* state after the accesses h = [k1; k2; ...] performed left to right *)
Definition run (p : pol) (h : list Z) : pol := fold_left pol_access h p.
Definition in_range (n : Z) (h : list Z) : Prop := Forall (fun k => 0 <= k < n) h.

(** * LRU: recency order induced by a history *)
(* position (0-based, counted from the first access) of the LAST occurrence of block i *)
Fixpoint last_access (h : list Z) (i : Z) : option nat :=
  match h with
  | [] => None
  | x :: t =>
      match last_access t i with
      | Some p => Some (S p)
      | None => if x =? i then Some O else None
      end
  end.

(* i is replaced before j: never-accessed blocks first (by index), then by increasing last access *)
Definition older (h : list Z) (i j : Z) : Prop :=
  match last_access h i, last_access h j with
  | None, None => i < j
  | None, Some _ => True
  | Some _, None => False
  | Some a, Some b => (a < b)%nat
  end.

(** * PLRU: a complete binary tree of direction bits *)
Inductive ptree := Leaf | Node (b : bool) (l r : ptree).

Inductive complete : nat -> ptree -> Prop :=
| complete_leaf : complete O Leaf
| complete_node d b l r : complete d l -> complete d r -> complete (S d) (Node b l r).

Fixpoint tree_init (d : nat) : ptree :=
  match d with O => Leaf | S d' => Node false (tree_init d') (tree_init d') end.

(* follow the bits from the root: false -> left, true -> right; leaves numbered 0 .. 2^d-1 *)
Fixpoint tree_victim (d : nat) (t : ptree) : Z :=
  match d, t with
  | S d', Node b l r => if b then 2 ^ Z.of_nat d' + tree_victim d' r else tree_victim d' l
  | _, _ => 0
  end.

(* every node on the path to leaf k points AWAY from k afterwards; nothing else changes *)
Fixpoint tree_access (d : nat) (k : Z) (t : ptree) : ptree :=
  match d, t with
  | S d', Node b l r =>
      if k <? 2 ^ Z.of_nat d'
      then Node true (tree_access d' k l) r
      else Node false l (tree_access d' (k - 2 ^ Z.of_nat d') r)
  | _, _ => t
  end.

(* the tree stored in heap order in an array: node i has children 2i+1 and 2i+2 *)
Fixpoint heap_tree (bits : list bool) (d : nat) (i : Z) : ptree :=
  match d with
  | O => Leaf
  | S d' => Node (nthZ bits i false) (heap_tree bits d' (2 * i + 1)) (heap_tree bits d' (2 * i + 2))
  end.
