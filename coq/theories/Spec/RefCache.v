(* Spec/RefCache.v — reference set-associative cache for properties C09 (data cache accounting)
   and C11 (instruction cache).  TAGS ONLY: the reference holds no data.  The replacement
   policy functions [pol_init]/[pol_access]/[pol_victim] are reused from Model/Cache.v; their
   correctness (true LRU order, PLRU tree) is property C10.
   The last sections define how a model directory is read as a reference directory, the
   invariants the statements assume, and how histories of model operations are run. *)
From ArchSim Require Import Model.Base Model.Cache Model.RV.
Open Scope Z_scope.

(** * Geometry: tag and set index of an address (plain arithmetic, no bit operations) *)
(* address = tag | index (ibits) | word-in-block (bbits) | byte (2), taken modulo 2^32 *)
Definition ref_idx (g : ccfg) (a : Z) : Z := ((a mod 2 ^ 32) / 2 ^ (bbits g + 2)) mod 2 ^ ibits g.
Definition ref_tag (g : ccfg) (a : Z) : Z := (a mod 2 ^ 32) / 2 ^ (ibits g + bbits g + 2).

(* admissible geometries *)
Definition geom_ok (g : ccfg) : Prop :=
  0 <= ibits g /\ 0 <= bbits g /\ ibits g + bbits g + 2 <= 32 /\ 1 <= assoc g /\
  (plru g = true -> exists k : nat, assoc g = 2 ^ Z.of_nat k).

(** * One set: [assoc] ways, each empty or holding a tag, and a policy state *)
Record rset := { rtags : list (option Z); rpol : pol }.
Definition rdir := list rset.                  (* one entry per set index *)

Definition ref_init_set (g : ccfg) : rset :=
  {| rtags := repeat None (Z.to_nat (assoc g)); rpol := pol_init (plru g) (assoc g) |}.
Definition ref_init (g : ccfg) : rdir := repeat (ref_init_set g) (Z.to_nat (2 ^ ibits g)).

Definition ref_dummy : rset := {| rtags := []; rpol := LRU [] |}.

(* first way (numbered from i) that holds the tag *)
Fixpoint ref_way (ways : list (option Z)) (tag : Z) (i : Z) : option Z :=
  match ways with
  | [] => None
  | Some t :: rest => if t =? tag then Some i else ref_way rest tag (i + 1)
  | None :: rest => ref_way rest tag (i + 1)
  end.

(* hit iff some way of the indexed set holds the tag *)
Definition ref_lookup (r : rdir) (idx tag : Z) : bool :=
  existsb (fun w => match w with Some t => t =? tag | None => false end)
          (rtags (nthZ r idx ref_dummy)).

(* hit: the policy records an access to the hit way.
   miss, allocate: the policy's victim way receives the tag and is recorded as accessed.
   miss, no allocate: nothing changes. *)
Definition ref_set_touch (allocate : bool) (s : rset) (tag : Z) : rset :=
  match ref_way (rtags s) tag 0 with
  | Some w => {| rtags := rtags s; rpol := pol_access (rpol s) w |}
  | None =>
      if allocate then
        let v := pol_victim (rpol s) in
        {| rtags := set_nthZ (rtags s) v (Some tag); rpol := pol_access (rpol s) v |}
      else s
  end.
Definition ref_touch (allocate : bool) (r : rdir) (idx tag : Z) : rdir :=
  set_nthZ r idx (ref_set_touch allocate (nthZ r idx ref_dummy) tag).

(** * Counters *)
Record counters := { c_hits : Z; c_accesses : Z; c_lasthit : bool }.
Definition counters0 : counters := {| c_hits := 0; c_accesses := 0; c_lasthit := false |}.
Definition count (k : counters) (hit : bool) : counters :=
  {| c_hits := c_hits k + (if hit then 1 else 0); c_accesses := c_accesses k + 1; c_lasthit := hit |}.
Definition miss_penalty (pen : Z) (hit : bool) : Z := if hit then 0 else pen.

(** * Reference semantics of the data-cache operations *)
(* what the reference sees of an operation: the address and its kind, never the data *)
Inductive access :=
| ARead (a : Z) (counted : bool)       (* counted = false: inspection read *)
| AWrite (a : Z) (direct : bool).      (* direct = true: parser preload, bypasses the cache *)

Record rcache := { r_dir : rdir; r_cnt : counters }.
Definition rcache_init (g : ccfg) : rcache := {| r_dir := ref_init g; r_cnt := counters0 |}.

(* g: geometry; wt: write-through/no-write-allocate (true) or write-back/write-allocate (false);
   pen: miss penalty.  Result: new reference state and the cycles added by this operation. *)
Definition ref_step (g : ccfg) (wt : bool) (pen : Z) (r : rcache) (x : access) : rcache * Z :=
  match x with
  | ARead a counted =>
      let hit := ref_lookup (r_dir r) (ref_idx g a) (ref_tag g a) in
      let dir' := ref_touch true (r_dir r) (ref_idx g a) (ref_tag g a) in
      if counted then ({| r_dir := dir'; r_cnt := count (r_cnt r) hit |}, miss_penalty pen hit)
      else ({| r_dir := dir'; r_cnt := r_cnt r |}, 0)
  | AWrite a true => (r, 0)
  | AWrite a false =>
      let hit := ref_lookup (r_dir r) (ref_idx g a) (ref_tag g a) in
      ({| r_dir := ref_touch (negb wt) (r_dir r) (ref_idx g a) (ref_tag g a);
          r_cnt := count (r_cnt r) hit |}, miss_penalty pen hit)
  end.

(* counters after, and penalty of, every operation of a history *)
Fixpoint ref_run (g : ccfg) (wt : bool) (pen : Z) (r : rcache) (xs : list access)
  : list (counters * Z) :=
  match xs with
  | [] => []
  | x :: t => let '(r', p) := ref_step g wt pen r x in (r_cnt r', p) :: ref_run g wt pen r' t
  end.

(** * Reference semantics of the instruction cache: every fetch is a counted, allocating read *)
Definition ref_fetch (g : ccfg) (pen : Z) (r : rcache) (a : Z) : rcache * Z :=
  ref_step g false pen r (ARead a true).
Definition ref_fetch_run (g : ccfg) (pen : Z) (r : rcache) (addrs : list Z) : list (counters * Z) :=
  ref_run g false pen r (map (fun a => ARead a true) addrs).

(** * Reading a model directory as a reference directory *)
Section Abstraction.
  Context {T : Type}.
  (* a valid block is its tag; an invalid block is an empty way; data, dirty bit, block address
     are forgotten *)
  Definition abs_block (b : cblock T) : option Z := if valid b then Some (btag b) else None.
  Definition abs_set (s : cset T) : rset :=
    {| rtags := map abs_block (blocks s); rpol := policy s |}.
  Definition abs_dir (c : cache T) : rdir := map abs_set (sets c).
End Abstraction.

(* data cache *)
Definition tags_of (d : dcache) : rdir := abs_dir (dc d).
Definition counters_of (d : dcache) : counters :=
  {| c_hits := hits d; c_accesses := accesses d; c_lasthit := lasthit d |}.
Definition ref_of (d : dcache) : rcache := {| r_dir := tags_of d; r_cnt := counters_of d |}.

(** * Invariant of a model cache (any value type) *)
Section Invariant.
  Context {T : Type}.
  (* LRU: the order list is a duplicate-free enumeration of the ways 0 .. n-1.
     PLRU: the tree was built for the configured associativity, which is a power of two;
     nothing is required of the bit array. *)
  Definition pol_wf (n : Z) (p : pol) : Prop :=
    match p with
    | LRU o => NoDup o /\ forall x, In x o <-> 0 <= x < n
    | PLRU a _ => a = n /\ exists k : nat, n = 2 ^ Z.of_nat k
    end.
  Definition set_wf (g : ccfg) (s : cset T) : Prop :=
    length (blocks s) = Z.to_nat (assoc g) /\ pol_wf (assoc g) (policy s).
  (* as many sets as index values, [assoc] ways each, policies well formed; nothing about
     tags, data, dirty bits or the lower memory *)
  Definition CInv (c : cache T) : Prop :=
    0 <= ibits (cfg c) /\ 0 <= bbits (cfg c) /\ 1 <= assoc (cfg c) /\
    length (sets c) = Z.to_nat (2 ^ ibits (cfg c)) /\
    Forall (set_wf (cfg c)) (sets c).
End Invariant.

Definition DInv (d : dcache) : Prop := CInv (dc d).

(** * Histories of data-cache operations on the model *)
Inductive dop :=
| DRead (nbits a : Z) (counted : bool)
| DWrite (nbits a v : Z) (direct : bool).
Definition acc_of (o : dop) : access :=
  match o with DRead _ a counted => ARead a counted | DWrite _ a _ direct => AWrite a direct end.

(* one operation: (accepted?, new state, cycle penalty) *)
Definition dc_step (d : dcache) (o : dop) : bool * dcache * Z :=
  match o with
  | DRead nbits a counted =>
      let '(r, d', p) := dc_read d nbits a counted in
      (match r with Ok _ => true | Err _ => false end, d', p)
  | DWrite nbits a v direct =>
      let '(e, d', p) := dc_write d nbits a v direct in
      (match e with None => true | Some _ => false end, d', p)
  end.

(* counters after, and penalty of, every operation *)
Fixpoint dc_run (d : dcache) (os : list dop) : list (counters * Z) :=
  match os with
  | [] => []
  | o :: t => let '(_, d', p) := dc_step d o in (counters_of d', p) :: dc_run d' t
  end.
Fixpoint dc_after (d : dcache) (os : list dop) : dcache :=
  match os with [] => d | o :: t => dc_after (snd (fst (dc_step d o))) t end.
Fixpoint all_accepted (d : dcache) (os : list dop) : Prop :=
  match os with
  | [] => True
  | o :: t => fst (fst (dc_step d o)) = true /\ all_accepted (snd (fst (dc_step d o))) t
  end.

(** * Instruction cache *)
Definition icounters_of (c : icache) : counters :=
  {| c_hits := ihits c; c_accesses := iaccesses c; c_lasthit := ilasthit c |}.
Definition iref_of (c : icache) : rcache := {| r_dir := abs_dir (ic c); r_cnt := icounters_of c |}.

(* first byte address of the block with this tag in this set *)
Definition block_base (g : ccfg) (tag idx : Z) : Z := (tag * 2 ^ ibits g + idx) * 2 ^ (bbits g + 2).

(* every valid block holds exactly the instructions (or empty slots) of the program at its
   block address, and its block address is the one its tag and set index denote *)
Definition IInv (im : imem) : Prop :=
  match icc im with
  | None => True
  | Some c =>
      let g := cfg (ic c) in
      0 <= ibits g /\ 0 <= bbits g /\
      forall (i : nat) s b, nth_error (sets (ic c)) i = Some s -> In b (blocks s) -> valid b = true ->
        baddr b = block_base g (btag b) (Z.of_nat i) /\
        vals b = iread_block (prog im) (baddr b) (Z.to_nat (2 ^ bbits g))
  end.

(* fetch a list of addresses: per fetch (instruction returned, cycle penalty) *)
Fixpoint im_run (im : imem) (addrs : list Z) : list (option instr * Z) :=
  match addrs with
  | [] => []
  | a :: t => let '(i, im', p) := im_read im a in (i, p) :: im_run im' t
  end.
Fixpoint im_after (im : imem) (addrs : list Z) : imem :=
  match addrs with [] => im | a :: t => im_after (snd (fst (im_read im a))) t end.
(* instruction-cache counters after every fetch (only meaningful with a cache) *)
Fixpoint im_counters (im : imem) (addrs : list Z) : list counters :=
  match addrs with
  | [] => []
  | a :: t =>
      let im' := snd (fst (im_read im a)) in
      match icc im' with Some c => icounters_of c | None => counters0 end :: im_counters im' t
  end.
