(* Spec/RefCache.v — reference set-associative cache for properties C09 (data cache accounting)
   and C11 (instruction cache).  TAGS ONLY: the reference holds no data.  The replacement
   policy functions [pol_init]/[pol_access]/[pol_victim] are reused from Model/Cache.v; their
   correctness (true LRU order, PLRU tree) is property C10.
   The last section defines how a model directory is read as a reference directory. *)
From ArchSim Require Import Model.Base Model.Cache.
Open Scope Z_scope.

(** * Geometry: tag and set index of an address (plain arithmetic, no bit operations) *)
(* address = tag | index (ibits) | word-in-block (bbits) | byte (2), taken modulo 2^32 *)
Definition ref_idx (g : ccfg) (a : Z) : Z := ((a mod 2 ^ 32) / 2 ^ (bbits g + 2)) mod 2 ^ ibits g.
Definition ref_tag (g : ccfg) (a : Z) : Z := (a mod 2 ^ 32) / 2 ^ (ibits g + bbits g + 2).

(* admissible geometries *)
Definition geom_ok (g : ccfg) : Prop :=
  0 <= ibits g /\ 0 <= bbits g /\ ibits g + bbits g + 2 <= 32 /\ 1 <= assoc g /\
  (plru g = true -> exists k : nat, assoc g = 2 ^ Z.of_nat k).

(** * One set: [assoc] ways, each empty or holding a tag, and a policy state *)
Record rset := { rtags : list (option Z); rpol : pol }.
Definition rdir := list rset.                  (* one entry per set index *)

Definition ref_init_set (g : ccfg) : rset :=
  {| rtags := repeat None (Z.to_nat (assoc g)); rpol := pol_init (plru g) (assoc g) |}.
Definition ref_init (g : ccfg) : rdir := repeat (ref_init_set g) (Z.to_nat (2 ^ ibits g)).

Definition ref_dummy : rset := {| rtags := []; rpol := LRU [] |}.

(* first way (numbered from i) that holds the tag *)
Fixpoint ref_way (ways : list (option Z)) (tag : Z) (i : Z) : option Z :=
  match ways with
  | [] => None
  | Some t :: rest => if t =? tag then Some i else ref_way rest tag (i + 1)
  | None :: rest => ref_way rest tag (i + 1)
  end.

(* hit iff some way of the indexed set holds the tag *)
Definition ref_lookup (r : rdir) (idx tag : Z) : bool :=
  existsb (fun w => match w with Some t => t =? tag | None => false end)
          (rtags (nthZ r idx ref_dummy)).

(* hit: the policy records an access to the hit way.
   miss, allocate: the policy's victim way receives the tag and is recorded as accessed.
   miss, no allocate: nothing changes. *)
Definition ref_set_touch (allocate : bool) (s : rset) (tag : Z) : rset :=
  match ref_way (rtags s) tag 0 with
  | Some w => {| rtags := rtags s; rpol := pol_access (rpol s) w |}
  | None =>
      if allocate then
        let v := pol_victim (rpol s) in
        {| rtags := set_nthZ (rtags s) v (Some tag); rpol := pol_access (rpol s) v |}
      else s
  end.
Definition ref_touch (allocate : bool) (r : rdir) (idx tag : Z) : rdir :=
  set_nthZ r idx (ref_set_touch allocate (nthZ r idx ref_dummy) tag).

(** * Counters *)
Record counters := { c_hits : Z; c_accesses : Z; c_lasthit : bool }.
Definition counters0 : counters := {| c_hits := 0; c_accesses := 0; c_lasthit := false |}.
Definition count (k : counters) (hit : bool) : counters :=
  {| c_hits := c_hits k + (if hit then 1 else 0); c_accesses := c_accesses k + 1; c_lasthit := hit |}.
Definition miss_penalty (pen : Z) (hit : bool) : Z := if hit then 0 else pen.

(** * Reference semantics of the data-cache operations *)
(* what the reference sees of an operation: the address and its kind, never the data *)
Inductive access :=
| ARead (a : Z) (counted : bool)       (* counted = false: inspection read *)
| AWrite (a : Z) (direct : bool).      (* direct = true: parser preload, bypasses the cache *)

Record rcache := { r_dir : rdir; r_cnt : counters }.
Definition rcache_init (g : ccfg) : rcache := {| r_dir := ref_init g; r_cnt := counters0 |}.

(* g: geometry; wt: write-through/no-write-allocate (true) or write-back/write-allocate (false);
   pen: miss penalty.  Result: new reference state and the cycles added by this operation. *)
Definition ref_step (g : ccfg) (wt : bool) (pen : Z) (r : rcache) (x : access) : rcache * Z :=
  match x with
  | ARead a counted =>
      let hit := ref_lookup (r_dir r) (ref_idx g a) (ref_tag g a) in
      let dir' := ref_touch true (r_dir r) (ref_idx g a) (ref_tag g a) in
      if counted then ({| r_dir := dir'; r_cnt := count (r_cnt r) hit |}, miss_penalty pen hit)
      else ({| r_dir := dir'; r_cnt := r_cnt r |}, 0)
  | AWrite a true => (r, 0)
  | AWrite a false =>
      let hit := ref_lookup (r_dir r) (ref_idx g a) (ref_tag g a) in
      ({| r_dir := ref_touch (negb wt) (r_dir r) (ref_idx g a) (ref_tag g a);
          r_cnt := count (r_cnt r) hit |}, miss_penalty pen hit)
  end.

(* counters after, and penalty of, every operation of a history *)
Fixpoint ref_run (g : ccfg) (wt : bool) (pen : Z) (r : rcache) (xs : list access)
  : list (counters * Z) :=
  match xs with
  | [] => []
  | x :: t => let '(r', p) := ref_step g wt pen r x in (r_cnt r', p) :: ref_run g wt pen r' t
  end.

(** * Reference semantics of the instruction cache: every fetch is a counted, allocating read *)
Definition ref_fetch (g : ccfg) (pen : Z) (r : rcache) (a : Z) : rcache * Z :=
  ref_step g false pen r (ARead a true).
Definition ref_fetch_run (g : ccfg) (pen : Z) (r : rcache) (addrs : list Z) : list (counters * Z) :=
  ref_run g false pen r (map (fun a => ARead a true) addrs).

(** * Reading a model directory as a reference directory *)
Section Abstraction.
  Context {T : Type}.
  (* a valid block is its tag; an invalid block is an empty way; data, dirty bit, block address
     are forgotten *)
  Definition abs_block (b : cblock T) : option Z := if valid b then Some (btag b) else None.
  Definition abs_set (s : cset T) : rset :=
    {| rtags := map abs_block (blocks s); rpol := policy s |}.
  Definition abs_dir (c : cache T) : rdir := map abs_set (sets c).
End Abstraction.

(* data cache *)
Definition tags_of (d : dcache) : rdir := abs_dir (dc d).
Definition counters_of (d : dcache) : counters :=
  {| c_hits := hits d; c_accesses := accesses d; c_lasthit := lasthit d |}.
Definition ref_of (d : dcache) : rcache := {| r_dir := tags_of d; r_cnt := counters_of d |}.
