(* Extract.v — extraction of the executable model to OCaml.
   Only ExtrOcamlBasic (bool, option, unit, prod, list, sumbool mapped to OCaml's);
   Z, positive, nat stay the inductive types; no Extract Constant. *)
From Coq Require Import Extraction ExtrOcamlBasic.
From ArchSim Require Import Model.Main Model.MainSpec.
Extraction Language OCaml.
Extraction "model.ml" MainSpec.dispatch_all Main.dispatch Base.U.
