(* Props/C07SchedPrefixCaches.v — the prefix and fault forms of the timing theorem of property C07
   (Props/C07SchedPrefix.v) "for all cache configurations and miss penalties": programs that never
   terminate and programs that fault, with ANY data cache (write-back / write-through, LRU / PLRU,
   any legal geometry, any penalty, or flat memory) and ANY instruction cache (or none).  Only
   statements; proofs in Proofs/SchedPrefixCache*.v.

   Hypotheses: [cwf s] (Props/C02Caches.v; holds for the initial state of every configuration,
   [cwf_init]); supported program.  The reference is the single-cycle run WITH THE SAME CACHES:
   [sched_list n s] = combine (single_trace n s) (schedule (single_events n s)), [fault_cycle n s]
   (Proofs/SchedPrefixMain.v) — computed from the instructions that run executed and from the state
   at which it stopped.  A cache may reject a word-crossing access that flat memory answers
   (Props/C03Programs.v): the cached run then ends [Faulted] at an instruction at which the flat run
   goes on.  [sched_list_flat_prefix]: the cached run executes a prefix of what the flat run executes
   — same events, same addresses, hence the same write-back cycles (the recurrence is prefix-stable)
   — so the schedule of the flat run applies up to the rejecting instruction, and the theorems below
   say that the pipeline follows it up to the step at which it raises the rejection.

   [pipe_schedule_prefix_caches]: for every fuel n of the single-cycle run and every number c of
   pipeline STEPS the retirements made within c steps are exactly the entries of the schedule with
   write-back step <= c —
     Done        for every c;
     OutOfFuel   for every c with c + 6 <= n; the pipeline is still running after c steps;
     Faulted f   (any fault, a cache rejection included) for every c before the fault step; the
                 pipeline is still running;
   in the last two cases the cycle counter after the c steps reads
     cycles s + c + ipen * (instruction-cache misses so far) + dpen * (data-cache misses so far)
   (misses = accesses - hits; [pipe_cycles_prefix_caches] is the same law for every fuel and every
   outcome, with the number of steps actually made).
   [pipe_schedule_fault_caches]: if the cached single-cycle run faults with record f — of ANY kind:
   address error, unknown ecall, or a rejection by the cache — the pipeline raises f at step
   [fault_cycle n s]: the execute step of the faulting instruction by the documented recurrence if it
   is an ecall, its memory step otherwise (a load / store — also a rejected one — raises in MEM); it
   has then recorded exactly the retirements with write-back step < that step; its retire counter is
   one short of the single-cycle one; the cycle counter obeys the same law; every fuel that reaches
   the fault gives the same state, record and retire list.

   How (Proofs/SchedPrefixCacheLink.v, SchedPrefixCacheRun.v): N = the number of ordinary steps of
   the cached single-cycle run; the flat run makes them too, and nothing is assumed about its step N.
   The flattened pipeline is kept in a "cut" form of the timing invariant of Proofs/SchedLink.v in
   which instruction N is marked as redirecting (everything younger is ignored) for as long as N has
   not left EX; the cached pipeline is in lockstep with it ([sim_pipe_step]); a fault of the cached
   pipeline is the fault of the cached single-cycle machine at the instruction behind latch 3
   ([Lift2Run.fault_step]), which can only be N; a rejection is raised by MEM on the slot of latch 2,
   whose execute step the invariant knows. *)
From ArchSim Require Import Spec.RefCache.
From ArchSim Require Import Model.Base Model.Mem Model.Cache Model.Fmt Model.RV Model.Single
  Model.RVSplit Model.Pipe Proofs.CacheArith Proofs.CacheInv Proofs.C01Step Proofs.SplitExec
  Proofs.PipeLaws Proofs.PipeInv Proofs.LiftSim Proofs.LiftSingle Proofs.LiftPipe Proofs.LiftPipeRun
  Proofs.LiftRefine Proofs.SchedDefs Proofs.SchedCor Proofs.SchedCache Proofs.SchedPrefixMain
  Proofs.SchedPrefixCacheMain Props.C02Caches.
Open Scope Z_scope.

Theorem pipe_cycles_prefix_caches : forall s c,
  let p0 := pipe_init s true in let p := fst (pipe_run c p0) in
  cycles (pst p) = cycles s + Z.of_nat (pipe_run_steps c p0)
                   + ipen s * ((iacc (pst p) - iacc s) - (ihit (pst p) - ihit s))
                   + dpen s * ((dacc (pst p) - dacc s) - (dhit (pst p) - dhit s)).
Proof. exact pipe_cycles_prefix_caches_lem. Qed.
Print Assumptions pipe_cycles_prefix_caches.

Theorem sched_list_flat_prefix : forall n s, cache_ok s ->
  let k := length (single_trace n s) in
  sched_list n s = firstn k (sched_list n (flatten s)) /\
  single_events n s = firstn k (single_events n (flatten s)) /\
  single_trace n s = firstn k (single_trace n (flatten s)).
Proof. exact sched_list_flat_prefix_lem. Qed.
Print Assumptions sched_list_flat_prefix.

Theorem pipe_schedule_prefix_caches : forall s n c,
  cwf s -> Forall (fun i => supported i = true) (prog (im s)) ->
  let p0 := pipe_init s true in let p := fst (pipe_run c p0) in
  let running :=
    pipe_retire c p0 = filter (fun aw => (snd aw <=? c)%nat) (sched_list n s) /\
    snd (pipe_run c p0) = POutOfFuel /\ pipe_run_steps c p0 = c /\
    cycles (pst p) = cycles s + Z.of_nat c
                     + ipen s * ((iacc (pst p) - iacc s) - (ihit (pst p) - ihit s))
                     + dpen s * ((dacc (pst p) - dacc s) - (dhit (pst p) - dhit s)) in
  match snd (single_run n s) with
  | Done => pipe_retire c p0 = filter (fun aw => (snd aw <=? c)%nat) (sched_list n s)
  | OutOfFuel => (c + 6 <= n)%nat -> running
  | Faulted f => (c < fault_cycle n s)%nat -> running
  end.
Proof. exact pipe_schedule_prefix_caches_lem. Qed.
Print Assumptions pipe_schedule_prefix_caches.

Theorem pipe_schedule_fault_caches : forall s n s' f,
  cwf s -> Forall (fun i => supported i = true) (prog (im s)) ->
  single_run n s = (s', Faulted f) ->
  let cf := fault_cycle n s in let p0 := pipe_init s true in
  exists p, pipe_run cf p0 = (p, PFaulted f) /\ pipe_run_steps cf p0 = cf /\
    pipe_retire cf p0 = filter (fun aw => (snd aw <? cf)%nat) (sched_list n s) /\
    icount (pst p) + 1 = icount s' /\
    cycles (pst p) = cycles s + Z.of_nat cf
                     + ipen s * ((iacc (pst p) - iacc s) - (ihit (pst p) - ihit s))
                     + dpen s * ((dacc (pst p) - dacc s) - (dhit (pst p) - dhit s)) /\
    (forall c q g, pipe_run c p0 = (q, PFaulted g) ->
       g = f /\ q = p /\ pipe_retire c p0 = pipe_retire cf p0).
Proof. exact pipe_schedule_fault_caches_lem. Qed.
Print Assumptions pipe_schedule_fault_caches.

(** ** Non-vacuity *)
(* data cache: one set, two ways, one word per block, PLRU, penalty 10; instruction cache: direct
   mapped, two sets of two words, penalty 5 *)
Definition pc_dg : ccfg := {| ibits := 0; bbits := 0; assoc := 2; plru := true |}.
Definition pc_ig : ccfg := {| ibits := 1; bbits := 1; assoc := 1; plru := false |}.

(* a cache rejection behind two retired instructions: the lh at offset 3 crosses a word, the cache
   refuses it, flat memory answers it (the flat run goes on to the end of the program).  The lh
   waits for x6 (execute step 7, memory step 8): the pipeline raises at step 8, both older
   instructions have written back (steps 5 and 6); 8 steps + 5 * 2 + 10 * 1 cycles *)
Definition pc_rej : list instr := [ILui 6 4; II ADDI 1 0 7; ILoad LH 2 6 3; II ADDI 5 0 1].
Definition pc_rej_st (wt : bool) : st :=
  init_st pc_rej (MCache (dcache_init pc_dg wt 10)) (mk_icache (Some (pc_ig, 5))).
Example pc_rej_hyps : forall wt, cwf (pc_rej_st wt) /\ Forall (fun i => supported i = true) pc_rej.
Proof.
  intros wt. split.
  - apply (cwf_init pc_rej pc_dg wt 10 (Some (pc_ig, 5))).
    + unfold cfg_ok, pc_dg. cbn. repeat split; try discriminate. intros _. exists 1%nat. reflexivity.
    + unfold pc_rej. repeat (apply Forall_cons; [unfold wf_instr, reg_ok; repeat split; discriminate|]).
      apply Forall_nil.
    + cbn. discriminate.
    + cbn. split; discriminate.
  - unfold pc_rej. repeat (apply Forall_cons; [reflexivity|]). apply Forall_nil.
Qed.
Example pc_rej_runs : forall wt,
  let s := pc_rej_st wt in let p0 := pipe_init s true in
  let f := mkfault 8 (ILoad LH 2 6 3) (EOffset 3 2) in
  snd (single_run 40 s) = Faulted f /\ snd (single_run 40 (flatten s)) = Done /\
  fault_cycle 40 s = 8%nat /\ sched_list 40 s = zn [(0, 5); (4, 6)] /\
  sched_list 40 (flatten s) = zn [(0, 5); (4, 6); (8, 9); (12, 10)] /\
  snd (pipe_run 8 p0) = PFaulted f /\ snd (pipe_run 7 p0) = POutOfFuel /\
  pipe_retire 8 p0 = zn [(0, 5); (4, 6)] /\ pipe_retire 5 p0 = zn [(0, 5)] /\
  icount (pst (fst (pipe_run 8 p0))) = 2 /\ icount (fst (single_run 40 s)) = 3 /\
  cycles (pst (fst (pipe_run 8 p0))) = 28 /\
  (iacc (pst (fst (pipe_run 8 p0))), ihit (pst (fst (pipe_run 8 p0)))) = (4, 2) /\
  (dacc (pst (fst (pipe_run 8 p0))), dhit (pst (fst (pipe_run 8 p0)))) = (1, 0).
Proof. intros [|]; vm_compute; repeat split. Qed.

(* the rejected lh directly behind its predecessor: it raises in the step in which the predecessor
   writes back (step 10); the retirements recorded are those with write-back step < 10 *)
Definition pc_rej2 : list instr :=
  [ILui 6 4; II ADDI 1 0 7; IStore SW 6 1 0; II ADDI 3 0 1; ILoad LH 2 6 3; II ADDI 5 0 1].
Example pc_rej2_runs : forall wt,
  let s := init_st pc_rej2 (MCache (dcache_init pc_dg wt 10)) (mk_icache (Some (pc_ig, 5))) in
  let p0 := pipe_init s true in let f := mkfault 16 (ILoad LH 2 6 3) (EOffset 3 2) in
  snd (single_run 40 s) = Faulted f /\ fault_cycle 40 s = 10%nat /\
  sched_list 40 s = zn [(0, 5); (4, 6); (8, 9); (12, 10)] /\
  snd (pipe_run 10 p0) = PFaulted f /\ pipe_retire 10 p0 = zn [(0, 5); (4, 6); (8, 9)] /\
  icount (pst (fst (pipe_run 10 p0))) = 4 /\ icount (fst (single_run 40 s)) = 5.
Proof. intros [|]; vm_compute; repeat split. Qed.

(* a loop that never ends, with an instruction cache smaller than the loop (one set, two ways of one
   word, LRU; the loop has three instructions): every fetch misses.  The first 30 steps of the
   pipeline against the schedule of 40 instructions; 16 fetches, no hit: 30 + 5 * 16 cycles *)
Definition pc_loop : list instr := [II ADDI 1 1 1; II ADDI 2 1 0; IJal 0 (-8) 0; II ADDI 3 0 1].
Definition pc_loop_ig : ccfg := {| ibits := 0; bbits := 0; assoc := 2; plru := false |}.
Definition pc_loop_st : st :=
  init_st pc_loop (MCache (dcache_init pc_dg false 10)) (mk_icache (Some (pc_loop_ig, 5))).
Example pc_loop_hyps :
  cwf pc_loop_st /\ Forall (fun i => supported i = true) pc_loop /\
  snd (single_run 40 pc_loop_st) = OutOfFuel /\ snd (single_run 400 pc_loop_st) = OutOfFuel.
Proof.
  split; [|split; [|split; vm_compute; reflexivity]].
  - apply (cwf_init pc_loop pc_dg false 10 (Some (pc_loop_ig, 5))).
    + unfold cfg_ok, pc_dg. cbn. repeat split; try discriminate. intros _. exists 1%nat. reflexivity.
    + unfold pc_loop. repeat (apply Forall_cons; [unfold wf_instr, reg_ok; repeat split; discriminate|]).
      apply Forall_nil.
    + cbn. discriminate.
    + cbn. split; discriminate.
  - unfold pc_loop. repeat (apply Forall_cons; [reflexivity|]). apply Forall_nil.
Qed.
Example pc_loop_runs :
  let s := pc_loop_st in let p0 := pipe_init s true in let p := fst (pipe_run 30 p0) in
  pipe_retire 30 p0 = filter (fun aw => (snd aw <=? 30)%nat) (sched_list 40 s) /\
  pipe_retire 30 p0 =
    zn [(0, 5); (4, 8); (8, 9); (0, 13); (4, 16); (8, 17); (0, 21); (4, 24); (8, 25); (0, 29)] /\
  snd (pipe_run 30 p0) = POutOfFuel /\ length (sched_list 40 s) = 40%nat /\
  cycles (pst p) = 110 /\ iacc (pst p) = 16 /\ ihit (pst p) = 0.
Proof. vm_compute. repeat split. Qed.
