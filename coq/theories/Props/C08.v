(* Props/C08.v — property C08 (phase A: the local laws of the pipeline model):
   "With hazard detection disabled the five-stage pipeline behaves as an interlock-free
    pipeline: every instruction reads its source registers in decode and observes exactly the
    register writes of the instructions that have completed write-back by that cycle, so a
    consumer fewer than three slots behind its producer reads the old value, while control
    hazards and ecall draining are still handled.  Hence any program whose register dependencies
    are all at least three instructions apart computes the same results as single-cycle mode,
    and no decode-stage stall is ever inserted."

   Only statements; every proof is [exact <lemma>] into Proofs/PipeLaws.v / Proofs/PipeShape.v.
   Proved here: the flag never changes; with the flag off the decode stage never raises a stall
   signal, the only stall that can start is an ecall drain, and the stall counter moves only for an
   ecall in EX that still sees older instructions; the operands latched by decode are read from the
   register file as left by the write-back stage of the same cycle.  (The refinement of the
   delayed-write-back interpreter is phase B.)

   Vocabulary: see Props/C07.v.  Additionally
     id_input p     the slot the decode stage works on in this cycle: latch IF, or the skid copy
                    while the pipeline is stalled
     wb_regs l s    the register file after the WB stage has processed latch l in state s
     access_rf i s  (rs1 index, rs2 index, rs1 value, rs2 value, immediate) of instruction i read
                    in state s                                                 [Model/RVSplit.v]
     ex_busy y l2 l3   the drain condition of an ecall slot y in EX: the MEM input l2 (ignored
                    for a skid copy) or the WB input l3 is still occupied *)
From ArchSim Require Import Model.Base Model.Mem Model.Cache Model.Fmt Model.RV Model.Single
  Model.RVSplit Model.Pipe Proofs.PipeLaws Proofs.PipeShape.
Open Scope Z_scope.

(** ** 1. The flag is a constant of the run *)
Theorem hazards_flag_constant : forall p, hazards (fst (pipe_step p)) = hazards p.
Proof. exact PipeLaws.hazards_flag_constant. Qed.
Print Assumptions hazards_flag_constant.

Theorem hazards_flag_constant_iter : forall n p, hazards (pipe_iter n p) = hazards p.
Proof. exact hazards_constant_iter. Qed.
Print Assumptions hazards_flag_constant_iter.

(** ** 2. No decode-stage stall is ever inserted *)

(* the decode stage itself: for every view of the latches and every state *)
Theorem nohaz_stage_id_no_stall : forall regs s, has_stall (stage_id false regs 0 s) = false.
Proof. exact PipeLaws.nohaz_stage_id_no_stall. Qed.
Print Assumptions nohaz_stage_id_no_stall.

(* one step from any state whose latch IF carries no stall flag (true of every reachable state):
   latch ID of the result carries no stall signal and the only stall that can start is that of
   stage 2 (EX: an ecall drain) *)
Theorem nohaz_no_id_stall : forall p next s f, hazards p = false ->
  has_stall (lat_at (lat p) 0) = false -> run_stages (bump p) = (next, s, f) ->
  has_stall (lat_at next 1) = false /\
  (new_stall next (stalled p) = None \/ new_stall next (stalled p) = Some 2).
Proof. exact nohaz_new_stall. Qed.
Print Assumptions nohaz_no_id_stall.

(* the same on reachable states, side condition discharged by the shape invariant *)
Theorem nohaz_no_id_stall_reachable : forall (IM : imem -> Prop) p next s f, Shape IM p ->
  hazards p = false -> run_stages (bump p) = (next, s, f) ->
  has_stall (lat_at next 1) = false /\
  (new_stall next (stalled p) = None \/ new_stall next (stalled p) = Some 2).
Proof. exact nohaz_no_id_stall_reach. Qed.
Print Assumptions nohaz_no_id_stall_reachable.

(* the stall counter moves only in a cycle in which the EX input is an ecall that still sees an
   older instruction in the MEM / WB inputs: ecall draining is still handled, nothing else stalls *)
Theorem nohaz_stalls_only_ecall : forall (IM : imem -> Prop) p, Shape IM p -> hazards p = false ->
  stalls (pst (fst (pipe_step p))) <> stalls (pst p) ->
  stalled p = None /\
  exists y, lat_at (lat p) 1 = Some y /\ sl_instr y = IEcall /\
            ex_busy y (lat_at (lat p) 2) (lat_at (lat p) 3) = true.
Proof. exact nohaz_stalls_only_ecall_reach. Qed.
Print Assumptions nohaz_stalls_only_ecall.

(** ** 3. Decode observes exactly the writes that have completed write-back by that cycle *)

(* In every cycle (stalled or not) the slot written to latch ID is the decode of its input
   against the register file as it is AFTER this cycle's WB stage: write-before-read inside a
   cycle; with the flag off nothing else (no interlock, no forwarding) intervenes, so the
   operands are those of the instructions retired so far — a producer still in EX / MEM / WB
   input is not seen. *)
Theorem nohaz_reads_completed_writes : forall (IM : imem -> Prop) p next s y, Shape IM p ->
  run_stages (bump p) = (next, s, None) -> id_input p = Some y ->
  exists z, lat_at next 1 = Some z /\ sl_instr z = sl_instr y /\ sl_addr z = sl_addr y /\
    (sl_ra1 z, sl_ra2 z, sl_rd1 z, sl_rd2 z, sl_imm z) =
      access_rf (sl_instr y) (with_regs (pst p) (wb_regs (lat_at (lat p) 3) (pst p))) /\
    (hazards p = false -> sl_stall z = false).
Proof. exact reads_completed_writes. Qed.
Print Assumptions nohaz_reads_completed_writes.

(* the register file WB leaves behind: the write of the slot in latch MEM and nothing else *)
Theorem wb_regs_spec : forall x s n s2, wb_on x s = (n, s2, None) -> regs s2 = wb_regs x s.
Proof. exact wb_on_regs. Qed.
Print Assumptions wb_regs_spec.

(** ** Non-vacuity *)
Definition obs (p : pstate) := (cycles (pst p), icount (pst p), stalls (pst p), flushes (pst p)).

(* a consumer one slot behind its producer reads the old value: x2 = x1 + x1 sees x1 = 0 and the
   run takes 3 + 4 cycles without a stall; with the flag on it takes 9 cycles and x2 = 10 *)
Definition hz_prog := [II ADDI 1 0 5; IR ADD 2 1 1; II ADDI 3 0 1].
Example nohaz_stale_read_ex :
  let r := fst (pipe_run 100 (pipe_init (init_st hz_prog (MFlat []) None) false)) in
  obs r = (7, 3, 0, 0) /\ rget (pst r) 1 = 5 /\ rget (pst r) 2 = 0.
Proof. vm_compute. repeat split; reflexivity. Qed.
Example haz_on_ex :
  let r := fst (pipe_run 100 (pipe_init (init_st hz_prog (MFlat []) None) true)) in
  obs r = (9, 3, 1, 0) /\ rget (pst r) 2 = 10.
Proof. vm_compute. repeat split; reflexivity. Qed.

(* three slots apart (two nops in between) the consumer sees the value *)
Definition pad_prog := [II ADDI 1 0 5; II ADDI 0 0 0; II ADDI 0 0 0; IR ADD 2 1 1].
Example nohaz_distance3_ex :
  let r := fst (pipe_run 100 (pipe_init (init_st pad_prog (MFlat []) None) false)) in
  obs r = (8, 4, 0, 0) /\ rget (pst r) 2 = 10.
Proof. vm_compute. repeat split; reflexivity. Qed.

(* ecall draining is still handled with the flag off: one stall (the drain), output printed once *)
Definition e_prog := [II ADDI 17 0 1; II ADDI 10 0 42; II ADDI 0 0 0; II ADDI 0 0 0; IEcall].
Example nohaz_ecall_ex :
  let r := fst (pipe_run 100 (pipe_init (init_st e_prog (MFlat []) None) false)) in
  stalls (pst r) = 1 /\ out (pst r) = [52; 50] /\ hazards r = false.
Proof. vm_compute. repeat split; reflexivity. Qed.

(* the hypotheses of the reachable-state theorems hold along this run *)
Example nohaz_shape_ex :
  Shape no_icache (pipe_iter 5 (pipe_init (init_st e_prog (MFlat []) None) false)) /\
  hazards (pipe_iter 5 (pipe_init (init_st e_prog (MFlat []) None) false)) = false.
Proof.
  split; [|reflexivity]. apply shape_iter; [exact no_icache_faithful|]. apply shape_init. reflexivity.
Qed.
