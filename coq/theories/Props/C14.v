(* Props/C14.v — property C14:
   "For every instruction of the supported set with any register numbers and any encodable
    immediate, the text the simulator prints for it assembles, at the same address, to an
    instruction with identical operation, registers and immediate."

   Only statements; every proof is [exact <lemma>] into Proofs/C14Proofs.v.

   Vocabulary (Model/Asm.v and the top of Proofs/C14Proofs.v):
     instr_repr i        the text __repr__ prints for instruction i (a list of character codes)
     repr_tokens i       the token record the tokenizer returns for that text
     render b            prints a token record in the canonical spelling of its class
     instantiate_one t labels a ln   the assembler on one token record at address a (line ln)
     instantiate text labels a       the assembler on a list of text entries from address a
     encodable_at a i    registers in [0,32); I/S/load/jalr immediates in [-2048,2048); shift
                         amounts in [0,32); branch offsets even in [-4096,4096); U immediates in
                         [-2^19,2^19); jal offsets even in [-2^20,2^20) with printed target
                         abs = imm + a, a even and 0 <= a < 2^32; csr in [0,4096), uimm in [0,32);
                         i is not fence (which prints as "fence" and has no operand syntax)
     encodable_from a l  instruction k of l is encodable at a + 4k
     listing_text lns l  the text entries of the printed listing of l (line numbers lns) *)
From ArchSim Require Import Model.Base Model.Fmt Model.RV Model.Toy Model.Asm Proofs.C14Proofs.
Open Scope Z_scope.

(** ** 1. one instruction *)
(* the printed operands are numeric, so the label table is irrelevant; ecall and ebreak are
   printed as the bare mnemonic, which the tokenizer returns as a plain string *)
Theorem reassemble : forall a i labels ln, encodable_at a i ->
  match repr_tokens i with
  | BIns t => instantiate_one t labels a ln = POk i
  | BStr 0 => i = IEcall
  | BStr 1 => i = IEbreak
  | _ => False
  end.
Proof. exact reassemble_match. Qed.
Print Assumptions reassemble.

(** ** 2. [repr_tokens] is the tokenisation of the printed text *)
Theorem repr_tokens_faithful : forall i, i <> IFence -> instr_repr i = render (repr_tokens i).
Proof. exact repr_tokens_faithful_lem. Qed.
Print Assumptions repr_tokens_faithful.

(** ** 3. a whole listing *)
Theorem listing_fixpoint : forall l lns labels,
  encodable_from 0 l -> length lns = length l ->
  instantiate (listing_text lns l) labels 0 = POk l.
Proof. exact listing_fixpoint_lem. Qed.
Print Assumptions listing_fixpoint.

(* ... from any start address; and [encodable_from] spelled out *)
Theorem listing_fixpoint_from : forall l a lns labels,
  encodable_from a l -> length lns = length l ->
  instantiate (listing_text lns l) labels a = POk l.
Proof. exact listing_fixpoint_gen. Qed.
Print Assumptions listing_fixpoint_from.

Theorem encodable_from_spec : forall l a,
  encodable_from a l <->
  (forall k i, nth_error l k = Some i -> encodable_at (a + 4 * Z.of_nat k) i).
Proof. exact encodable_from_nth. Qed.
Print Assumptions encodable_from_spec.

(** ** Non-vacuity *)
From Coq Require Import String.
Definition s (x : String.string) : str := codes x.
Arguments s x%string.

(* what is printed *)
Example repr_ex :
  instr_repr (IR SUB 5 6 31) = s "sub x5, x6, x31" /\
  instr_repr (II ADDI 1 2 (-2048)) = s "addi x1, x2, -2048" /\
  instr_repr (ILoad LW 10 2 (-4)) = s "lw x10, -4(x2)" /\
  instr_repr (IStore SW 2 10 8) = s "sw x10, 8(x2)" /\
  instr_repr (IBranch BNE 1 2 (-8)) = s "bne x1, x2, -8" /\
  instr_repr (IJal 1 (-8) 4) = s "jal x1, 4" /\
  instr_repr (ICsr CSRRW 1 768 2) = s "csrrw x1, 0x300, x2" /\
  instr_repr (ICsri CSRRCI 1 3072 31) = s "csrrci x1, 0xc00, 31" /\
  instr_repr IEcall = s "ecall".
Proof. vm_compute. repeat split; reflexivity. Qed.

(* the hypotheses hold for the extreme operands of each class, and the conclusion computes *)
Example encodable_ex :
  encodable_at 12 (IJal 1 (-8) 4) /\ encodable_at 0 (IBranch BGEU 31 0 (-4096)) /\
  encodable_at 0 (II ANDI 31 31 2047) /\ encodable_at 0 (ILui 7 (-524288)) /\
  encodable_at 0 (ISh SRAI 1 1 31) /\ encodable_at 0 (ICsri CSRRWI 0 4095 31).
Proof. unfold encodable_at, enc_reg. repeat split; try reflexivity; try discriminate. Qed.

Example reassemble_ex :
  (match repr_tokens (IJal 1 (-8) 4) with
   | BIns t => instantiate_one t [] 12 7 | _ => PErr (PSyntax 0) end) = POk (IJal 1 (-8) 4) /\
  (match repr_tokens (ICsr CSRRW 1 768 2) with
   | BIns t => instantiate_one t [] 0 7 | _ => PErr (PSyntax 0) end) = POk (ICsr CSRRW 1 768 2).
Proof. vm_compute. split; reflexivity. Qed.

(* the ranges cannot be dropped: "addi x1, x2, 5000" assembles to addi x1, x2, 904, and at
   another address "jal x1, 4" is another jump *)
Example not_encodable_ex :
  (match repr_tokens (II ADDI 1 2 5000) with
   | BIns t => instantiate_one t [] 0 1 | _ => PErr (PSyntax 0) end) = POk (II ADDI 1 2 904) /\
  (match repr_tokens (IJal 1 (-8) 4) with
   | BIns t => instantiate_one t [] 0 1 | _ => PErr (PSyntax 0) end) = POk (IJal 1 4 4).
Proof. vm_compute. split; reflexivity. Qed.

Definition listing_ex : list instr :=
  [ II ADDI 5 0 100; IStore SW 6 5 4; ILoad LW 7 6 4; IBranch BNE 7 5 8; IR ADD 10 7 5;
    IJal 0 (-20) 0; ILui 3 (-1); IEcall; IEbreak ].

Example listing_ex_ok :
  encodable_from 0 listing_ex /\
  map instr_repr listing_ex =
    map s [ "addi x5, x0, 100"; "sw x5, 4(x6)"; "lw x7, 4(x6)"; "bne x7, x5, 8"; "add x10, x7, x5";
            "jal x0, 0"; "lui x3, -1"; "ecall"; "ebreak" ]%string /\
  instantiate (listing_text [1; 2; 3; 4; 5; 6; 7; 8; 9] listing_ex) [] 0 = POk listing_ex.
Proof.
  split; [|split; vm_compute; reflexivity].
  unfold listing_ex, encodable_from, encodable_at, enc_reg.
  repeat split; try reflexivity; try discriminate.
Qed.
