(* Props/C07Events.v — spec-independence of the vocabulary of the schedule theorem of property C07
   (Props/C07Sched.v).  Only statements; every proof is [exact <lemma>] into Proofs/IndepEvents.v.

   The events [ev_instr] / [ev_of] / [single_events] of Proofs/SchedDefs.v read the source
   registers off [rf_ra1] / [rf_ra2] — projections of the model's [access_rf], the function the
   decode stage's hazard detector itself uses — and the destination off the model's [write_reg].
   Spec/IsaRegs.v gives the registers an instruction names straight from the RISC-V manual
   ([isa_src1], [isa_src2], [isa_dst]; it imports only the syntax [instr]); [regs_read i] /
   [reg_written i] drop x0.

   RESULT.  For every instruction that is not a CSR instruction the event of the model IS the
   event built from the ISA tables ([events_from_isa]); [isa_events] (the event list of the
   single-cycle run built from the ISA tables only) equals [single_events] on every [wf] state
   ([isa_events_agree]); hence [pipe_schedule] holds verbatim over ISA-level events
   ([pipe_schedule_isa]).

   FINDINGS about the model's decode ([decode_vs_isa]):
     - ecall / ebreak: [access_rf] reads x0 and [write_reg] names x0, where the ISA names no
       register; invisible, since x0 is dropped on both sides (no interlock ever waits for it),
       and the a7 / a0 the ecall service reads are NOT decode sources in the model — the ecall
       is kept correct by draining, not by the interlock;
     - csrrw/csrrs/csrrc and the immediate forms: [access_rf] reads nothing and [write_reg]
       names nothing, where the ISA has rs1 and rd ([events_from_isa_csr_refuted]: the statement
       of [events_from_isa] is false for them).  Harmless for the schedule theorem: a CSR
       instruction (like ebreak and fence) raises in the single-cycle machine ([unsupported_faults])
       and so never contributes an event; it would matter if CSR instructions were implemented;
     - lui / auipc / jal: no source, rd — as in the ISA. *)
From ArchSim Require Import Model.Base Model.Mem Model.Cache Model.Fmt Model.RV Model.Single
  Model.RVSplit Model.Pipe Spec.IsaRegs Proofs.C01Step Proofs.SplitExec Proofs.PipeLaws Proofs.PipeShape
  Proofs.PipeInv Proofs.SchedDefs Proofs.IndepEvents.
Open Scope Z_scope.

(** ** The model's events are the ISA's *)
Theorem events_from_isa : forall i t, isa_is_csr i = false ->
  ev_srcs (ev_instr i t) = regs_read i /\ ev_dst (ev_instr i t) = reg_written i /\
  ev_ecall (ev_instr i t) = isa_is_ecall i /\ ev_instr i t = isa_ev_instr i t.
Proof. exact events_from_isa_lem. Qed.
Print Assumptions events_from_isa.

Theorem decode_vs_isa :
  (forall i s, isa_is_csr i = false -> isa_is_ecall i = false -> i <> IEbreak ->
     rf_ra1 i s = isa_src1 i /\ rf_ra2 i s = isa_src2 i /\ write_reg i = isa_dst i) /\
  (forall s, rf_ra1 IEcall s = Some 0 /\ rf_ra2 IEcall s = None /\ write_reg IEcall = Some 0 /\
             rf_ra1 IEbreak s = Some 0 /\ write_reg IEbreak = Some 0) /\
  (forall o rd csr rs1 s, rf_ra1 (ICsr o rd csr rs1) s = None /\ write_reg (ICsr o rd csr rs1) = None) /\
  (forall o rd csr u, write_reg (ICsri o rd csr u) = None).
Proof. exact decode_vs_isa_lem. Qed.
Print Assumptions decode_vs_isa.

Theorem events_from_isa_csr_refuted : exists i t,
  ev_srcs (ev_instr i t) <> regs_read i /\ ev_dst (ev_instr i t) <> reg_written i.
Proof. exact events_from_isa_csr_refuted_lem. Qed.
Print Assumptions events_from_isa_csr_refuted.

Theorem unsupported_faults : forall t i, wf t -> instr_at (prog (im t)) (pc t) = Some i ->
  supported i = false -> snd (single_pipeline_step t) <> None.
Proof. exact csr_faults. Qed.
Print Assumptions unsupported_faults.

(** ** The event list of a run, from the ISA tables only *)
Theorem isa_events_agree : forall n s, wf s -> isa_events n s = single_events n s.
Proof. exact isa_events_eq. Qed.
Print Assumptions isa_events_agree.

(** ** The schedule theorem over ISA-level events *)
Theorem pipe_schedule_isa : forall P s n s',
  Forall (fun i => supported i = true) P -> wf s -> prog (im s) = P ->
  single_run n s = (s', Done) ->
  exists c p,
    pipe_run c (pipe_init s true) = (p, PDone) /\
    pipe_retire c (pipe_init s true) = combine (single_trace n s) (schedule (isa_events n s)) /\
    c = total_cycles (schedule (isa_events n s)) /\
    cycles (pst p) = cycles s + Z.of_nat c.
Proof. exact pipe_schedule_isa_lem. Qed.
Print Assumptions pipe_schedule_isa.

(** ** Non-vacuity *)
Example isa_events_example :
  let s := init_st [II ADDI 10 0 5; IR ADD 2 10 10; IStore SW 2 10 0; IBranch BEQ 0 2 8; IJal 1 8 0; ILui 3 1; IEcall] (MFlat []) None in
  map (fun e => (ev_srcs e, ev_dst e)) (isa_events 3 s) = [([], Some 10); ([10; 10], Some 2)] /\
  regs_read (IStore SW 2 10 0) = [2; 10] /\ reg_written (IStore SW 2 10 0) = None /\
  regs_read (IBranch BEQ 0 2 8) = [2] /\ regs_read (IJal 1 8 0) = [] /\ reg_written (IJal 1 8 0) = Some 1 /\
  regs_read IEcall = [] /\ reg_written IEcall = None /\ regs_read (ICsr CSRRW 1 0 2) = [2].
Proof. vm_compute. repeat split; reflexivity. Qed.
