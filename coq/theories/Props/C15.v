(* Props/C15.v — property C15 (RISC-V assembler part and run-time part):
   "For every input, loading either succeeds or fails with a parser error carrying the 1-based
    number of an existing line of that text; the only other permitted failure is the dedicated
    memory-size or address error [...]" and, at run time, every failure is reported as an
   execution fault that names the address and the instruction that raised it.
   (The TOY loader is typed in Props/C19.v: toy_load_outcomes, toy_load_no_uncaught.)

   Only statements; every proof is [exact <lemma>] into Proofs/C15Proofs.v.

   Vocabulary (Model/Asm.v, Model/Single.v, Model/Pipe.v and the top of Proofs/C15Proofs.v):
     assemble toks m     the parser on the token lines toks (pairs line number / tokens) with
                         data memory m: POk (memory, image) or PErr e
     rv_load s toks      RiscvSimulation.load_program: (state, error, image)
     rv_err_ok lines e   e is a parser error (syntax, label, odd immediate, duplicate label,
                         directive, data syntax, duplicate variable, unknown variable) whose
                         line number is in [lines], or the memory address error (PMemAddr), or
                         the memory size error (PMemSize: the data segment would extend past
                         the address space); [PUncaught ln] (an exception that is not a parser
                         error) also counts as "of line ln" here and is excluded separately
     itok_wf t           what the tokenizer guarantees about a token record: registers that are
                         present are xN or an ABI name of the table, and the fields of the
                         mnemonic's syntax class are present
     rv_tokens_wf toks   every token record of toks is itok_wf
     reg_field / int_field   (Proofs/C04Proofs.v) a field holds a register / an accepted literal
     fault               {f_addr; f_instr; f_err}: InstructionExecutionException *)
From ArchSim Require Import Model.Base Model.Mem Model.Cache Model.Fmt Model.RV Model.Single
  Model.RVSplit Model.Pipe Model.Toy Model.Asm Proofs.C04Proofs Proofs.C15Proofs.
Open Scope Z_scope.

(** ** 1. The parser *)
Theorem assemble_outcomes : forall toks m,
  (exists r, assemble toks m = POk r) \/
  (exists e, assemble toks m = PErr e /\ rv_err_ok (map fst toks) e /\
             (rv_tokens_wf toks -> forall ln, e <> PUncaught ln)).
Proof. exact assemble_outcomes_lem. Qed.
Print Assumptions assemble_outcomes.

(* on token lines the tokenizer can produce, every failure is a parser error or the address error *)
Theorem assemble_no_uncaught : forall toks m ln, rv_tokens_wf toks ->
  assemble toks m <> PErr (PUncaught ln).
Proof. exact assemble_no_uncaught_lem. Qed.
Print Assumptions assemble_no_uncaught.

(** ** 2. A literal that int() rejects is a syntax error of its line *)
(* mnemonic numbers as in Props/C04.v; py_int0 = int(text, 0), py_int10 = int(text) *)
Theorem literal_errors_are_syntax :
  (* a field read with int(text, 0) *)
  (forall s ln, py_int0 s = None -> need_int (Some s) ln = PErr (PSyntax ln)) /\
  (* data values *)
  (forall m nbits stride a v post ln, py_int0 v = None ->
     write_vals m nbits stride a (v :: post) ln = PErr (PSyntax ln)) /\
  (forall m nbits stride a vals ln, (exists v, In v vals /\ py_int0 v = None) ->
     exists e, write_vals m nbits stride a vals ln = PErr e /\
               (e = PSyntax ln \/ exists x, e = PMemAddr x)) /\
  (forall m nbits stride a vals ln l, write_vals m nbits stride a vals ln = PErr (PSyntax l) ->
     l = ln /\ exists v, In v vals /\ py_int0 v = None) /\
  (* a declaration line with a rejected value / a rejected .zero count *)
  (forall ln name ty vals t m a vars, var_lookup vars name = None ->
     (exists v, In v vals /\ py_int0 v = None) ->
     exists e, write_data ((ln, RVarDecl name ty vals) :: t) m a vars = PErr e /\
               (e = PSyntax ln \/ exists x, e = PMemAddr x)) /\
  (forall ln name v t m a vars, var_lookup vars name = None -> py_int10 v = None ->
     write_data ((ln, RZeroDecl name v) :: t) m a vars = PErr (PSyntax ln)) /\
  (* an array index *)
  (forall vars name d ln a sz, var_lookup vars name = Some (a, sz) -> py_int10 d = None ->
     var_address vars (name, Some d) ln = PErr (PSyntax ln)) /\
  (forall vars ln i name d a sz,
     (is_load_mn (k_mn i) || (k_mn i =? MN_LA) || is_store_mn (k_mn i)) = true ->
     k_var i = Some (name, Some d) -> var_lookup vars name = Some (a, sz) -> py_int10 d = None ->
     expand_one vars ln (BIns i) = PErr (PSyntax ln)) /\
  (* li *)
  (forall vars ln i rd s, k_mn i = MN_LI -> k_rd i = Some rd -> k_imm i = Some s -> py_int0 s = None ->
     expand_one vars ln (BIns i) = PErr (PSyntax ln)) /\
  (* immediates of I-type instructions, shifts, loads, jalr *)
  (forall i lb a ln s, 18 <= k_mn i <= 32 -> k_imm i = Some s -> py_int0 s = None ->
     instantiate_one i lb a ln = PErr (PSyntax ln)) /\
  (* stores, lui / auipc, csr numbers and csr immediates (read after the registers) *)
  (forall i lb a ln s r1 r2, 34 <= k_mn i <= 36 -> reg_field (k_reg1 i) r1 -> reg_field (k_reg2 i) r2 ->
     k_imm i = Some s -> py_int0 s = None -> instantiate_one i lb a ln = PErr (PSyntax ln)) /\
  (forall i lb a ln s rd, 43 <= k_mn i <= 44 -> reg_field (k_rd i) rd ->
     k_imm i = Some s -> py_int0 s = None -> instantiate_one i lb a ln = PErr (PSyntax ln)) /\
  (forall i lb a ln s rd, 48 <= k_mn i <= 53 -> reg_field (k_rd i) rd ->
     k_csr i = Some s -> py_int0 s = None -> instantiate_one i lb a ln = PErr (PSyntax ln)) /\
  (forall i lb a ln s rd c, 51 <= k_mn i <= 53 -> reg_field (k_rd i) rd -> int_field (k_csr i) c ->
     k_uimm i = Some s -> py_int0 s = None -> instantiate_one i lb a ln = PErr (PSyntax ln)) /\
  (* branch / jal operands: the number, or the offset behind a label *)
  (forall i lb a ln s, 37 <= k_mn i <= 42 \/ k_mn i = 45 -> k_imm i = Some s -> py_int0 s = None ->
     instantiate_one i lb a ln = PErr (PSyntax ln)) /\
  (forall i lb a ln o, 37 <= k_mn i <= 42 \/ k_mn i = 45 -> k_imm i = None -> k_offset i = Some o ->
     py_int0 o = None -> instantiate_one i lb a ln = PErr (PSyntax ln)).
Proof. exact literal_errors_are_syntax_lem. Qed.
Print Assumptions literal_errors_are_syntax.

(** ** 3. load_program *)
(* either the image is installed, or the state after the two resets is kept together with an
   error of the permitted kinds *)
Theorem rv_load_outcomes : forall s toks,
  let s0 := with_im (with_ms s (ms_reset (ms s))) (im_reset (im s)) in
  (exists s' img, rv_load s toks = (s', None, Some img) /\
     exists m', assemble toks (ms s0) = POk (m', img) /\ prog (im s') = i_instrs img /\ ms s' = m') \/
  (exists e, rv_load s toks = (s0, Some e, None) /\ rv_err_ok (map fst toks) e /\
     (rv_tokens_wf toks -> forall ln, e <> PUncaught ln)).
Proof. exact rv_load_outcomes_lem. Qed.
Print Assumptions rv_load_outcomes.

(** ** 4. Run-time faults name the failing instruction *)
Theorem runtime_fault_wrapped :
  (* single-cycle: the address is the pc, the instruction is the one fetched there *)
  (forall s s' f, single_pipeline_step s = (s', Some f) ->
     let s0 := with_icount (with_cycles s (cycles s + 1)) (icount s + 1) in
     f_addr f = pc s /\
     fst (fetch s0 (pc s)) = Some (f_instr f) /\
     (icc (im s) = None -> instr_at (prog (im s)) (pc s) = Some (f_instr f)) /\
     has_instr (im s) (pc s) = true) /\
  (* five-stage: the slot that was the input of the raising stage (WB = 3, EX = 1, MEM = 2),
     as that stage saw it (regs_for covers the stalled case); the latches are left untouched *)
  (forall p p' f, pipe_step p = (p', Some f) ->
     (exists own x e, (own = 3 \/ own = 1 \/ own = 2) /\
        lat_at (regs_for p (own + 1)) own = Some x /\
        f = {| f_addr := sl_addr x; f_instr := sl_instr x; f_err := e |}) /\
     lat p' = lat p /\ stalled p' = stalled p /\ saved p' = saved p /\ hazards p' = hazards p).
Proof. exact (conj single_fault_lem pipe_fault_lem). Qed.
Print Assumptions runtime_fault_wrapped.

(** ** Non-vacuity *)
From Coq Require Import String Lia.
Definition s (x : String.string) : str := codes x.
Arguments s x%string.
Definition x1 := RX (s "1"). Definition x0 := RX (s "0").
Definition t_i (mn : Z) (r1 r2 : regtok) (imm : str) : itok := tok_rri mn r1 r2 imm.
Definition t_b (r1 r2 : regtok) (imm : option str) (l : option Z) : itok :=
  {| k_mn := 37; k_rd := None; k_rs1 := None; k_rs2 := None; k_reg1 := Some r1; k_reg2 := Some r2;
     k_rs := None; k_imm := imm; k_csr := None; k_uimm := None; k_offset := None; k_label := l;
     k_var := None |}.
Definition t_lw (r1 : regtok) (var : Z) : itok :=
  {| k_mn := 29; k_rd := None; k_rs1 := None; k_rs2 := None; k_reg1 := Some r1; k_reg2 := None;
     k_rs := None; k_imm := None; k_csr := None; k_uimm := None; k_offset := None; k_label := None;
     k_var := Some (var, None) |}.
Definition m0 : memsys := MFlat [].
Definition err_of (toks : list (Z * rline)) : option perr :=
  match assemble toks m0 with POk _ => None | PErr e => Some e end.

(* every error kind occurs, with the number of the offending line *)
Example assemble_outcomes_ex :
  (* a second .data *)
  err_of [(1, RDirective 1); (2, RVarDecl 1 2 [s "1"]); (3, RDirective 1)] = Some (PDirective 3) /\
  (* a variable declared twice; an instruction in .data *)
  err_of [(1, RDirective 1); (2, RVarDecl 1 2 [s "1"]); (5, RVarDecl 1 0 [s "2"])] = Some (PDataDup 5) /\
  err_of [(1, RDirective 1); (4, RInstr None (BStr 0))] = Some (PDataSyntax 4) /\
  (* literals int() rejects: ".byte 007", "addi x1, x0, 01", a decimal of 4301 digits *)
  err_of [(1, RDirective 1); (2, RVarDecl 1 0 [s "7"; s "007"])] = Some (PSyntax 2) /\
  err_of [(7, RInstr None (BIns (t_i 18 x1 x0 (s "01"))))] = Some (PSyntax 7) /\
  err_of [(7, RInstr None (BIns (t_i 18 x1 x0 (repeat 49 4301))))] = Some (PSyntax 7) /\
  err_of [(1, RDirective 1); (3, RZeroDecl 1 (repeat 49 4301))] = Some (PSyntax 3) /\
  (* a declaration inside .text *)
  err_of [(3, RVarDecl 1 2 [s "1"])] = Some (PSyntax 3) /\
  (* an unknown variable, a duplicate label, an unknown label, an odd branch offset *)
  err_of [(6, RInstr None (BIns (t_lw x1 9)))] = Some (PVariable 6) /\
  err_of [(1, RLabelDecl 5); (2, RInstr (Some 5) (BStr 0))] = Some (PDupLabel 2) /\
  err_of [(4, RInstr None (BIns (t_b x1 x0 None (Some 5))))] = Some (PLabel 4) /\
  err_of [(4, RInstr None (BIns (t_b x1 x0 (Some (s "3")) None)))] = Some (POdd 4) /\
  (* more than 4096 instructions: the instruction memory's address error *)
  err_of (map (fun k => (k, RInstr None (BStr 0))) (zrange_from 1 4097)) = Some (PMemAddr 16384) /\
  err_of (map (fun k => (k, RInstr None (BStr 0))) (zrange_from 1 4096)) = None /\
  (* a data segment that would end beyond 2^32: the memory size error *)
  err_of [(1, RDirective 1); (2, RZeroDecl 1 (s "1073741824"))] = Some (PMemSize 1073741824) /\
  err_of [(1, RDirective 1); (2, RZeroDecl 1 (s "1073737728"))] = None.
Proof. vm_compute. repeat split; reflexivity. Qed.

(* the records above are what the tokenizer produces; a record without its fields, or with an
   unknown ABI name, is not, and only such a record gives a non-parser error *)
Example tokens_wf_ex :
  rv_tokens_wf [(7, RInstr None (BIns (t_i 18 x1 x0 (s "01")))); (8, RInstr None (BIns (t_lw x1 9)));
                (9, RInstr (Some 2) (BIns (t_b x1 (RAbi (s "a0")) None (Some 5))))] /\
  ~ itok_wf (itok0 18) /\ ~ itok_wf (t_i 18 (RAbi (s "q9")) x0 (s "1")) /\
  err_of [(3, RInstr None (BIns (itok0 18)))] = Some (PUncaught 3) /\
  err_of [(3, RInstr None (BIns (t_i 18 (RAbi (s "q9")) x0 (s "1"))))] = Some (PUncaught 3).
Proof.
  split; [|split; [|split; [|split; vm_compute; reflexivity]]].
  - intros ln il i [H|[H|[H|[]]]]; injection H as _ _ <-.
    + apply tok_rri_wf; [lia | lia | | ]; intros t Ht; injection Ht as <-; discriminate.
    + unfold itok_wf, opt_reg_ok. cbn.
      repeat split; intros; try discriminate; try lia; try congruence;
        try (match goal with H : Some _ = Some _ |- _ => injection H as <- end; discriminate).
    + unfold itok_wf, opt_reg_ok. cbn.
      repeat split; intros; try discriminate; try lia; try congruence;
        try (match goal with H : Some _ = Some _ |- _ => injection H as <- end; discriminate).
  - intros (_ & _ & W & _). cbn in W. destruct W as (W & _); [lia|]. apply W. reflexivity.
  - intros ((_ & _ & _ & W & _) & _). cbn in W. apply (W (RAbi (s "q9")) eq_refl). reflexivity.
Qed.

(* load_program on a fresh state *)
Definition st0 : st := init_st [] (MFlat []) None.
Example rv_load_ex :
  (let '(s', e, img) := rv_load st0 [(1, RInstr None (BIns (t_i 18 x1 x0 (s "5")))); (2, RInstr None (BStr 0))] in
   e = None /\ prog (im s') = [II ADDI 1 0 5; IEcall]) /\
  (let '(s', e, img) := rv_load st0 [(1, RInstr None (BIns (t_i 18 x1 x0 (s "05"))))] in
   e = Some (PSyntax 1) /\ img = None /\ prog (im s') = []).
Proof. vm_compute. repeat split; reflexivity. Qed.

(* run-time faults: ebreak (not implemented) at 4 in both pipelines, a load from address 0 *)
Definition sf : st := init_st [II ADDI 1 0 5; IEbreak] (MFlat []) None.
Fixpoint steps (n : nat) (p : pstate) : pstate * option fault :=
  match n with
  | O => (p, None)
  | S k => match pipe_step p with (p', None) => steps k p' | r => r end
  end.
Example runtime_fault_ex :
  (let '(s1, f1) := single_pipeline_step sf in
   f1 = None /\ snd (single_pipeline_step s1) = Some {| f_addr := 4; f_instr := IEbreak; f_err := ENotImpl |}) /\
  (exists e, snd (steps 10 (pipe_init sf true)) = Some {| f_addr := 4; f_instr := IEbreak; f_err := e |}) /\
  snd (steps 10 (pipe_init (init_st [ILoad LW 1 0 0] (MFlat []) None) true)) =
    Some {| f_addr := 0; f_instr := ILoad LW 1 0 0; f_err := EAddr 0 16384 4294967295 false |}.
Proof. vm_compute. split; [split; reflexivity|]. split; [eexists; reflexivity | reflexivity]. Qed.
