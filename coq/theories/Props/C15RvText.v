(* C15RvText.v — property C15, RISC-V part, on ARBITRARY TEXT:
   "loading any text either succeeds or raises a ParserException subclass whose line_number is the 1-based number
    of a line of text.splitlines(), or the memory-size / memory-address error; nothing else escapes."
   About [rv_load_text] (Model/Lex.v: sanitising + tokenizer, then Model/Asm.v: rv_load), for EVERY list of lines
   (lists of code points; no domain restriction is needed for these theorems) and every state.
   Statements only; proofs in Proofs/LexErr1..5.v on top of Proofs/C15Proofs.v.
   Vocabulary (LexErr2/3/5):
     nth_line ls ln l      1 <= ln and l is the ln-th line (1-based);  all_lex ls: no line is rejected by the grammar
     lexes_to l rl         lex_line l = LexOk nl and rl is nl with its names interned
     is_decl rl            rl is a .byte/.half/.word, .string or .zero declaration
     literal_rejected rl   a literal of rl read with int(text, 0) (data values, imm/csr/uimm/offset) or with
                           int(text) (.zero count, array index) is rejected by Python (py_int0 / py_int10 = None:
                           leading zeros, more than 4300 digits)
     misplaced toks ln rl  rl is neither an instruction nor a label line and lies in the text segment
     reset_state s         s with data memory and instruction memory reset
   perr constructors: PSyntax ParserSyntaxException, PLabel ParserLabelException, POdd ParserOddImmediateException,
     PDupLabel DuplicateLabelException, PDirective ParserDirectiveException, PDataSyntax ParserDataSyntaxException,
     PDataDup ParserDataDuplicateException, PVariable ParserVariableException (all carry the line),
     PMemSize MemorySizeException, PMemAddr MemoryAddressError, PUncaught = any other exception. *)
From Coq Require Import String.
From Coq Require Import ZArith List Bool.
From ArchSim Require Import Model.Base Model.Mem Model.Cache Model.Fmt Model.RV Model.Toy Model.Asm Model.Lex
  Proofs.C15Proofs Proofs.LexErr2 Proofs.LexErr3 Proofs.LexErr4 Proofs.LexErr5.
Import ListNotations.
Open Scope Z_scope.

(** (1) typed outcomes: success, a parser error whose line number is the number of a line of the text, the size
    error (with the size of the address space in words), or the address error; the catch-all never comes out *)
Theorem rv_load_text_outcome_typed : forall s ls,
  match snd (fst (rv_load_text s ls)) with
  | None => True
  | Some (PUncaught _) => False
  | Some (PMemSize w) => w = data_limit / 4
  | Some (PMemAddr _) => True
  | Some (PSyntax ln) | Some (PLabel ln) | Some (POdd ln) | Some (PDupLabel ln) | Some (PDirective ln)
  | Some (PDataSyntax ln) | Some (PDataDup ln) | Some (PVariable ln) => 1 <= ln <= Z.of_nat (List.length ls)
  end.
Proof. exact rv_load_text_typed. Qed.

(* the hypothesis of Props/C15.v (assemble_no_uncaught, rv_load_outcomes) holds for everything the tokenizer returns *)
Theorem lexed_tokens_wf : forall ls toks, lex_text ls = LTOk toks -> rv_tokens_wf toks.
Proof. exact lex_text_wf. Qed.

(** (2) the named line, per constructor *)
Theorem rv_load_text_line_valid : forall s ls s' e img, rv_load_text s ls = (s', Some e, img) ->
  match e with
  | PSyntax ln =>
      (exists l, nth_line ls ln l /\ lex_line l = LexSyntax /\
                 forall k' l', k' < ln -> nth_line ls k' l' -> lex_line l' <> LexSyntax) \/
      (all_lex ls /\ lexes_ok ls ln)
  | PLabel ln | POdd ln | PDupLabel ln | PVariable ln => all_lex ls /\ lexes_ok ls ln
  | PDirective ln => all_lex ls /\ exists l d names, nth_line ls ln l /\ lex_line l = LexOk (NDirective d) /\
                       lexes_to l (snd (intern_line names (NDirective d)))
  | PDataSyntax ln => all_lex ls /\ exists l rl, nth_line ls ln l /\ lexes_to l rl /\ ~ is_decl rl
  | PDataDup ln => all_lex ls /\ exists l rl, nth_line ls ln l /\ lexes_to l rl /\ is_decl rl
  | PMemSize w => all_lex ls /\ w = data_limit / 4
  | PMemAddr _ => all_lex ls
  | PUncaught _ => False
  end.
Proof. exact rv_load_text_line. Qed.

(* a syntax error names the FIRST line the grammar rejects; if the grammar accepts every line, it names a line with
   a literal Python's int() rejects, or a declaration/directive line standing among the instructions *)
Theorem rv_load_text_syntax_cause : forall s ls s' ln img, rv_load_text s ls = (s', Some (PSyntax ln), img) ->
  (exists l, nth_line ls ln l /\ lex_line l = LexSyntax /\
             forall k' l', k' < ln -> nth_line ls k' l' -> lex_line l' <> LexSyntax) \/
  (all_lex ls /\ exists toks l rl, lex_text ls = LTOk toks /\ nth_line ls ln l /\ lexes_to l rl /\ In (ln, rl) toks /\
     (literal_rejected rl \/ misplaced toks ln rl)).
Proof. exact rv_load_text_syntax. Qed.

Theorem nth_line_in_range : forall ls ln l, nth_line ls ln l -> 1 <= ln <= Z.of_nat (List.length ls).
Proof. exact nth_line_range. Qed.

(** (3) frame: after a failure the state is the reset state and no image is returned; after a success the result is
    rv_load of token lines that satisfy the tokenizer guarantee, so the theorems of Props/C04.v, C05.v, C15.v apply *)
Theorem rv_load_text_failure_frame : forall s ls s' o img, rv_load_text s ls = (s', o, img) ->
  match o with
  | Some e => s' = reset_state s /\ img = None
  | None => exists toks im, lex_text ls = LTOk toks /\ rv_tokens_wf toks /\ img = Some im /\
                            rv_load s toks = (s', None, Some im)
  end.
Proof. exact rv_load_text_frame. Qed.

(** non-vacuity: one text per outcome class *)
Theorem rv_load_text_outcomes_example :
  outcome [S "nop"; S "add x1, x2"; S "li x1,"] = Some (PSyntax 2) /\
  outcome [S "nop"; S "  # c"; S "li x1, 007"] = Some (PSyntax 3) /\
  outcome [S ".data"; S "z: .zero 1"; S ".text"; S "lw x1, z[0x]"] = Some (PSyntax 4) /\
  outcome [S "nop"; S "v: .word 1"] = Some (PSyntax 2) /\
  outcome [S "beq x1, x2, nowhere"] = Some (PLabel 1) /\
  outcome [S "beq x1, x2, 3"] = Some (POdd 1) /\
  outcome [S "a: nop"; S "a:"] = Some (PDupLabel 2) /\
  outcome [S ".text"; S "nop"; S ".text"] = Some (PDirective 3) /\
  outcome [S ".data"; S "nop"] = Some (PDataSyntax 2) /\
  outcome [S ".data"; S "v: .word 1"; S "v: .byte 2"] = Some (PDataDup 3) /\
  outcome [S "la x1, v"] = Some (PVariable 1) /\
  outcome [S ".data"; S "z: .zero 1073741824"] = Some (PMemSize 1073741824) /\
  outcome [S ".data"; S "z: .zero 1073737728"; S "b: .byte 1"] = Some (PMemAddr 0) /\
  outcome [S ".data"; S "v: .word -1, 0x10"; S ".text"; S "main: lw a0, v[1]"; S "jal x0, main"] = None.
Proof. exact ex_outcomes. Qed.
Theorem rv_load_text_frame_example :
  rv_load_text st0 [S "add x1, x2"] = (reset_state st0, Some (PSyntax 1), None) /\
  ms (reset_state st0) = MFlat [] /\ prog (im (reset_state st0)) = [].
Proof. exact ex_frame. Qed.

Print Assumptions rv_load_text_outcome_typed.
Print Assumptions lexed_tokens_wf.
Print Assumptions rv_load_text_line_valid.
Print Assumptions rv_load_text_syntax_cause.
Print Assumptions nth_line_in_range.
Print Assumptions rv_load_text_failure_frame.
Print Assumptions rv_load_text_outcomes_example.
Print Assumptions rv_load_text_frame_example.
