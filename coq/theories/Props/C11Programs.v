(* Props/C11Programs.v — program-level clause of property C11: with ANY instruction-cache
   configuration (and flat data memory) a program run gives the same results as with the uncached
   instruction memory, in both pipeline modes: same outcome (done / the same fault record / out of
   fuel), same architectural state, and, for the five-stage pipeline, the same latches, stall and
   flush counters and retire trace.  Only the cycle counter (miss penalties) and the instruction
   cache's own directory and counters differ.  No access is ever rejected here: rejections come
   from data caches only (see Props/C03Programs.v for those).
   Only statements; proofs in Proofs/LiftICache.v.  Vocabulary as in Props/C03Programs.v:
   [cache_ok] (here: the data memory holds bytes, IInv (im s), at most 2^30 instructions),
   [flatten] (here: drop the instruction cache), [same_arch], [pflatten], [same_pipe], [ptrace]. *)
From ArchSim Require Import Spec.RefCache.
From ArchSim Require Import Model.Base Model.Mem Model.Cache Model.Fmt Model.RV Model.Single
  Model.RVSplit Model.Pipe
  Proofs.CacheArith Proofs.CacheInv Proofs.C11Proofs
  Proofs.LiftFlat Proofs.LiftAccess Proofs.LiftSim Proofs.LiftSingle Proofs.LiftPipe Proofs.LiftPipeRun
  Proofs.LiftICache Proofs.LiftRefine Proofs.LiftMeaning.
Open Scope Z_scope.

(* on a flat data memory [flatten] only drops the instruction cache *)
Theorem flatten_flat_meaning : forall s m, ms s = MFlat m ->
  flatten s =
  {| pc := pc s; regs := regs s; ms := MFlat m; im := {| prog := prog (im s); icc := None |};
     out := out s; exitc := exitc s; icount := icount s; bcount := bcount s; pcount := pcount s;
     cycles := cycles s; stalls := stalls s; flushes := flushes s |}.
Proof. exact flatten_flat_meaning_lem. Qed.
Print Assumptions flatten_flat_meaning.

Theorem icache_program_single : forall n s m, ms s = MFlat m -> cache_ok s ->
  let '(s', r) := single_run n s in
  exists t', single_run n (flatten s) = (t', r) /\ same_arch s' t'.
Proof. exact icache_single_run. Qed.
Print Assumptions icache_program_single.

Theorem icache_program_pipe : forall n p m, ms (pst p) = MFlat m -> cache_ok (pst p) ->
  let '(p', r) := pipe_run n p in
  exists q', pipe_run n (pflatten p) = (q', r) /\ same_pipe p' q' /\ ptrace n (pflatten p) = ptrace n p.
Proof. exact icache_pipe_run. Qed.
Print Assumptions icache_program_pipe.

(* the hypothesis for an initial state: any geometry with non-negative field widths *)
Theorem icache_ok_init : forall p m g ipen, bytes_ok m -> 0 <= ibits g -> 0 <= bbits g ->
  Z.of_nat (length p) <= 1073741824 ->
  cache_ok (init_st p (MFlat m) (Some (icache_init g ipen))).
Proof. exact icache_ok_init_lem. Qed.
Print Assumptions icache_ok_init.

(** ** Non-vacuity: a loop of 6 instructions through a direct-mapped icache with 2 sets of 2 words
    (the loop body spans three blocks, two of them conflict), miss penalty 5 *)
Definition ic_g : ccfg := {| ibits := 1; bbits := 1; assoc := 1; plru := false |}.
Definition ic_prog : list instr :=
  [ II ADDI 1 0 3; II ADDI 2 2 5; II ADDI 1 1 (-1); II ADDI 3 3 1; IBranch BNE 1 0 (-12);
    II ADDI 17 0 10; IEcall ].
Definition ic_st : st := init_st ic_prog (MFlat []) (Some (icache_init ic_g 5)).

Example ic_example :
  let r := single_run 50 ic_st in let r' := single_run 50 (flatten ic_st) in
  snd r = Done /\ snd r' = Done /\ regs (fst r) = regs (fst r') /\
  mget (regs (fst r)) 2 = 15 /\ exitc (fst r) = Some 0 /\
  cycles (fst r) <> cycles (fst r') /\
  match icc (im (fst r)) with Some c => (0 <? ihits c) && (ihits c <? iaccesses c) = true | None => False end.
Proof. vm_compute. repeat split; discriminate. Qed.

Example ic_example_pipe :
  let r := pipe_run 100 (pipe_init ic_st true) in let r' := pipe_run 100 (pipe_init (flatten ic_st) true) in
  snd r = PDone /\ snd r' = PDone /\ regs (pst (fst r)) = regs (pst (fst r')) /\
  mget (regs (pst (fst r))) 2 = 15 /\
  ptrace 100 (pipe_init ic_st true) = ptrace 100 (pipe_init (flatten ic_st) true) /\
  length (ptrace 100 (pipe_init ic_st true)) = 15%nat.
Proof. vm_compute. repeat split. Qed.
