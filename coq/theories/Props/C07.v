(* Props/C07.v — property C07 (phase A: the local laws of the pipeline model):
   "In five-stage mode with hazard detection, the cycle in which each instruction retires, and
    hence the total cycle count, equals that of the documented pipeline: one fetch per cycle, no
    forwarding, registers written before they are read within a cycle, a decode interlock
    inserting two bubbles when a source register is written by one of the two preceding
    instructions, control transfers resolved in the memory stage with fetch redirected in the
    next cycle, and ecall held in execute until all older instructions have left the memory
    stage.  A straight-line program of n mutually independent instructions therefore takes
    exactly n+4 cycles, and each step advances the cycle counter by exactly one plus the miss
    penalties incurred in that step."

   Only statements; every proof is [exact <lemma>] into Proofs/PipeLaws.v (layer 0: laws of
   [pipe_step] that hold for EVERY pipeline state), Proofs/PipeShape.v (layer 1: the invariant
   [Shape] of reachable states) and Proofs/PipeStraight.v.

   Vocabulary (Proofs/PipeLaws.v):
     dpen dacc dhit s       data-cache miss penalty / accesses / hits of state s (0 for flat memory)
     ipen iacc ihit s       the same for the instruction cache (0 when there is none)
     cnt_step c pen a h a' h' d   one memory access moved (accesses, hits) from (a,h) to (a',h')
                            and charged d cycles: nothing / counted hit / counted miss (d = pen)
     counted_miss a h a' h' accesses + 1 and hits unchanged
     bump p                 p with the cycle counter incremented (first action of Pipeline.step)
     run_stages p           the five stages in execution order IF, WB, ID, EX, MEM: (new latches,
                            state, fault)                                   [Model/Pipe.v]
     wb_on / id_on / ex_on / mem_on    the stages as functions of their input latches
     mem_flush y            the redirect target MEM computes for slot y (taken branch, jal, jalr,
                            exiting ecall), None if it does not redirect
     first_flush / new_stall            highest-index flush / counting stall signal [Model/Pipe.v]
     flush_cancels next k   the flush of this cycle comes from a stage behind stage k
     pipe_iter n p          n applications of pipe_step (faults ignored)
     pipe_run_steps f p     number of pipe_step calls made by pipe_run f p
   Vocabulary (Proofs/PipeShape.v):
     fetch_faithful IM      instruction memories satisfying IM return the program's instruction
     no_icache m            m has no instruction cache (an instance of IM)
     Shape IM p             the reachable-shape invariant (five latches, flag discipline, stall and
                            skid registers consistent, slots hold real program instructions,
                            bubbles in pairs); Shape_init / Shape_step below
   Vocabulary (Proofs/PipeStraight.v):
     is_alu i               i is a register-register, register-immediate or shift-immediate instr.
     no_src_is_dst P        no source register of an instruction of P is a destination in P *)
From ArchSim Require Import Model.Base Model.Mem Model.Cache Model.Fmt Model.RV Model.Single
  Model.RVSplit Model.Pipe Proofs.PipeLaws Proofs.PipeShape Proofs.PipeStraight.
Open Scope Z_scope.

(** ** 1. The cycle law: "each step advances the cycle counter by exactly one plus the miss
       penalties incurred in that step" — for every state, memory system and instruction cache,
       also when the step ends in a fault *)

Theorem cycle_law : forall p,
  let s := pst p in let s' := pst (fst (pipe_step p)) in
  dpen s' = dpen s /\ ipen s' = ipen s /\
  cycles s' = cycles s + 1
              + ipen s * ((iacc s' - iacc s) - (ihit s' - ihit s))
              + dpen s * ((dacc s' - dacc s) - (dhit s' - dhit s)).
Proof. exact PipeLaws.cycle_law. Qed.
Print Assumptions cycle_law.

(* the per-access facts behind it: a data access / a fetch moves the cycle counter by exactly the
   penalty it returns, which is penalty * [counted miss]; uncounted reads (the string scan of
   ecall 4) and direct writes add nothing *)
Theorem access_cycles :
  (forall s n a c r s', st_read s n a c = (r, s') ->
     dpen s' = dpen s /\ cnt_step c (dpen s) (dacc s) (dhit s) (dacc s') (dhit s') (cycles s' - cycles s)) /\
  (forall s n a v d e s', st_write s n a v d = (e, s') ->
     dpen s' = dpen s /\
     cnt_step (negb d) (dpen s) (dacc s) (dhit s) (dacc s') (dhit s') (cycles s' - cycles s)) /\
  (forall s a oi s', fetch s a = (oi, s') ->
     ipen s' = ipen s /\ cnt_step true (ipen s) (iacc s) (ihit s) (iacc s') (ihit s') (cycles s' - cycles s)) /\
  (forall c pen acc hit acc' hit' d, cnt_step c pen acc hit acc' hit' d ->
     d = pen * ((acc' - acc) - (hit' - hit)) /\
     ((acc' - acc) - (hit' - hit) = 1 <-> counted_miss acc hit acc' hit')) /\
  (forall s r s', process_ecall s = (r, s') ->
     cycles s' = cycles s /\ dacc s' = dacc s /\ dhit s' = dhit s).
Proof. exact access_cycles_lem. Qed.
Print Assumptions access_cycles.

(* flat memory, no instruction cache: one cycle per step; a run takes as many cycles as steps *)
Theorem cycle_law_flat : forall p m, ms (pst p) = MFlat m -> icc (im (pst p)) = None ->
  cycles (pst (fst (pipe_step p))) = cycles (pst p) + 1.
Proof. exact PipeLaws.cycle_law_flat. Qed.
Print Assumptions cycle_law_flat.

Theorem run_cycles_flat : forall fuel p m, ms (pst p) = MFlat m -> icc (im (pst p)) = None ->
  cycles (pst (fst (pipe_run fuel p))) = cycles (pst p) + Z.of_nat (pipe_run_steps fuel p).
Proof. exact PipeLaws.pipe_run_cycles_flat. Qed.
Print Assumptions run_cycles_flat.

(* the other counters never decrease and move by at most one per step; the retire counter moves
   exactly when the WB input (latch MEM) is occupied — in every stall mode *)
Theorem counters_monotone : forall p,
  let s := pst p in let s' := pst (fst (pipe_step p)) in
  (stalls s' = stalls s \/ stalls s' = stalls s + 1) /\
  (flushes s' = flushes s \/ flushes s' = flushes s + 1) /\
  icount s' = icount s + (if nonempty (lat_at (regs_for p 4) 3) then 1 else 0) /\
  (bcount s' = bcount s \/ bcount s' = bcount s + 1) /\
  (pcount s' = pcount s \/ pcount s' = pcount s + 1).
Proof. exact PipeLaws.counters_monotone. Qed.
Print Assumptions counters_monotone.

Theorem retire_iff_mem_latch_occupied : forall (IM : imem -> Prop) p, Shape IM p ->
  icount (pst (fst (pipe_step p))) = icount (pst p) + (if nonempty (lat_at (lat p) 3) then 1 else 0).
Proof. exact icount_step_reach. Qed.
Print Assumptions retire_iff_mem_latch_occupied.

(** ** 2. Reachable shape *)

Theorem Shape_init : forall (IM : imem -> Prop) s hz, IM (im s) -> Shape IM (pipe_init s hz).
Proof. exact shape_init. Qed.
Theorem Shape_step : forall (IM : imem -> Prop) p, fetch_faithful IM -> Shape IM p -> Shape IM (fst (pipe_step p)).
Proof. exact shape_step. Qed.
Theorem Shape_no_icache : fetch_faithful no_icache.
Proof. exact no_icache_faithful. Qed.
Print Assumptions Shape_init.
Print Assumptions Shape_step.
Print Assumptions Shape_no_icache.

(* bubbles come in pairs: in a reachable, non-stalled state no single bubble is enclosed by two
   instructions (the instruction about to be fetched counts as one) *)
Theorem bubbles_come_in_pairs : forall (IM : imem -> Prop) p, Shape IM p -> stalled p = None ->
  let o j := nonempty (lat_at (lat p) j) in
  ~ (has_instr (im (pst p)) (pc (pst p)) = true /\ o 0 = false /\ o 1 = true) /\
  ~ (o 0 = true /\ o 1 = false /\ o 2 = true) /\
  ~ (o 1 = true /\ o 2 = false /\ o 3 = true).
Proof. exact PipeShape.bubbles_come_in_pairs. Qed.
Print Assumptions bubbles_come_in_pairs.

(** ** 3. "control transfers resolved in the memory stage with fetch redirected in the next cycle" *)

(* the general flush law *)
Theorem flush_law : forall p next s i a, run_stages (bump p) = (next, s, None) ->
  first_flush next = Some (i, a) ->
  let p' := fst (pipe_step p) in
  pc (pst p') = a /\ flushes (pst p') = flushes (pst p) + 1 /\
  lat p' = clear_prefix next (Z.to_nat i) /\
  (forall j, 0 <= j < i -> lat_at (lat p') j = None) /\
  (forall j, i <= j -> lat_at (lat p') j = lat_at next j) /\
  (forall k d, stalled p' = Some (k, d) -> i <= k).
Proof. exact PipeLaws.flush_law. Qed.
Print Assumptions flush_law.

(* a redirecting slot in the EX latch (input of MEM) redirects in THIS step: pc := target, the
   three younger latches are emptied, any stall is dropped ... *)
Theorem redirect_in_mem : forall p l0 l1 l2 l3 l4 y a,
  lat p = [l0; l1; l2; l3; l4] ->
  (stalled p = None \/ (exists d, stalled p = Some (1, d)) /\ has_stall l0 = false /\ flush_of l0 = None) ->
  l2 = Some y -> mem_flush y = Some a ->
  match l3 with Some w => sl_exit w = None | None => True end ->
  snd (pipe_step p) = None ->
  let p' := fst (pipe_step p) in
  pc (pst p') = a /\ flushes (pst p') = flushes (pst p) + 1 /\
  lat_at (lat p') 0 = None /\ lat_at (lat p') 1 = None /\ lat_at (lat p') 2 = None /\
  (exists rd, lat_at (lat p') 3 = Some (mem_slot y rd)) /\
  stalled p' = None.
Proof. exact PipeLaws.redirect_in_mem. Qed.
Print Assumptions redirect_in_mem.

(* ... and the next step's IF (not stalled) fetches at the current pc, i.e. at the target *)
Theorem redirect_next_fetch : forall p next s f, stalled p = None -> run_stages (bump p) = (next, s, f) ->
  lat_at next 0 = None \/ exists i, lat_at next 0 = Some (slot_if i (pc (pst p))).
Proof. exact if_fetches_at_pc. Qed.
Print Assumptions redirect_next_fetch.

(* which slots redirect *)
Theorem redirecting_slots :
  (forall y rd imm abs, sl_instr y = IJal rd imm abs -> mem_flush y = sl_pcimm y) /\
  (forall y rd rs1 imm, sl_instr y = IJalr rd rs1 imm -> mem_flush y = sl_result y) /\
  (forall y o rs1 rs2 imm, sl_instr y = IBranch o rs1 rs2 imm ->
     mem_flush y = match sl_cmp y with
                   | Some true => sl_pcimm y
                   | _ => match sl_exit y with Some _ => Some (sl_addr y + 4) | None => None end
                   end).
Proof. exact redirecting_slots_lem. Qed.
Print Assumptions redirecting_slots.

(** ** 4. "a decode interlock inserting two bubbles" *)

(* detection: the step in which stage k raises the counting stall signal ends in (k, 2) with the
   old inputs of the stages below k in the skid registers, unless a flush cancels it *)
Theorem stall_detect : forall p next s k, stalled p = None -> saved p = None ->
  run_stages (bump p) = (next, s, None) -> new_stall next None = Some k ->
  let p' := fst (pipe_step p) in
  stalls (pst p') = stalls (pst p) + 1 /\
  if flush_cancels next k then stalled p' = None /\ saved p' = None
  else stalled p' = Some (k, 2) /\
       saved p' = Some (map mark_saved (firstn (Z.to_nat k) (lat p))).
Proof. exact PipeLaws.stall_detect. Qed.
Print Assumptions stall_detect.

(* countdown on reachable states: (k,2) -> (k,1) -> not stalled, the stall counter standing still *)
Theorem stall_countdown : forall (IM : imem -> Prop) p k, Shape IM p -> snd (pipe_step p) = None ->
  let p' := fst (pipe_step p) in
  (stalled p = Some (k, 2) ->
     stalls (pst p') = stalls (pst p) /\ (stalled p' = Some (k, 1) \/ stalled p' = None)) /\
  (stalled p = Some (k, 1) -> stalls (pst p') = stalls (pst p) /\ stalled p' = None).
Proof. exact PipeShape.stall_countdown. Qed.
Print Assumptions stall_countdown.

(* the interlock law: a decode-stage hazard inserts exactly two stalled cycles during which no
   instruction enters EX (latch EX receives a bubble) and latch IF is held *)
Theorem interlock_two_stalled_cycles : forall (IM : imem -> Prop) p, fetch_faithful IM -> Shape IM p ->
  stalled p = Some (1, 2) ->
  let p1 := fst (pipe_step p) in let p2 := fst (pipe_step p1) in
  snd (pipe_step p) = None -> snd (pipe_step p1) = None ->
  lat_at (lat p1) 2 = None /\ stalls (pst p1) = stalls (pst p) /\
  (stalled p1 = None \/
   (stalled p1 = Some (1, 1) /\ lat_at (lat p1) 0 = lat_at (lat p) 0 /\
    lat_at (lat p2) 2 = None /\ stalls (pst p2) = stalls (pst p) /\ stalled p2 = None)).
Proof. exact interlock_law. Qed.
Print Assumptions interlock_two_stalled_cycles.

(* "ecall held in execute until all older instructions have left the memory stage": in the first
   drain cycle the saved ecall is busy (does not fire), in the second it is not *)
Theorem ecall_waits_for_drain : forall (IM : imem -> Prop) p, Shape IM p ->
  (stalled p = Some (2, 2) ->
     exists y1, sv_at p 1 = Some y1 /\ sl_instr y1 = IEcall /\
                ex_busy y1 (lat_at (lat p) 2) (lat_at (lat p) 3) = true) /\
  (stalled p = Some (2, 1) ->
     exists y1, sv_at p 1 = Some y1 /\ sl_instr y1 = IEcall /\
                ex_busy y1 (lat_at (lat p) 2) (lat_at (lat p) 3) = false).
Proof. exact ecall_waits_for_drain_lem. Qed.
Print Assumptions ecall_waits_for_drain.

(** ** 5. "registers written before they are read within a cycle" *)
Theorem wb_before_id : forall p l0 l1 l2 l3 l4 next s,
  lat p = [l0; l1; l2; l3; l4] ->
  (stalled p = None \/ exists k d, stalled p = Some (k, d) /\ (k = 1 \/ k = 2)) ->
  run_stages p = (next, s, None) ->
  lat_at next 1 =
  id_on (hazards p) (id_input p) l1 l2 (with_regs (pst p) (wb_regs l3 (pst p))).
Proof. exact PipeLaws.wb_before_id. Qed.
Print Assumptions wb_before_id.

(** ** 6. "A straight-line program of n mutually independent instructions takes exactly n+4 cycles"
       — proved for programs of ALU instructions (R-type, I-type arithmetic, shift-immediate);
       _partial: the documented claim for loads / lui / auipc is not covered here. *)
Theorem straightline_n_plus_4_partial : forall (IM : imem -> Prop), fetch_faithful IM -> forall P,
  Forall (fun i => is_alu i = true) P -> no_src_is_dst P ->
  forall s hz, IM (im s) -> prog (im s) = P -> pc s = 0 -> exitc s = None ->
  let n := Z.of_nat (length P) in
  let p0 := pipe_init s hz in
  let pN := pipe_iter (length P + 4) p0 in
  (forall j, (j < length P + 4)%nat -> snd (pipe_step (pipe_iter j p0)) = None) /\
  pipe_done pN = true /\
  icount (pst pN) = icount s + n /\ stalls (pst pN) = stalls s /\ flushes (pst pN) = flushes s /\
  stalled pN = None /\
  ((0 < length P)%nat ->
     (forall j, (j < length P + 4)%nat -> pipe_done (pipe_iter j p0) = false) /\
     forall fuel, (length P + 4 <= fuel)%nat ->
       pipe_run fuel p0 = (pN, PDone) /\ pipe_run_steps fuel p0 = (length P + 4)%nat).
Proof. exact straightline. Qed.
Print Assumptions straightline_n_plus_4_partial.

(* with flat memory and no instruction cache the cycle counter reads n + 4 *)
Theorem straightline_cycles_flat : forall P m s hz,
  Forall (fun i => is_alu i = true) P -> no_src_is_dst P -> (0 < length P)%nat ->
  s = init_st P (MFlat m) None ->
  forall fuel, (length P + 4 <= fuel)%nat ->
  snd (pipe_run fuel (pipe_init s hz)) = PDone /\
  cycles (pst (fst (pipe_run fuel (pipe_init s hz)))) = Z.of_nat (length P) + 4 /\
  icount (pst (fst (pipe_run fuel (pipe_init s hz)))) = Z.of_nat (length P) /\
  stalls (pst (fst (pipe_run fuel (pipe_init s hz)))) = 0 /\
  flushes (pst (fst (pipe_run fuel (pipe_init s hz)))) = 0.
Proof. exact straightline_cycles_flat_lem. Qed.
Print Assumptions straightline_cycles_flat.

(** ** Non-vacuity: concrete programs (flat memory at [], registers all zero) *)
Definition obs (p : pstate) := (cycles (pst p), icount (pst p), stalls (pst p), flushes (pst p)).

(* three independent ALU instructions: 3 + 4 cycles *)
Definition sl_prog := [II ADDI 1 0 5; II ADDI 2 0 7; IR ADD 3 0 0].
Example straightline_hyps_ex : Forall (fun i => is_alu i = true) sl_prog /\ no_src_is_dst sl_prog.
Proof. split; [repeat constructor|apply no_src_is_dst_check; vm_compute; reflexivity]. Qed.
Example straightline_ex :
  let r := pipe_run 100 (pipe_init (init_st sl_prog (MFlat []) None) true) in
  obs (fst r) = (7, 3, 0, 0) /\ snd r = PDone.
Proof. vm_compute. split; reflexivity. Qed.

(* a RAW hazard at distance 1: one stall, two extra cycles (3 + 4 + 2); state after step 3 is the
   hypothesis of the interlock law *)
Definition hz_prog := [II ADDI 1 0 5; IR ADD 2 1 1; II ADDI 3 0 1].
Definition p_hz := pipe_init (init_st hz_prog (MFlat []) None) true.
Example interlock_ex :
  obs (fst (pipe_run 100 p_hz)) = (9, 3, 1, 0) /\ rget (pst (fst (pipe_run 100 p_hz))) 2 = 10 /\
  stalled (pipe_iter 3 p_hz) = Some (1, 2) /\ stalled (pipe_iter 4 p_hz) = Some (1, 1) /\
  stalled (pipe_iter 5 p_hz) = None /\
  map nonempty (lat (pipe_iter 4 p_hz)) = [true; true; false; true; false] /\
  map nonempty (lat (pipe_iter 5 p_hz)) = [true; true; false; false; true].
Proof. vm_compute. repeat split; reflexivity. Qed.
Example interlock_shape_ex : Shape no_icache (pipe_iter 3 p_hz).
Proof. apply shape_iter; [exact no_icache_faithful|]. apply shape_init. reflexivity. Qed.

(* a jump: resolved in MEM in step 4 (pc := 8, three latches emptied, one flush), the skipped
   instruction has no effect *)
Definition j_prog := [IJal 0 8 0; II ADDI 1 0 1; II ADDI 2 0 2].
Definition p_j := pipe_init (init_st j_prog (MFlat []) None) true.
Example redirect_ex :
  pc (pst (pipe_iter 3 p_j)) = 12 /\ pc (pst (pipe_iter 4 p_j)) = 8 /\
  map nonempty (lat (pipe_iter 4 p_j)) = [false; false; false; true; false] /\
  obs (fst (pipe_run 100 p_j)) = (9, 2, 0, 1) /\
  rget (pst (fst (pipe_run 100 p_j))) 1 = 0 /\ rget (pst (fst (pipe_run 100 p_j))) 2 = 2.
Proof. vm_compute. repeat split; reflexivity. Qed.

(* an ecall waits two cycles for the two older instructions to drain, then prints "42" once *)
Definition e_prog := [II ADDI 17 0 1; II ADDI 10 0 42; IEcall; II ADDI 5 0 1].
Definition p_e := pipe_init (init_st e_prog (MFlat []) None) true.
Example ecall_drain_ex :
  stalled (pipe_iter 5 p_e) = Some (2, 2) /\ out (pst (pipe_iter 6 p_e)) = [] /\
  stalled (pipe_iter 6 p_e) = Some (2, 1) /\ out (pst (pipe_iter 7 p_e)) = [52; 50] /\
  obs (fst (pipe_run 100 p_e)) = (10, 4, 1, 0) /\ out (pst (fst (pipe_run 100 p_e))) = [52; 50].
Proof. vm_compute. repeat split; reflexivity. Qed.

(* the cycle law with a data cache (penalty 10) and an instruction cache (penalty 3):
   (cycles, data accesses, data hits, instruction accesses, instruction hits) after each step *)
Definition g22 : ccfg := {| ibits := 1; bbits := 0; assoc := 2; plru := false |}.
Definition ld_prog := [ILui 1 4; ILoad LW 2 1 0; ILoad LW 3 1 0; ILoad LW 4 1 64].
Definition p_c :=
  pipe_init (init_st ld_prog (MCache (dcache_init g22 false 10)) (Some (icache_init g22 3))) true.
Definition obsc (p : pstate) := (cycles (pst p), dacc (pst p), dhit (pst p), iacc (pst p), ihit (pst p)).
Example cycle_law_ex :
  map (fun k => obsc (pipe_iter k p_c)) [0; 1; 2; 3; 4; 5; 6; 7; 8; 9; 10]%nat =
  [(0, 0, 0, 0, 0); (4, 0, 0, 1, 0); (8, 0, 0, 2, 0); (12, 0, 0, 3, 0); (13, 0, 0, 3, 0);
   (14, 0, 0, 3, 0); (18, 0, 0, 4, 0); (29, 1, 0, 4, 0); (30, 2, 1, 4, 0); (41, 3, 1, 4, 0);
   (42, 3, 1, 4, 0)].
Proof. vm_compute. reflexivity. Qed.
