(* Props/C10.v — property C10: replacement policies (replacement_strategies.py: LRU, PLRU).
   Only statements; every proof is [exact <lemma>] into Proofs/C10Proofs.v.  The reference
   notions ([last_access], [older], [ptree], [tree_victim], [tree_access], [heap_tree], [run],
   [in_range]) are in Spec/Policy.v.  All statements hold for EVERY associativity and EVERY
   finite in-range access history; nothing is bounded. *)
From Coq Require Import Permutation.
From ArchSim Require Import Model.Base Model.Cache Spec.Policy Proofs.C10Proofs.
Open Scope Z_scope.

(** * LRU *)

(* 1. the order list is always a permutation of the block indices 0 .. n-1 *)
Theorem lru_perm : forall n h, 0 <= n -> in_range n h ->
  exists o, run (pol_init false n) h = LRU o /\
    NoDup o /\ length o = Z.to_nat n /\ (forall x, In x o <-> 0 <= x < n) /\
    Permutation o (zrange_from 0 (Z.to_nat n)).
Proof. exact lru_perm_proof. Qed.
Print Assumptions lru_perm.

(* 2. the victim is the block whose last access is oldest; never-accessed blocks go first,
      smallest index first *)
Theorem lru_victim_spec : forall n h, 1 <= n -> in_range n h ->
  let v := pol_victim (run (pol_init false n) h) in
  0 <= v < n /\
  ((exists j, 0 <= j < n /\ last_access h j = None) ->
     last_access h v = None /\ forall j, 0 <= j < n -> last_access h j = None -> v <= j) /\
  ((forall j, 0 <= j < n -> last_access h j <> None) ->
     forall j, 0 <= j < n -> j <> v ->
       exists a b, last_access h v = Some a /\ last_access h j = Some b /\ (a < b)%nat).
Proof. exact lru_victim_proof. Qed.
Print Assumptions lru_victim_spec.

(* 3. get_repr is the inverse permutation of the order list, and it ranks the blocks exactly
      by the recency order of the history *)
Theorem lru_ages : forall n h, 0 <= n -> in_range n h ->
  exists o, run (pol_init false n) h = LRU o /\
  let r := pol_repr (LRU o) in
  length r = Z.to_nat n /\
  (forall i, 0 <= i < n -> 0 <= nthZ r i 0 < n /\ nthZ o (nthZ r i 0) 0 = i) /\
  (forall p, 0 <= p < n -> nthZ r (nthZ o p 0) 0 = p) /\
  (forall i j, 0 <= i < n -> 0 <= j < n -> (nthZ r i 0 < nthZ r j 0 <-> older h i j)).
Proof. exact lru_ages_proof. Qed.
Print Assumptions lru_ages.

(* adequacy of the spec's [last_access]: it is the position of the last occurrence *)
Theorem last_access_meaning : forall h i,
  (last_access h i = None <-> ~ In i h) /\
  (forall p, last_access h i = Some p ->
     nth_error h p = Some i /\ forall q, (p < q)%nat -> nth_error h q <> Some i).
Proof. exact last_access_meaning_proof. Qed.
Print Assumptions last_access_meaning.

(* adequacy of [older]: a strict total order on blocks *)
Theorem older_strict_total : forall h i j,
  ~ older h i i /\ (older h i j -> older h j i -> False) /\ (i <> j -> older h i j \/ older h j i).
Proof. exact older_strict_total_proof. Qed.
Print Assumptions older_strict_total.

(** * PLRU, associativity 2^d for every d, bit array in heap order *)

(* 4. victim = follow the bits from the root (any array contents, any length); one access =
      set every bit on the path to point away from the accessed leaf, array length kept *)
Theorem plru_tree_refines : forall (d : nat) (bits : list bool),
  let a := 2 ^ Z.of_nat d in
  pol_victim (PLRU a bits) = tree_victim d (heap_tree bits d 0) /\
  0 <= pol_victim (PLRU a bits) < a /\
  (length bits = Z.to_nat (a - 1) ->
   forall k, 0 <= k < a ->
     exists bits', pol_access (PLRU a bits) k = PLRU a bits' /\
       length bits' = length bits /\
       heap_tree bits' d 0 = tree_access d k (heap_tree bits d 0)).
Proof. exact plru_tree_refines_proof. Qed.
Print Assumptions plru_tree_refines.

(* corollary: from the initial state, along any history, the array stays well-formed and its
   tree is the spec's tree after the same accesses *)
Theorem plru_run_refines : forall d h, in_range (2 ^ Z.of_nat d) h ->
  exists bits, run (pol_init true (2 ^ Z.of_nat d)) h = PLRU (2 ^ Z.of_nat d) bits /\
    length bits = Z.to_nat (2 ^ Z.of_nat d - 1) /\
    heap_tree bits d 0 = fold_left (fun t k => tree_access d k t) h (tree_init d) /\
    complete d (heap_tree bits d 0) /\
    0 <= pol_victim (run (pol_init true (2 ^ Z.of_nat d)) h) < 2 ^ Z.of_nat d.
Proof. exact plru_run_proof. Qed.
Print Assumptions plru_run_refines.

(* the tree depth the model computes for a power of two *)
Theorem plru_depth_of_pow2 : forall d, plru_depth (2 ^ Z.of_nat d) = d.
Proof. exact plru_depth_pow2. Qed.
Print Assumptions plru_depth_of_pow2.

(* adequacy of the tree spec: the block just accessed is never the next victim *)
Theorem tree_victim_avoids_last : forall d k t, complete (S d) t -> 0 <= k < 2 ^ Z.of_nat (S d) ->
  tree_victim (S d) (tree_access (S d) k t) <> k.
Proof. exact tree_victim_access. Qed.
Print Assumptions tree_victim_avoids_last.

(** * Idempotence of access (the NOTE in ReplacementStrategy) *)

(* 5. PLRU: any associativity, any array, any index.  LRU: any duplicate-free order list,
      in particular every reachable one. *)
Theorem access_idempotent : forall p i,
  (match p with LRU o => NoDup o | PLRU _ _ => True end) ->
  pol_access (pol_access p i) i = pol_access p i.
Proof. exact access_idem_proof. Qed.
Print Assumptions access_idempotent.

Theorem access_idempotent_reachable : forall plru n h i, 0 <= n -> in_range n h ->
  let p := run (pol_init plru n) h in pol_access (pol_access p i) i = pol_access p i.
Proof. exact access_idem_reachable. Qed.
Print Assumptions access_idempotent_reachable.

(** * 6. Non-vacuity: concrete instances, checked against the Python classes
      (LRU(4)/PLRU(4) after accesses 2,0,2,3; PLRU(8) after 5,1,6,1,3; LRU(5) after 3,3,1) *)
Example hist_in_range : in_range 4 [2; 0; 2; 3] /\ in_range 8 [5; 1; 6; 1; 3] /\ in_range 5 [3; 3; 1].
Proof. unfold in_range. repeat split; repeat constructor; discriminate. Qed.

Example lru_example :
  let p := run (pol_init false 4) [2; 0; 2; 3] in
  p = LRU [1; 0; 2; 3] /\ pol_victim p = 1 /\ pol_repr p = [1; 0; 2; 3] /\ pol_access p 3 = p.
Proof. vm_compute. repeat split. Qed.

Example lru_example_never_accessed :
  let p := run (pol_init false 5) [3; 3; 1] in
  p = LRU [0; 2; 4; 3; 1] /\ pol_victim p = 0 /\ pol_repr p = [0; 4; 1; 3; 2] /\
  last_access [3; 3; 1] 3 = Some 1%nat /\ last_access [3; 3; 1] 1 = Some 2%nat /\
  last_access [3; 3; 1] 0 = None.
Proof. vm_compute. repeat split. Qed.

Example plru_example :
  let p := run (pol_init true 4) [2; 0; 2; 3] in
  p = PLRU 4 [false; true; false] /\ pol_victim p = 1 /\ pol_repr p = [0; 1; 0] /\
  pol_access p 3 = p /\
  heap_tree [false; true; false] 2 0 = Node false (Node true Leaf Leaf) (Node false Leaf Leaf) /\
  fold_left (fun t k => tree_access 2 k t) [2; 0; 2; 3] (tree_init 2)
    = Node false (Node true Leaf Leaf) (Node false Leaf Leaf) /\
  tree_victim 2 (Node false (Node true Leaf Leaf) (Node false Leaf Leaf)) = 1.
Proof. vm_compute. repeat split. Qed.

Example plru_example_8 :
  let p := run (pol_init true 8) [5; 1; 6; 1; 3] in
  p = PLRU 8 [true; false; false; false; false; false; true] /\ pol_victim p = 4 /\
  plru_depth 8 = 3%nat /\
  tree_victim 3 (fold_left (fun t k => tree_access 3 k t) [5; 1; 6; 1; 3] (tree_init 3)) = 4.
Proof. vm_compute. repeat split. Qed.

(* the NoDup hypothesis of [access_idempotent] cannot be dropped for LRU *)
Example lru_idempotence_needs_NoDup :
  pol_access (pol_access (LRU [7; 7; 1]) 7) 7 <> pol_access (LRU [7; 7; 1]) 7.
Proof. vm_compute. discriminate. Qed.
