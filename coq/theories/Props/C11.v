(* Props/C11.v — property C11: the instruction cache is transparent, its counters are those of
   the reference cache, and a reset leaves nothing of the previous program behind.
   Only statements; every proof is [exact <lemma>] into Proofs/C11Proofs.v.

   Model (Model/RV.v): [imem] = program + optional [icache]; [instr_at p a] = the uncached
   instruction memory (instruction number a/4 if a is a non-negative multiple of 4 inside the
   program, else an empty slot [None]); [im_read im a] = (instruction, new state, cycle penalty);
   [im_reset]; [icache_init].  Vocabulary (Spec/RefCache.v): [IInv], [block_base], [iref_of],
   [icounters_of], [ref_fetch]/[ref_fetch_run] (reference: every fetch is a counted allocating
   read), [im_run]/[im_after]/[im_counters] (histories of fetches on the model).
   Everything holds for every geometry with 0 <= ibits and 0 <= bbits, every associativity,
   both replacement policies, every penalty, every program. *)
From Coq Require Import Lia.
From ArchSim Require Import Model.Base Model.Cache Model.RV Spec.RefCache Proofs.C11Proofs.
Open Scope Z_scope.

(** * 1. The invariant: cached blocks are copies of the program *)

Theorem IInv_meaning : forall im,
  IInv im <->
  match icc im with
  | None => True
  | Some c =>
      let g := cfg (ic c) in
      0 <= ibits g /\ 0 <= bbits g /\
      (* every valid block b of every set number i *)
      forall (i : nat) s b, nth_error (sets (ic c)) i = Some s -> In b (blocks s) -> valid b = true ->
        baddr b = (btag b * 2 ^ ibits g + Z.of_nat i) * 2 ^ (bbits g + 2) /\
        vals b = iread_block (prog im) (baddr b) (Z.to_nat (2 ^ bbits g))
  end.
Proof. exact IInv_meaning_proof. Qed.
Print Assumptions IInv_meaning.

(* a block is a list of 2^bbits consecutive uncached reads; slots past the program end are None *)
Theorem iread_block_meaning : forall p a n,
  length (iread_block p a n) = n /\
  forall k, (k < n)%nat -> nth k (iread_block p a n) None = instr_at p (a + 4 * Z.of_nat k).
Proof. exact iread_block_meaning_proof. Qed.
Print Assumptions iread_block_meaning.

Theorem iinv_init : forall g pen p, 0 <= ibits g -> 0 <= bbits g ->
  IInv {| prog := p; icc := Some (icache_init g pen) |}.
Proof. exact iinv_init_proof. Qed.
Print Assumptions iinv_init.

Theorem iinv_init_uncached : forall p, IInv {| prog := p; icc := None |}.
Proof. exact iinv_none. Qed.
Print Assumptions iinv_init_uncached.

(* preserved by a fetch at ANY address (no alignment or range guard) *)
Theorem iinv_step : forall im a, IInv im -> IInv (snd (fst (im_read im a))).
Proof. exact iinv_step_proof. Qed.
Print Assumptions iinv_step.

(** * 2. Transparency of one fetch: hit or miss, any geometry / policy, with or without cache.
      Guard: a is a multiple of 4 in [0, 2^32) (the processor fetches only where an instruction
      exists, i.e. at multiples of 4 below 2^14); see [guards_needed] below. *)
Theorem ifetch_transparent : forall im a, IInv im -> a mod 4 = 0 -> 0 <= a < 2 ^ 32 ->
  fst (fst (im_read im a)) = instr_at (prog im) a.
Proof. exact ifetch_transparent_proof. Qed.
Print Assumptions ifetch_transparent.

(** * 3. Counters *)

(* one fetch through a cache: access counter +1, hit counter +[hit], last-hit flag = hit, cycle
   penalty = configured penalty on a miss and 0 on a hit, where [hit] is the lookup of the
   reference directory; the directory moves by the reference's allocating touch; configuration
   and penalty never change.  No invariant and no address guard needed. *)
Theorem icache_counters : forall im c a, icc im = Some c ->
  let g := cfg (ic c) in
  0 <= ibits g -> 0 <= bbits g ->
  let hit := ref_lookup (abs_dir (ic c)) (ref_idx g a) (ref_tag g a) in
  exists c', icc (snd (fst (im_read im a))) = Some c' /\
    iaccesses c' = iaccesses c + 1 /\ ihits c' = ihits c + (if hit then 1 else 0) /\
    ilasthit c' = hit /\ snd (im_read im a) = (if hit then 0 else ipenalty c) /\
    abs_dir (ic c') = ref_touch true (abs_dir (ic c)) (ref_idx g a) (ref_tag g a) /\
    cfg (ic c') = g /\ ipenalty c' = ipenalty c.
Proof. exact icache_counters_proof. Qed.
Print Assumptions icache_counters.

(* without a cache: no counters, no penalty, state unchanged *)
Theorem uncached_fetch : forall im a, icc im = None -> im_read im a = (instr_at (prog im) a, im, 0).
Proof. exact im_read_none. Qed.
Print Assumptions uncached_fetch.

(* over any history of fetch addresses: counters after every fetch and every per-fetch penalty
   equal the reference's; the access counter has grown by the number of fetches *)
Theorem icache_matches_reference : forall addrs im c, icc im = Some c ->
  let g := cfg (ic c) in
  0 <= ibits g -> 0 <= bbits g ->
  im_counters im addrs = map fst (ref_fetch_run g (ipenalty c) (iref_of c) addrs) /\
  map snd (im_run im addrs) = map snd (ref_fetch_run g (ipenalty c) (iref_of c) addrs) /\
  exists c', icc (im_after im addrs) = Some c' /\
    iaccesses c' = iaccesses c + Z.of_nat (length addrs) /\
    cfg (ic c') = g /\ ipenalty c' = ipenalty c.
Proof. exact icache_run_proof. Qed.
Print Assumptions icache_matches_reference.

(* from a freshly loaded program: the reference starts empty with zero counters *)
Theorem icache_matches_reference_init : forall g pen p addrs, 0 <= ibits g -> 0 <= bbits g ->
  let im := {| prog := p; icc := Some (icache_init g pen) |} in
  im_counters im addrs = map fst (ref_fetch_run g pen (rcache_init g) addrs) /\
  map snd (im_run im addrs) = map snd (ref_fetch_run g pen (rcache_init g) addrs) /\
  exists c', icc (im_after im addrs) = Some c' /\ iaccesses c' = Z.of_nat (length addrs).
Proof. exact icache_init_run_proof. Qed.
Print Assumptions icache_matches_reference_init.

(** * 4. Reset *)

(* reset = empty program and, if there is a cache, a fresh one with the same geometry, policy
   kind and penalty: empty directory, counters 0, last-hit flag false *)
Theorem im_reset_meaning : forall im,
  im_reset im = {| prog := [];
                   icc := option_map (fun c => icache_init (cfg (ic c)) (ipenalty c)) (icc im) |}.
Proof. exact im_reset_eq. Qed.
Print Assumptions im_reset_meaning.

(* whatever was fetched before, the reset state IS the initial state of that configuration, so
   after reloading any program q the memory behaves as if nothing had ever run *)
Theorem load_resets_icache : forall g pen p addrs, 0 <= ibits g -> 0 <= bbits g ->
  im_reset (im_after {| prog := p; icc := Some (icache_init g pen) |} addrs) =
    {| prog := []; icc := Some (icache_init g pen) |}.
Proof. exact load_resets_icache_proof. Qed.
Print Assumptions load_resets_icache.

Theorem load_resets_uncached : forall p addrs,
  im_reset (im_after {| prog := p; icc := None |} addrs) = {| prog := []; icc := None |}.
Proof. exact im_reset_none. Qed.
Print Assumptions load_resets_uncached.

(* fetching never changes the program *)
Theorem prog_constant : forall im a, prog (snd (fst (im_read im a))) = prog im.
Proof. exact prog_im_read. Qed.
Print Assumptions prog_constant.

(** * 5. Transparency over a history of aligned fetches *)
Theorem fetch_history_transparent : forall addrs im, IInv im ->
  Forall (fun a => a mod 4 = 0 /\ 0 <= a < 2 ^ 32) addrs ->
  map fst (im_run im addrs) = map (instr_at (prog im)) addrs.
Proof. exact fetch_history_transparent_proof. Qed.
Print Assumptions fetch_history_transparent.

(** * 6. Non-vacuity: 5 instructions, direct mapped, 2 sets, 2 words per block, penalty 5.
      Fetches 0,4,8,16,0,12,16: the block of 16 (instruction 4 and an empty slot) evicts the
      block of 0 and vice versa.  The same calls on the Python InstructionMemoryCacheSystem give
      the same instructions, counters and penalties. *)
Definition gi : ccfg := {| ibits := 1; bbits := 1; assoc := 1; plru := false |}.
Definition p5 : list instr := map (fun k => II ADDI 1 0 k) [0; 1; 2; 3; 4].
Definition im0 : imem := {| prog := p5; icc := Some (icache_init gi 5) |}.
Definition fa : list Z := [0; 4; 8; 16; 0; 12; 16].
Definition cnt h a l : counters := {| c_hits := h; c_accesses := a; c_lasthit := l |}.

Example fetch_example :
  im_run im0 fa =
    [(Some (II ADDI 1 0 0), 5); (Some (II ADDI 1 0 1), 0); (Some (II ADDI 1 0 2), 5);
     (Some (II ADDI 1 0 4), 5); (Some (II ADDI 1 0 0), 5); (Some (II ADDI 1 0 3), 0);
     (Some (II ADDI 1 0 4), 5)] /\
  im_counters im0 fa =
    [cnt 0 1 false; cnt 1 2 true; cnt 1 3 false; cnt 1 4 false; cnt 1 5 false; cnt 2 6 true;
     cnt 2 7 false] /\
  ref_fetch_run gi 5 (rcache_init gi) fa = combine (im_counters im0 fa) (map snd (im_run im0 fa)) /\
  map fst (im_run im0 fa) = map (instr_at p5) fa.
Proof. vm_compute. repeat split. Qed.

Example fetch_example_aligned : Forall (fun a => a mod 4 = 0 /\ 0 <= a < 2 ^ 32) fa.
Proof. unfold fa. repeat (constructor; [split; [reflexivity | lia]|]). constructor. Qed.

(* a fetch past the program end through the cache returns the empty slot, as uncached *)
Example fetch_past_end : fst (fst (im_read (im_after im0 fa) 20)) = None /\ instr_at p5 20 = None.
Proof. vm_compute. split; reflexivity. Qed.

Example reset_example :
  im_after im0 fa <> im0 /\ im_reset (im_after im0 fa) = {| prog := []; icc := Some (icache_init gi 5) |}.
Proof. vm_compute. split; [discriminate | reflexivity]. Qed.

(* the guards of [ifetch_transparent] cannot be dropped: an unaligned address, or one beyond
   32 bits, is answered by the cache from the enclosing / wrapped block *)
Example guards_needed :
  IInv im0 /\
  fst (fst (im_read im0 2)) = Some (II ADDI 1 0 0) /\ instr_at p5 2 = None /\
  fst (fst (im_read im0 (2 ^ 32 + 4))) = Some (II ADDI 1 0 1) /\ instr_at p5 (2 ^ 32 + 4) = None.
Proof. split; [apply iinv_init; discriminate|]. vm_compute. repeat split. Qed.
