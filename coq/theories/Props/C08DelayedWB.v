(* Props/C08DelayedWB.v — property C08, phase B: the five-stage pipeline with hazard detection
   DISABLED.  Only statements; every proof is [exact <lemma>] into Proofs/FlagOff*.v.

   "With hazard detection disabled the five-stage pipeline behaves as an interlock-free pipeline:
    every instruction reads its source registers in decode and observes exactly the register writes
    of the instructions that have completed write-back by that cycle, so a consumer fewer than three
    slots behind its producer reads the old value, while control hazards and ecall draining are still
    handled.  Hence any program whose register dependencies are all at least three instructions apart
    (for instance after inserting two nops behind every instruction) computes the same results as
    single-cycle mode, and no decode-stage stall is ever inserted."

   Scope as in Props/C02Refine.v: flat data memory, no instruction cache, [wf] initial state, the
   pipeline starts empty ([pipe_init s false]), programs of [supported] instructions.

   PART 1 (the clause users rely on), proved in full:
     [dep_free P]         static, decidable: for every k, the register written by P[k] (unless x0) is
                          none of the registers P[k+1] and P[k+2] read in decode; an ecall P[k+1] /
                          P[k+2] additionally counts as a reader of a7 and a0
     [dep_free_weak P]    the same without the ecall clause.  It suffices: an ecall fires in EX only
                          when every older instruction has left WB, so it always sees a7 / a0 up to
                          date (the model's decode of an ecall reads x0 only)
     [flagoff_refines_single]   dep_free P -> the flag-off run refines [single_run]: same statement
                          as [pipe_refines_single] (Done and Faulted cases, [arch_agree], equal
                          retire trace, cycle bound)
     [flagoff_lockstep]   how it is proved, and stronger: on a dep_free_weak program the flag-off
                          pipeline runs CYCLE BY CYCLE like the hazard-detecting pipeline (same
                          architectural state including the cycle / stall / flush counters, same
                          latches up to the decode-stage stall flag [erase]), because the interlock
                          of the latter never fires.  Nothing is needed at control-transfer targets:
                          a redirect flushes latches 0-2, so the target is decoded after the
                          redirecting instruction (and everything older) has written back; a jal /
                          jalr target may read the link register at once.
     [dep_free_pad2]      [pad2 P] (two canonical nops [addi x0,x0,0] behind every instruction,
                          branch / jal offsets scaled by 3) is dep_free for EVERY P.  That padding
                          preserves the single-cycle meaning is true only for programs that do not
                          depend on absolute code addresses (jalr targets, auipc values, link
                          values used as data) and is not claimed here.

   PART 2 (the general characterisation, no dependency hypothesis).  The reference machine
   [dwb_run] (Proofs/FlagOffDwb.v) is the Python interpreter [delayed_wb] of harness/sched.py with
   the cycle numbers eliminated: an in-order interpreter that keeps the in-order state (all writes
   applied) together with the register file one slot and two slots ago; an instruction reads its
   operands from the register file TWO SLOTS AGO (its producers at distance 1 and 2 are invisible)
   and everything else (memory, output, pc, counters, faults) from the in-order state; a slot is
   an instruction or a bubble; three bubbles follow every redirecting instruction (taken branch,
   jal, jalr: the flushed slots), and an ecall that finds an instruction one or two slots ahead
   is preceded by two bubbles (the drain), so that it — and everything behind a redirect — sees
   all older writes.  [delayed_wb] itself, with its cycle numbers, is transliterated in
   Proofs/FlagOffCyc.v and compared by closed computation below (registers, final cycle count and
   the complete retire schedule (pc, write-back cycle) agree with the modelled pipeline).

   FULL STATEMENT (not proved in this generality):
       forall P s n, Forall supported P -> wf s -> prog (im s) = P ->
       match dwb_run n s with
       | (s', Done)      => exists c p, c <= 8 * n + 8 /\ pipe_run c (pipe_init s false) = (p, PDone) /\
                            arch_agree p s' /\ pipe_trace c (pipe_init s false) = dwb_trace n s
       | (s', Faulted f) => exists c p, c <= 8 * n + 8 /\ pipe_run c (pipe_init s false) = (p, PFaulted f) /\
                            regs (pst p) = regs s' /\ ms (pst p) = ms s' /\ out (pst p) = out s'
       | (_, OutOfFuel)  => True
       end.
   PROVED: [flagoff_is_dwb_noecall_partial] — exactly this statement for programs WITHOUT ECALL
   (every other supported instruction: R/I/shift/lui/auipc/load/store with arbitrary, also stale,
   register dependencies and faulting accesses; taken and not-taken branches, jal, jalr with the
   MEM flush, wrong-path slots and link registers), and its special case for straight-line programs.
   MISSING: ecall (the drain stall at EX, during which decode is repeated on the skid copy, the
   exit flushes from EX / MEM / WB).  The invariant (Proofs/FlagOffInv.v) and the reference machine
   are stated for all supported programs; what is not done is the two stalled modes of the step
   lemma, where the not-yet-fired ecall in latch 2 is logically one stage earlier with a hidden
   bubble in front of it.  The full statement is checked on concrete programs with draining,
   printing and exiting ecalls below. *)
From ArchSim Require Import Model.Base Model.Mem Model.Cache Model.Fmt Model.RV Model.Single
  Model.RVSplit Model.Pipe Proofs.C01Step Proofs.SplitExec Proofs.PipeLaws Proofs.PipeShape
  Proofs.PipeInv Proofs.PipeInvStraight Proofs.PipeInvControl Proofs.FlagOffDep Proofs.FlagOffSim
  Proofs.FlagOffRefine Proofs.FlagOffDwb Proofs.FlagOffInv Proofs.FlagOffStraight Proofs.FlagOffControl
  Proofs.FlagOffCyc.
Open Scope Z_scope.

(** ** 1. Dependencies at least three instructions apart: flag off = single-cycle *)
Theorem flagoff_refines_single : forall P s n,
  Forall (fun i => supported i = true) P -> wf s -> prog (im s) = P -> dep_free P = true ->
  match single_run n s with
  | (s', Done) => exists c p, (c <= 8 * n + 8)%nat /\
      pipe_run c (pipe_init s false) = (p, PDone) /\ arch_agree p s' /\
      pipe_trace c (pipe_init s false) = single_trace n s
  | (s', Faulted f) => exists c p, (c <= 8 * n + 8)%nat /\
      pipe_run c (pipe_init s false) = (p, PFaulted f) /\
      regs (pst p) = regs s' /\ ms (pst p) = ms s' /\ out (pst p) = out s'
  | (_, OutOfFuel) => True
  end.
Proof. exact FlagOffRefine.flagoff_refines_single. Qed.
Print Assumptions flagoff_refines_single.

(* the same from the weaker hypothesis (no condition on a7 / a0 before an ecall) *)
Theorem flagoff_refines_single_weak : forall P s n,
  Forall (fun i => supported i = true) P -> wf s -> prog (im s) = P -> dep_free_weak P = true ->
  match single_run n s with
  | (s', Done) => exists c p, (c <= 8 * n + 8)%nat /\
      pipe_run c (pipe_init s false) = (p, PDone) /\ arch_agree p s' /\
      pipe_trace c (pipe_init s false) = single_trace n s
  | (s', Faulted f) => exists c p, (c <= 8 * n + 8)%nat /\
      pipe_run c (pipe_init s false) = (p, PFaulted f) /\
      regs (pst p) = regs s' /\ ms (pst p) = ms s' /\ out (pst p) = out s'
  | (_, OutOfFuel) => True
  end.
Proof. exact FlagOffRefine.flagoff_refines_single_weak. Qed.
Print Assumptions flagoff_refines_single_weak.

Theorem dep_free_implies_weak : forall P, dep_free P = true -> dep_free_weak P = true.
Proof. exact dep_free_weaken. Qed.
Print Assumptions dep_free_implies_weak.

(* lock step with the hazard-detecting pipeline, for every fuel: same run end, same final state
   (all of [pst], cycle / stall / flush counters included), same retire list *)
Theorem flagoff_lockstep : forall P s c, wf s -> prog (im s) = P -> dep_free_weak P = true ->
  pipe_run c (pipe_init s false) =
    (erase (fst (pipe_run c (pipe_init s true))), snd (pipe_run c (pipe_init s true))) /\
  pipe_trace c (pipe_init s false) = pipe_trace c (pipe_init s true).
Proof. exact FlagOffRefine.flagoff_lockstep. Qed.
Print Assumptions flagoff_lockstep.

(* what [erase] keeps: the architectural state and the stall register; the latches up to the
   stall flag of latch 1 *)
Theorem erase_keeps : forall p, pst (erase p) = pst p /\ stalled (erase p) = stalled p /\
  hazards (erase p) = false /\ pipe_done (erase p) = pipe_done p.
Proof. exact erase_keeps_lem. Qed.
Print Assumptions erase_keeps.

(** ** 2. Padding with two nops makes every program dependency-free *)
Theorem dep_free_pad2 : forall P, dep_free (pad2 P) = true.
Proof. exact FlagOffDep.dep_free_pad2. Qed.
Print Assumptions dep_free_pad2.

(** ** 3. The general characterisation: flag off = delayed-write-back reference machine *)

(* every supported instruction except ecall; no hypothesis on register dependencies *)
Theorem flagoff_is_dwb_noecall_partial : forall P s n,
  Forall (fun i => noecall i = true) P -> wf s -> prog (im s) = P ->
  match dwb_run n s with
  | (s', Done) => exists c p, (c <= 8 * n + 8)%nat /\
      pipe_run c (pipe_init s false) = (p, PDone) /\ arch_agree p s' /\
      pipe_trace c (pipe_init s false) = dwb_trace n s
  | (s', Faulted f) => exists c p, (c <= 8 * n + 8)%nat /\
      pipe_run c (pipe_init s false) = (p, PFaulted f) /\
      regs (pst p) = regs s' /\ ms (pst p) = ms s' /\ out (pst p) = out s'
  | (_, OutOfFuel) => True
  end.
Proof. exact flagoff_is_dwb_noecall. Qed.
Print Assumptions flagoff_is_dwb_noecall_partial.

(* the straight-line case (no control transfer, no ecall), proved first and independently *)
Theorem flagoff_is_dwb_straightline_partial : forall P s n,
  Forall (fun i => straight i = true) P -> wf s -> prog (im s) = P ->
  match dwb_run n s with
  | (s', Done) => exists c p, (c <= 8 * n + 8)%nat /\
      pipe_run c (pipe_init s false) = (p, PDone) /\ arch_agree p s' /\
      pipe_trace c (pipe_init s false) = dwb_trace n s
  | (s', Faulted f) => exists c p, (c <= 8 * n + 8)%nat /\
      pipe_run c (pipe_init s false) = (p, PFaulted f) /\
      regs (pst p) = regs s' /\ ms (pst p) = ms s' /\ out (pst p) = out s'
  | (_, OutOfFuel) => True
  end.
Proof. exact flagoff_is_dwb_straight. Qed.
Print Assumptions flagoff_is_dwb_straightline_partial.

(* the invariant holds initially, for every supported program (Proofs/FlagOffInv.v) *)
Theorem dinv_holds_initially : forall P s,
  wf s -> prog (im s) = P -> exitc s = None -> DInv P (pipe_init s false) (lag_init s).
Proof. exact dinv_init. Qed.
Print Assumptions dinv_holds_initially.

(* one cycle of the flag-off pipeline on a program without ecall: it retires the slot of latch 3,
   which is the instruction the reference machine executes next ([advL l3 L] is one [lstep] for an
   occupied latch and one [bub] for a bubble), keeps the invariant, and faults exactly when and
   where the reference machine faults *)
Theorem dinv_step_noecall : forall P, Forall (fun i => noecall i = true) P ->
  forall p L l0 l1 l2 l3 l4 dead, DInvAt P p L l0 l1 l2 l3 l4 dead -> stalled p = None ->
  pipe_done p = false ->
  match pipe_step p with
  | (p', None) => DInv P p' (advL l3 L) /\ lat_at (lat p') 4 = option_map wb_slot l3 /\
                  (l3 = None -> mu p' < mu p) /\ stepinfo p p' l0 l1 l2 l3
  | (p', Some f) => exists Lm, lstep (advL l3 L) = (Lm, Some f) /\
                  single_done (lt (advL l3 L)) = false /\ nonempty l2 = true /\
                  regs (pst p') = regs (lt Lm) /\ ms (pst p') = ms (lt Lm) /\ out (pst p') = out (lt Lm)
  end.
Proof. exact cstep_normal. Qed.
Print Assumptions dinv_step_noecall.

(* the decode view: whatever latches 1 and 2 hold, the slot decoded in a cycle reads the register
   file left by that cycle's write-back *)
Theorem decode_view : forall a b M, lr2 (advL a (advL b M)) = regs (lt M).
Proof. exact lr2_adv2. Qed.
Print Assumptions decode_view.

(** ** Non-vacuity (closed computations) *)
Definition run_off (P : list instr) := fst (pipe_run 400 (pipe_init (init_st P (MFlat []) None) false)).
Definition run_on (P : list instr) := fst (pipe_run 400 (pipe_init (init_st P (MFlat []) None) true)).
Definition run_single (P : list instr) := fst (single_run 200 (init_st P (MFlat []) None)).
Definition run_dwb (P : list instr) := fst (dwb_run 200 (init_st P (MFlat []) None)).

(* the dependency hypothesis is needed: a consumer one slot behind its producer violates
   [dep_free] and reads the old value (x2 = 0 instead of 10) *)
Definition c08_hz : list instr := [II ADDI 1 0 5; IR ADD 2 1 1; II ADDI 3 0 1].
Example dep_free_needed :
  dep_free c08_hz = false /\ dep_free_weak c08_hz = false /\
  rget (pst (run_off c08_hz)) 2 = 0 /\ rget (run_single c08_hz) 2 = 10 /\
  rget (run_dwb c08_hz) 2 = 0.
Proof. vm_compute. repeat split; reflexivity. Qed.

(* ... and padding repairs it *)
Example pad2_repairs :
  pad2 c08_hz = [II ADDI 1 0 5; nop; nop; IR ADD 2 1 1; nop; nop; II ADDI 3 0 1; nop; nop] /\
  dep_free (pad2 c08_hz) = true /\
  regs (pst (run_off (pad2 c08_hz))) = regs (run_single (pad2 c08_hz)) /\
  rget (pst (run_off (pad2 c08_hz))) 2 = 10.
Proof. vm_compute. repeat split; reflexivity. Qed.

(* a dependency-free program with a loop (backward branch), a jal whose target reads the link
   register at once, and a printing and an exiting ecall: the hypotheses of
   [flagoff_refines_single] hold, the flag-off run equals the single-cycle run and takes exactly
   the cycles of the hazard-detecting pipeline *)
Definition c08_dep_ok : list instr :=
  [IJal 1 12 0; nop; nop; II ADDI 2 1 7; II ADDI 5 0 3; nop; nop;
   II ADDI 5 5 (-1); nop; nop; IBranch BNE 5 0 (-12); II ADDI 6 2 1; nop; II ADDI 17 0 1;
   II ADDI 10 6 0; nop; nop; IEcall; II ADDI 17 0 10; nop; nop; IEcall; II ADDI 9 0 9].
Example dep_free_program_runs :
  dep_free c08_dep_ok = true /\ forallb supported c08_dep_ok = true /\
  regs (pst (run_off c08_dep_ok)) = regs (run_single c08_dep_ok) /\
  out (pst (run_off c08_dep_ok)) = [49; 50] /\ exitc (pst (run_off c08_dep_ok)) = Some 0 /\
  pipe_trace 400 (pipe_init (init_st c08_dep_ok (MFlat []) None) false) =
    single_trace 200 (init_st c08_dep_ok (MFlat []) None) /\
  cycles (pst (run_off c08_dep_ok)) = cycles (pst (run_on c08_dep_ok)) /\
  stalls (pst (run_off c08_dep_ok)) = 2.
Proof. vm_compute. repeat split; reflexivity. Qed.

(* the weak condition suffices: an ecall directly behind the producers of a7 / a0 *)
Definition c08_ecall_close : list instr := [II ADDI 10 0 7; II ADDI 17 0 1; IEcall; II ADDI 17 0 10; IEcall].
Example weak_suffices :
  dep_free c08_ecall_close = false /\ dep_free_weak c08_ecall_close = true /\
  out (pst (run_off c08_ecall_close)) = [55] /\ exitc (pst (run_off c08_ecall_close)) = Some 0 /\
  regs (pst (run_off c08_ecall_close)) = regs (run_single c08_ecall_close).
Proof. vm_compute. repeat split; reflexivity. Qed.

(* stale reads in a loop, a jal and its link register, a store / load pair: the hypotheses of
   [flagoff_is_dwb_noecall_partial] hold; pipeline = reference machine <> single-cycle machine
   (the loop runs four times instead of three: x5 ends at -1) *)
Definition c08_stale : list instr :=
  [II ADDI 5 0 3; II ADDI 6 0 0; IR ADD 6 6 5; II ADDI 5 5 (-1); IBranch BNE 5 0 (-8);
   IJal 1 8 0; II ADDI 7 0 99; II ADDI 2 1 0; IR ADD 3 2 2; ILui 8 16; nop; nop;
   IStore SW 8 3 0; ILoad LW 9 8 0; IR ADD 9 9 9].
Example stale_program_runs :
  forallb noecall c08_stale = true /\ dep_free_weak c08_stale = false /\
  regs (pst (run_off c08_stale)) = regs (run_dwb c08_stale) /\
  ms (pst (run_off c08_stale)) = ms (run_dwb c08_stale) /\
  pipe_trace 400 (pipe_init (init_st c08_stale (MFlat []) None) false) =
    dwb_trace 200 (init_st c08_stale (MFlat []) None) /\
  rget (run_dwb c08_stale) 5 = 4294967295 /\ rget (run_single c08_stale) 5 = 0 /\
  rget (run_dwb c08_stale) 3 = 0 /\ rget (run_single c08_stale) 3 = 48.
Proof. vm_compute. repeat split; reflexivity. Qed.

(* the full statement on a program WITH ecalls (draining, printing, back to back, exiting) and
   stale reads: pipeline = [dwb_run]; and the Python reference with its cycle numbers
   ([delayed_wb], Proofs/FlagOffCyc.v) gives the same registers, the same final cycle and the same
   retire schedule (pc, write-back cycle) as the modelled pipeline *)
Definition c08_ecalls : list instr :=
  [II ADDI 5 0 3; II ADDI 6 0 0; IR ADD 6 6 5; II ADDI 5 5 (-1); IBranch BNE 5 0 (-8);
   II ADDI 10 6 0; II ADDI 17 0 1; IEcall; IJal 1 8 0; II ADDI 7 0 99; II ADDI 2 1 0; IR ADD 3 2 2;
   II ADDI 17 0 1; II ADDI 10 3 0; IEcall; IEcall; II ADDI 17 0 10; IEcall; II ADDI 9 0 9].
Example full_statement_on_ecalls :
  let s := init_st c08_ecalls (MFlat []) None in
  snd (dwb_run 200 s) = Done /\ snd (pipe_run 400 (pipe_init s false)) = PDone /\
  regs (pst (run_off c08_ecalls)) = regs (run_dwb c08_ecalls) /\
  out (pst (run_off c08_ecalls)) = out (run_dwb c08_ecalls) /\ out (run_dwb c08_ecalls) = [51; 48; 48] /\
  exitc (pst (run_off c08_ecalls)) = exitc (run_dwb c08_ecalls) /\
  icount (pst (run_off c08_ecalls)) = icount (run_dwb c08_ecalls) /\
  pipe_trace 400 (pipe_init s false) = dwb_trace 200 s /\
  match delayed_wb 200 s with
  | Some (ret, rg, o, ex, m, cy) =>
      ret = pipe_retire 400 (pipe_init s false) /\ cy = cycles (pst (run_off c08_ecalls)) /\
      forallb (fun k => mget rg k =? rget (pst (run_off c08_ecalls)) k) (map Z.of_nat (seq 0 32)) = true /\
      o = out (pst (run_off c08_ecalls)) /\ ex = Some 0
  | None => False
  end.
Proof. vm_compute. repeat split; reflexivity. Qed.
