(* Props/C08SchedFull.v — timing of the five-stage pipeline with hazard detection DISABLED
   (property C08), the FULL STATEMENT announced in the header of Props/C08Sched.v: for EVERY program
   of supported instructions — ecall included — and every [wf] initial state, with no hypothesis on
   register dependencies, whenever the delayed-write-back reference run [dwb_run] ends [Done], the
   pipeline run from the empty pipeline ends [PDone] after exactly
   total_cycles (schedule_off (dwb_events n s)) steps, the k-th retirement is the k-th instruction
   of the reference run and happens at the step the hazard-free documented recurrence names, and the
   cycle counter has advanced by the number of steps.  Only statements; proofs in
   Proofs/SchedOffFull*.v.

   Vocabulary: Props/C08Sched.v ([schedule_off] = harness/sched.py schedule(tr, hazards=False);
   [dwb_events] = the events [delayed_wb] of harness/sched.py collects), Props/C08DelayedWBFull.v
   ([dwb_run], [dwb_trace], the invariant [EInvAt]), Props/C07Sched.v ([pipe_retire],
   [total_cycles]).

   How (Proofs/SchedOffFullStep.v, SchedOffFullMu.v, SchedOffFullRun.v, in this order).
   (1) From the shape invariant alone a cycle of the flag-off pipeline is one of: flush from MEM;
   an ecall fires in EX and exits; every slot moves on (the stall register becomes (2,2) exactly
   when an ecall enters EX while MEM or WB is occupied); drain wait (2,2) -> (2,1); drain fire.
   No stall at ID ever.  (2) [mu4 p] (Proofs/PipeInvEcall.v: 0 / 1 + drain countdown / 2 / 3 / 4
   by the oldest occupied latch) drops by exactly one in a cycle that retires nothing, also while
   an ecall drains ([mu4_drops_by_one]); after a retirement it is 3 behind a redirecting slot,
   2 when the successor is an ecall — it is in EX, draining, because the retiring slot was in MEM
   when it got there — and 0 otherwise ([mu4_after_retirement]; [Qd]: an ecall with a slot in
   latch 3 right in front of it has not fired).  (3) Along the simulation of
   Proofs/FlagOffEcallSim.v the next instruction of the reference run retires at step
   t + 1 + mu4 p; the gaps 4 / 3 / 1 are those of [schedule_off] ([schedule_off_gaps]). *)
From ArchSim Require Import Model.Base Model.Mem Model.Cache Model.Fmt Model.RV Model.Single
  Model.RVSplit Model.Pipe Proofs.C01Step Proofs.SplitExec Proofs.PipeLaws Proofs.PipeShape Proofs.PipeInv
  Proofs.PipeInvEcall Proofs.FlagOffSim Proofs.FlagOffDwb Proofs.FlagOffControl Proofs.FlagOffEcallInv
  Proofs.FlagOffEcallSim
  Proofs.SchedDefs Proofs.SchedOffDefs Proofs.SchedOffDwb Proofs.SchedOffFullStep Proofs.SchedOffFullMu
  Proofs.SchedOffFullRun.
Open Scope Z_scope.

(** ** The theorem *)
Theorem flagoff_schedule : forall P s n s',
  Forall (fun i => supported i = true) P -> wf s -> prog (im s) = P ->
  dwb_run n s = (s', Done) ->
  exists c p,
    pipe_run c (pipe_init s false) = (p, PDone) /\
    pipe_run_steps c (pipe_init s false) = c /\
    pipe_retire c (pipe_init s false) = combine (dwb_trace n s) (schedule_off (dwb_events n s)) /\
    c = total_cycles (schedule_off (dwb_events n s)) /\
    cycles (pst p) = cycles s + Z.of_nat c.
Proof. exact flagoff_schedule_lem. Qed.
Print Assumptions flagoff_schedule.

(** ** The hazard-free recurrence as gaps: first write-back in cycle 5; behind an instruction e1
    with write-back cycle w the next instruction e writes back at w + 4 if e1 redirects, else at
    w + 3 if e is an ecall (it drains), else at w + 1  ([woe], [wlist], Proofs/SchedOffFullRun.v) *)
Theorem schedule_off_gaps : forall evs, schedule_off evs = wlist 5 evs.
Proof. exact schedule_off_wlist. Qed.
Print Assumptions schedule_off_gaps.

(** ** The two facts about [mu4] behind it (any state in the shape invariant, flag off) *)
Theorem mu4_drops_by_one : forall P p p' l0 l1 l2 l4, Shape no_icache p -> prog (im (pst p)) = P ->
  lat p = [l0; l1; l2; None; l4] -> hazards p = false -> nost1 p ->
  exitc (pst p) = None -> pipe_done p = false -> pipe_step p = (p', None) ->
  mu4 p' = mu4 p - 1.
Proof. exact mu4_step_none. Qed.
Print Assumptions mu4_drops_by_one.

Theorem mu4_after_retirement : forall P p p' l0 l1 l2 x3 l4, Shape no_icache p -> prog (im (pst p)) = P ->
  lat p = [l0; l1; l2; Some x3; l4] -> hazards p = false -> nost1 p ->
  flush_of (Some (wb_slot x3)) = None -> PatE p l0 l1 l2 (Some x3) -> Qd p l2 (Some x3) ->
  pipe_step p = (p', None) -> exitc (pst p') = None -> pipe_done p' = false ->
  mu4 p' = (if has_flush (Some x3) then 3 else if is_ec l2 then 2 else 0) /\
  (has_flush (Some x3) = false -> nonempty l2 = true).
Proof. exact mu4_step_some. Qed.
Print Assumptions mu4_after_retirement.

(** ** Non-vacuity: the program of Props/C08DelayedWBFull.v — stale reads in a loop, an ecall that
    drains and prints, a jal, a consumer one slot behind its producer, two ecalls back to back, an
    exiting ecall.  The hypotheses hold; 26 instructions retire in 50 steps; the schedule with the
    hazard term would be another one. *)
Definition c08sf_prog : list instr :=
  [II ADDI 5 0 3; II ADDI 6 0 0; IR ADD 6 6 5; II ADDI 5 5 (-1); IBranch BNE 5 0 (-8);
   II ADDI 10 6 0; II ADDI 17 0 1; IEcall; IJal 1 8 0; II ADDI 7 0 99; II ADDI 2 1 0; IR ADD 3 2 2;
   II ADDI 17 0 1; II ADDI 10 3 0; IEcall; IEcall; II ADDI 17 0 10; IEcall; II ADDI 9 0 9].
Definition c08sf_st : st := init_st c08sf_prog (MFlat []) None.

Example c08sf_hypotheses :
  Forall (fun i => supported i = true) c08sf_prog /\ wf c08sf_st /\ prog (im c08sf_st) = c08sf_prog /\
  snd (dwb_run 200 c08sf_st) = Done.
Proof.
  split; [repeat constructor|]. split; [|split; [reflexivity|vm_compute; reflexivity]].
  apply wf_init_flat; [repeat constructor; unfold reg_ok; Lia.lia|vm_compute; discriminate].
Qed.

Example c08sf_runs :
  let evs := dwb_events 200 c08sf_st in
  let p0 := pipe_init c08sf_st false in
  snd (pipe_run 50 p0) = PDone /\ snd (pipe_run 49 p0) = POutOfFuel /\ pipe_run_steps 50 p0 = 50%nat /\
  pipe_retire 50 p0 = combine (dwb_trace 200 c08sf_st) (schedule_off evs) /\
  pipe_retire 50 p0 =
    zn [(0, 5); (4, 6); (8, 7); (12, 8); (16, 9); (8, 13); (12, 14); (16, 15); (8, 19); (12, 20); (16, 21);
        (8, 25); (12, 26); (16, 27); (20, 28); (24, 29); (28, 32); (32, 33); (40, 37); (44, 38); (48, 39);
        (52, 40); (56, 43); (60, 46); (64, 47); (68, 50)] /\
  (length evs, total_cycles (schedule_off evs)) = (26, 50)%nat /\
  cycles (pst (fst (pipe_run 50 p0))) = 50 /\ stalls (pst (fst (pipe_run 50 p0))) = 4 /\
  schedule evs <> schedule_off evs /\ dwb_trace 200 c08sf_st <> single_trace 200 c08sf_st.
Proof. vm_compute. repeat split; discriminate. Qed.
